"""E6 -- build the optional compiled extensions of the CURRENT tree in a scratch copy.

/repo/setup.py cannot run offline (ez_setup, pkg_resources, setup_requires), so the
extension list of setup.py is replayed here directly on top of Cython.Build.cythonize and
setuptools.setup(script_args=['build_ext', '--inplace', ...]):

  * cassandra.cmurmur3            plain C extension       (setup.py: murmur3_ext)
  * cassandra/*.pyx               (setup.py: cythonize(NoPatchExtension("*", ["cassandra/*.pyx"])));
                                  numpy_parser.pyx is left out (numpy is not installed here)
  * cassandra/<m>.py  for m in PY_MODULES                (setup.py: cython_candidates)

Build products are additionally kept in a content-addressed cache (/var/tmp/verif-cy-cache/<sha256 of all
build inputs>; see below, VERIF_CY_CACHE=0 disables it): the tree is always copied afresh, only the gcc
work is skipped when every input is byte-identical to an earlier build.

cassandra.io.libevwrapper is not built (no ev.h on this machine; not in C07's statement).

API (used by checks/c07.py, and usable by C39's compiled half):

    roots = ensure("pyx")   -> {"pyx": "/var/tmp/verif-cy-<pid>/pyx"}
    roots = ensure("full")  -> {"pyx": ".../pyx", "full": ".../full"}

``<root>/cassandra`` is an importable copy of ``$VERIF_REPO/cassandra``; in "pyx" only
cmurmur3 and the .pyx extensions are compiled, in "full" also the nine .py modules that the
binary wheels compile.  The first caller in a run (the ./run parent, from ``parts(tier)``)
builds; forked shard workers inherit ``VERIF_CY_ROOT`` and find the ``.built-*`` marker (a file
lock serialises late callers).  The scratch directory is removed when the process that
created it exits; stale directories of killed runs are removed at the next start.

A failed build raises ``vlib.harness.HarnessError`` (exit 2) -- never a violation.
"""
from __future__ import annotations

import atexit
import fcntl
import glob
import os
import shutil
import subprocess
import sys
import time

SCRATCH_PARENT = "/var/tmp"
PREFIX = "verif-cy-"
STALE_SECONDS = 3 * 3600
PY_MODULES = ['cluster', 'concurrent', 'connection', 'cqltypes', 'metadata',
              'pool', 'protocol', 'query', 'util']          # setup.py: cython_candidates
SKIP_PYX = {"numpy_parser.pyx"}

_STATE = {"root": None, "owner": None, "times": {}}


class BuildError(Exception):
    pass


def _harness_error(msg):
    try:
        from vlib.harness import HarnessError
    except Exception:  # pragma: no cover
        return BuildError(msg)
    return HarnessError(msg)


def repo():
    return os.environ.get("VERIF_REPO", "/repo")


# ----------------------------------------------------------------------------
# scratch directory life cycle
# ----------------------------------------------------------------------------

def _pid_alive(pid):
    try:
        os.kill(pid, 0)
        return True
    except ProcessLookupError:
        return False
    except PermissionError:
        return True


def remove_stale():
    now = time.time()
    for d in glob.glob(os.path.join(SCRATCH_PARENT, PREFIX + "*")):
        try:
            pid = int(os.path.basename(d)[len(PREFIX):].split("-")[0])
        except ValueError:
            pid = None
        try:
            age = now - os.stat(d).st_mtime
        except OSError:
            continue
        # a directory whose creating process is gone is stale at once; otherwise by age
        if (pid is not None and not _pid_alive(pid)) or age > STALE_SECONDS:
            shutil.rmtree(d, ignore_errors=True)


def _cleanup():
    root, owner = _STATE["root"], _STATE["owner"]
    if root and owner == os.getpid():
        shutil.rmtree(root, ignore_errors=True)


def scratch_root():
    """The scratch directory of this run (created by the first caller, inherited by forks)."""
    if _STATE["root"]:
        return _STATE["root"]
    inherited = os.environ.get("VERIF_CY_ROOT")
    if inherited and os.path.isdir(inherited):
        _STATE["root"] = inherited
        return inherited
    remove_stale()
    root = os.path.join(SCRATCH_PARENT, "%s%d" % (PREFIX, os.getpid()))
    shutil.rmtree(root, ignore_errors=True)
    os.makedirs(root)
    _STATE["root"], _STATE["owner"] = root, os.getpid()
    os.environ["VERIF_CY_ROOT"] = root
    atexit.register(_cleanup)
    return root


# ----------------------------------------------------------------------------
# the build proper (runs in a child interpreter: setuptools.setup() is not re-entrant-clean)
# ----------------------------------------------------------------------------

_IGNORE = shutil.ignore_patterns("__pycache__", "*.so", "*.pyc", "*.c.orig", "*.o")


def _copy_tree(dst_root):
    src = os.path.join(repo(), "cassandra")
    if not os.path.isdir(src):
        raise _harness_error("no cassandra package under VERIF_REPO=%s" % repo())
    shutil.copytree(src, os.path.join(dst_root, "cassandra"), ignore=_IGNORE)


def _pyx_list(root):
    return sorted(os.path.basename(p) for p in glob.glob(os.path.join(root, "cassandra", "*.pyx"))
                  if os.path.basename(p) not in SKIP_PYX)


def _run_build(root, mode):
    """child process: cythonize + build_ext --inplace in `root` (cwd)."""
    env = dict(os.environ)
    env.pop("PYTHONPATH", None)          # the build must not import any cassandra tree
    env["PYTHONDONTWRITEBYTECODE"] = "1"
    # interpreter default flags (-O3 ...) as a wheel build would use; only debug info is dropped
    # (halves the compile time of deserializers.c, no effect on behaviour)
    # (setuptools: a CFLAGS environment variable *replaces* the configured flags, so repeat them)
    import sysconfig
    env["CFLAGS"] = ((sysconfig.get_config_var("CFLAGS") or "-O3") + " -g0 -w").strip()
    cmd = [sys.executable, "-W", "ignore", os.path.abspath(__file__), "--child", mode]
    t0 = time.time()
    r = subprocess.run(cmd, cwd=root, env=env, stdout=subprocess.PIPE, stderr=subprocess.STDOUT, text=True)
    if r.returncode != 0:
        tail = "\n".join(r.stdout.splitlines()[-40:])
        raise _harness_error("extension build (%s) failed in %s, rc=%d:\n%s" % (mode, root, r.returncode, tail))
    return time.time() - t0


def _child(mode):
    from setuptools import Extension, setup
    from Cython.Build import cythonize
    compile_args = ['-Wno-unused-function']
    exts = [Extension('cassandra.cmurmur3', sources=['cassandra/cmurmur3.c'])]
    # setup.py uses Extension("*", ["cassandra/*.pyx"]); spelled out per file here so that numpy_parser
    # can be left out and so that a module that fails to cythonize is an error instead of "optional"
    exts.extend(cythonize([Extension("cassandra." + p[:-4], ["cassandra/" + p], extra_compile_args=compile_args)
                           for p in _pyx_list(".")], nthreads=16, quiet=True))
    if mode == "full":
        exts.extend(cythonize([Extension('cassandra.%s' % m, ['cassandra/%s.py' % m], extra_compile_args=compile_args)
                               for m in PY_MODULES], nthreads=16, quiet=True))
    setup(name="verif-cy", script_args=['-q', 'build_ext', '--inplace', '-j', '16'], ext_modules=exts)
    # every requested extension must exist -- setup.py's "optional" tolerance would hide a broken build
    missing = []
    for e in exts:
        stem = e.name.replace(".", "/")
        if not glob.glob(stem + ".*.so") and not os.path.exists(stem + ".so"):
            missing.append(e.name)
    if missing:
        sys.stderr.write("extensions not produced: %s\n" % missing)
        sys.exit(3)


def _so_name(path):
    return os.path.basename(path).split(".")[0]


# ----------------------------------------------------------------------------
# content-addressed cache of build products (VERIF_CY_CACHE=0 switches it off)
#
# The products of a build are a pure function of the build inputs (every .pyx/.pxd/.pxi/.c/.h of the
# copied tree, plus the nine .py modules in "full" mode, the interpreter, Cython, gcc and the flags).
# They are kept under /var/tmp/verif-cy-cache/<sha256 of the inputs>/ so that a second run on an
# unchanged tree (the usual case for ./run <ID> quick, and for C39 after C07) copies nine small .so
# files instead of spending 25-60 s in gcc.  Any change to any input is a different key, so the cache
# cannot be stale; the directory is removed by remove_stale() once nothing was added for STALE_SECONDS.
# ----------------------------------------------------------------------------

CACHE_DIR = os.path.join(SCRATCH_PARENT, PREFIX + "cache")
CACHE_VERSION = "1"


def _cache_enabled():
    return os.environ.get("VERIF_CY_CACHE", "1") not in ("0", "no", "off", "")


def _tool_versions():
    import sysconfig
    try:
        import Cython
        cy = Cython.__version__
    except Exception:
        cy = "?"
    try:
        cc = subprocess.run([(sysconfig.get_config_var("CC") or "gcc").split()[0], "--version"],
                            stdout=subprocess.PIPE, stderr=subprocess.STDOUT, text=True).stdout.splitlines()[0]
    except Exception:
        cc = "?"
    return "|".join([sys.version, cy, cc, sysconfig.get_config_var("CFLAGS") or "", CACHE_VERSION])


def _cache_key(root, mode):
    import hashlib
    h = hashlib.sha256()
    h.update(("%s|%s|" % (mode, _tool_versions())).encode())
    pkg = os.path.join(root, "cassandra")
    names = [n for n in sorted(os.listdir(pkg)) if n.endswith((".pyx", ".pxd", ".pxi", ".c", ".h"))]
    if mode == "full":
        names += ["%s.py" % m for m in PY_MODULES]
    for n in names:
        with open(os.path.join(pkg, n), "rb") as f:
            data = f.read()
        h.update(("%s:%d:" % (n, len(data))).encode())
        h.update(data)
    return h.hexdigest()


def _expected_modules(root, mode):
    mods = ["cmurmur3"] + [p[:-4] for p in _pyx_list(root)]
    if mode == "full":
        mods += PY_MODULES
    return sorted(mods)


def _restore(key, root, mode):
    src = os.path.join(CACHE_DIR, key)
    if not os.path.isdir(src):
        return False
    sos = glob.glob(os.path.join(src, "*.so"))
    if sorted(_so_name(p) for p in sos) != _expected_modules(root, mode):
        return False
    for so in sos:
        shutil.copy2(so, os.path.join(root, "cassandra", os.path.basename(so)))
    return True


def _store(key, root):
    try:
        os.makedirs(CACHE_DIR, exist_ok=True)
        final = os.path.join(CACHE_DIR, key)
        if os.path.isdir(final):
            return
        tmp = "%s.tmp-%d" % (final, os.getpid())
        shutil.rmtree(tmp, ignore_errors=True)
        os.makedirs(tmp)
        for so in glob.glob(os.path.join(root, "cassandra", "*.so")):
            shutil.copy2(so, os.path.join(tmp, os.path.basename(so)))
        try:
            os.rename(tmp, final)
        except OSError:
            shutil.rmtree(tmp, ignore_errors=True)     # somebody else stored the same key first
    except OSError:
        pass                                           # the cache is an optimisation only


def _build_or_restore(root, mode):
    """-> seconds spent building (0.0 when the products came from the cache)"""
    key = _cache_key(root, mode) if _cache_enabled() else None
    if key and _restore(key, root, mode):
        _STATE["from_cache"] = _STATE.get("from_cache", []) + [mode]
        return 0.0
    t = _run_build(root, mode)
    if key:
        _store(key, root)
    return t


def _derive_pyx_root(full_root, pyx_root):
    """pyx-only tree = sources + the .so files of cmurmur3 and the .pyx modules taken from the full build."""
    _copy_tree(pyx_root)
    keep = {"cmurmur3"} | {p[:-4] for p in _pyx_list(full_root)}
    for so in glob.glob(os.path.join(full_root, "cassandra", "*.so")):
        if _so_name(so) in keep:
            shutil.copy2(so, os.path.join(pyx_root, "cassandra", os.path.basename(so)))


def ensure(mode="pyx"):
    """Build (once per run) and return {"pyx": root[, "full": root]}."""
    if mode not in ("pyx", "full"):
        raise ValueError(mode)
    root = scratch_root()
    marker = os.path.join(root, ".built-" + mode)
    out = {"pyx": os.path.join(root, "pyx")}
    if mode == "full":
        out["full"] = os.path.join(root, "full")
    if os.path.exists(marker):
        return out
    with open(os.path.join(root, ".lock"), "w") as lockf:
        fcntl.flock(lockf, fcntl.LOCK_EX)
        try:
            if os.path.exists(marker):
                return out
            try:
                if mode == "pyx":
                    if not os.path.exists(os.path.join(root, ".built-full")):
                        shutil.rmtree(out["pyx"], ignore_errors=True)
                        os.makedirs(out["pyx"])
                        _copy_tree(out["pyx"])
                        _STATE["times"]["pyx"] = _build_or_restore(out["pyx"], "pyx")
                else:
                    shutil.rmtree(out["full"], ignore_errors=True)
                    os.makedirs(out["full"])
                    _copy_tree(out["full"])
                    _STATE["times"]["full"] = _build_or_restore(out["full"], "full")
                    shutil.rmtree(out["pyx"], ignore_errors=True)
                    os.makedirs(out["pyx"])
                    _derive_pyx_root(out["full"], out["pyx"])
                    # the intermediate build/ directory and generated .c files are the bulk of the 220 MB
                    shutil.rmtree(os.path.join(out["full"], "build"), ignore_errors=True)
                    with open(os.path.join(root, ".built-pyx"), "w") as f:
                        f.write("derived from full\n")
            except BaseException:
                # a half-built tree must never be used, and must not stay behind
                if _STATE["owner"] == os.getpid():
                    shutil.rmtree(root, ignore_errors=True)
                    _STATE["root"] = None
                    os.environ.pop("VERIF_CY_ROOT", None)
                raise
            with open(marker, "w") as f:
                f.write("%s\n" % time.time())
        finally:
            fcntl.flock(lockf, fcntl.LOCK_UN)
    return out


def build_times():
    return dict(_STATE["times"])


def compiled_modules(root):
    return sorted(_so_name(p) for p in glob.glob(os.path.join(root, "cassandra", "*.so")))


if __name__ == "__main__":
    if len(sys.argv) >= 3 and sys.argv[1] == "--child":
        _child(sys.argv[2])
        sys.exit(0)
    # manual use:  python build/cybuild.py pyx|full   (builds, lists, removes)
    sys.path.insert(0, os.path.dirname(os.path.dirname(os.path.abspath(__file__))))
    m = sys.argv[1] if len(sys.argv) > 1 else "pyx"
    t0 = time.time()
    roots = ensure(m)
    print("built %s in %.1fs: %s" % (m, time.time() - t0, roots))
    for k, r in roots.items():
        print(k, compiled_modules(r))
    subprocess.call(["du", "-sh", scratch_root()])
