"""C27 -- CQL identifiers and literals produced by the driver read back unchanged."""
import json

from hypothesis import strategies as st

from spec import cqllex
from spec.cqllex import LexError, lex
from vlib.harness import EnumPart, hyp_part

PID = "C27"
TITLE = "CQL identifiers and literals produced by the driver read back unchanged"
LEVEL = "exploration"
ENGINE = "cql"
TECHNIQUE = ("property-based testing (Hypothesis) plus exhaustive keyword enumeration against an independent "
             "implementation of Cassandra's Lexer.g token rules and ReservedKeywords list")
RULE = ("Names and strings are built by construction from classes: lower-case words, every Lexer.g keyword and every "
        "word the driver lists (reserved and not) in lower/UPPER/Capitalised/random case, the constant words "
        "true/false/nan/infinity/null, leading digit or underscore, mixed case, embedded \" ' $$ ; -- /* */ backslash, "
        "whitespace incl. trailing newline, empty, NUL, non-ASCII (incl. characters whose lower() is ASCII) and non-BMP "
        "text.  Every output of protect_name / maybe_escape_name / escape_name / protect_names / protect_value / "
        "cql_quote / Encoder.cql_encode_str is lexed with spec.cqllex and must be exactly one identifier (string) token "
        "reading back the input; an unquoted output additionally requires [a-z][a-z0-9_]* and not reserved.  The export "
        "part builds Keyspace/Table/UserType/Index/Trigger metadata objects and Session/Connection keyspace switches "
        "from generated names and compares the token stream of the generated CQL with the token stream of an "
        "always-quoted reference rendering (identifier tokens compared by the name they read back).  Non-trivial: the "
        "name/string contains a quote character, equals a keyword or constant word case-insensitively, is not "
        "[a-z][a-z0-9_]*-shaped but ASCII (case, digit, underscore, whitespace), or is non-ASCII; for the export part at "
        "least one such name in the statement.")
ASSUMPTIONS = [
    "spec/cqllex.py is a faithful rendering of Cassandra's Lexer.g (3.11-5.0) and ReservedKeywords; 'reads back' is decided by it",
    "Session.execute / Connection.wait_for_response / send_msg are stubbed to capture the USE statement text; nothing is sent",
    "protect_value is exercised with the value kinds schema options carry (str, None, bool, int, finite float)",
]

# ---------------------------------------------------------------------------------------------
# generators
# ---------------------------------------------------------------------------------------------
_DRIVER_WORDS = None


def _driver_words():
    # the words the driver itself knows about (only used to *generate* interesting inputs)
    global _DRIVER_WORDS
    if _DRIVER_WORDS is None:
        from cassandra import metadata
        _DRIVER_WORDS = sorted(set(metadata.cql_keywords) | set(metadata.cql_keywords_unreserved))
    return _DRIVER_WORDS


_CONST_WORDS = ["true", "false", "nan", "infinity", "null", "inf", "-infinity", "token", "p1y", "P1Y", "pt1h", "PT1H",
                "1h", "0x", "0xab", "e1", "1e1", "x", "a", "z9", "a_"]
_SPECIAL = ['"', "'", '""', "''", "$$", "$", ";", "--", "/*", "*/", "//", "\\", " ", "\t", "\n", "\r", "\x00", ".",
            "%s", "%(a)s", "?", ":", "(", ")", "{", "}", "é", "ß", "İ", "K", "ſ",
            "\U0001f600", "中", "​", "́"]


def _all_words():
    return sorted(set(w.lower() for w in cqllex.KEYWORDS) | set(_driver_words()))


def _case_mix(word, mask):
    out = []
    for i, ch in enumerate(word):
        out.append(ch.upper() if (mask >> (i % 30)) & 1 else ch.lower())
    return "".join(out)


def s_lower_word():
    return st.builds(lambda a, b: a + b, st.sampled_from("abcdefghijklmnopqrstuvwxyz"),
                     st.text(alphabet="abcdefghijklmnopqrstuvwxyz0123456789_", max_size=12))


def s_name():
    word = st.one_of(st.sampled_from(_all_words()), st.sampled_from(_CONST_WORDS))
    mixed_kw = st.builds(_case_mix, word, st.integers(0, 2 ** 30 - 1))
    lower_kw = word
    lead = st.builds(lambda p, w: p + w, st.sampled_from(["_", "0", "9", "__", "1a"]), s_lower_word())
    upper = st.builds(lambda w, m: _case_mix(w, m | 1), s_lower_word(), st.integers(0, 2 ** 30 - 1))
    pieces = st.lists(st.one_of(st.sampled_from(_SPECIAL), s_lower_word(), word, st.text(max_size=4)),
                      min_size=1, max_size=5)
    special = st.builds("".join, pieces)
    trailing = st.builds(lambda w, t: w + t, st.one_of(s_lower_word(), word), st.sampled_from(["\n", " ", "\r\n", "\t", "\n\n", "\x00"]))
    leading = st.builds(lambda t, w: t + w, st.sampled_from(["\n", " ", "\t"]), st.one_of(s_lower_word(), word))
    return st.one_of(s_lower_word(), lower_kw, mixed_kw, lead, upper, special, trailing, leading,
                     st.just(""), st.text(max_size=10),
                     st.text(alphabet=st.characters(min_codepoint=0x80, max_codepoint=0x10ffff,
                                                    blacklist_categories=("Cs",)), min_size=1, max_size=6))


def s_string():
    pieces = st.lists(st.one_of(st.sampled_from(_SPECIAL), s_lower_word(), st.text(max_size=6)), min_size=0, max_size=6)
    return st.one_of(st.builds("".join, pieces), st.text(max_size=12), s_name())


# ---------------------------------------------------------------------------------------------
# oracle helpers
# ---------------------------------------------------------------------------------------------
_WORD_RE = __import__("re").compile(r"[a-z][a-z0-9_]*\Z")


def _name_features(n):
    """deterministic structural class of a name, used in finding keys and labels"""
    low = n.lower()
    if low in ("true", "false"):
        return "boolean-word"
    if n.upper() in cqllex.RESERVED:
        return "reserved-word"
    if n[-1:] == "\n" and _WORD_RE.match(n[:-1]):
        return "trailing-newline"
    if n == "":
        return "empty"
    if '"' in n:
        return "dquote"
    if _WORD_RE.match(n):
        return "unreserved-keyword" if n.upper() in cqllex.KEYWORDS else "plain-word"
    if n.isascii():
        return "ascii-other"
    return "non-ascii"


def _name_nontrivial(n):
    f = _name_features(n)
    return f != "plain-word"


def _check_ident(ctx, sub, name, out):
    """`out` must lex as exactly one identifier token reading back `name`.

    Root cause attribution: when the driver handed the name back *bare* (out == name) although the bare
    word does not read back, the failure is keyed ["C27.unquoted", class] whichever entry point showed
    it (protect_name, protect_names, is_valid_name, schema export, USE): they all share one decision."""
    feat = _name_features(name)
    if not isinstance(out, str):
        ctx.fail([sub + ".type", feat], "output is %r" % (out,))
        return
    if out == name and cqllex.needs_quotes(name):
        ctx.fail(["C27.unquoted", feat], "%s: %r is left unquoted but the bare word does not read back as that identifier "
                                         "(lexes as %s)" % (sub, name, _lex_summary(out)))
        return
    try:
        toks = lex(out)
    except LexError as e:
        ctx.fail([sub + ".lex", feat], "%r -> %r does not lex: %s" % (name, out, e))
        return
    if len(toks) != 1 or toks[0].start != 0 or toks[0].end != len(out):
        ctx.fail([sub + ".one-token", feat], "%r -> %r lexes as %s" % (name, out, _lex_summary(out)))
        return
    t = toks[0]
    if not cqllex.is_ident(t):
        ctx.fail([sub + ".readback", feat], "%r -> %r lexes as %s, not as an identifier" % (name, out, t.kind))
        return
    got = cqllex.ident_value(t)
    if got != name:
        ctx.fail([sub + ".readback", feat], "%r -> %r reads back as %r" % (name, out, got))
        return
    if not cqllex.is_quoted(t):
        # left unquoted: only allowed for [a-z][a-z0-9_]* words that Cassandra does not reserve
        ctx.check(_WORD_RE.match(name) is not None and name.upper() not in cqllex.RESERVED,
                  [sub + ".unquoted", feat], "%r left unquoted" % (name,))


def _lex_summary(text):
    try:
        return repr([(t.kind, t.text) for t in lex(text)][:6])
    except LexError as e:
        return "LexError(%s)" % e


def _check_string(ctx, sub, s, out):
    feat = "squote" if "'" in s else ("dollar" if "$" in s else "plain")
    if not isinstance(out, str):
        ctx.fail([sub + ".type", feat], "output is %r" % (out,))
        return
    try:
        toks = lex(out)
    except LexError as e:
        ctx.fail([sub + ".lex", feat], "%r -> %r does not lex: %s" % (s, out, e))
        return
    if len(toks) != 1 or toks[0].kind != "STRING_LITERAL" or toks[0].start != 0 or toks[0].end != len(out):
        ctx.fail([sub + ".one-token", feat], "%r -> %r lexes as %r" % (s, out, [(t.kind, t.text) for t in toks][:6]))
        return
    ctx.check(toks[0].value == s, [sub + ".readback", feat], "%r -> %r reads back as %r" % (s, out, toks[0].value))


# ---------------------------------------------------------------------------------------------
# part: names
# ---------------------------------------------------------------------------------------------
def interpret_name(case, ctx):
    from cassandra import metadata as M
    name = case["name"]
    others = case.get("others", [])
    with ctx.driver(["C27.protect_name", _name_features(name)]):
        out = M.protect_name(name)
        _check_ident(ctx, "C27.protect_name", name, out)
    with ctx.driver(["C27.maybe_escape_name", _name_features(name)]):
        out2 = M.maybe_escape_name(name)
        ctx.check(out2 == out, ["C27.maybe_escape_name.differs"], "%r vs protect_name %r" % (out2, out))
    with ctx.driver(["C27.escape_name", _name_features(name)]):
        _check_ident(ctx, "C27.escape_name", name, M.escape_name(name))
    with ctx.driver(["C27.is_valid_name", _name_features(name)]):
        valid = M.is_valid_name(name)
        if valid:
            # "valid" means the bare word may be used: it must read back as itself
            ctx.check(not cqllex.needs_quotes(name), ["C27.unquoted", _name_features(name)],
                      "is_valid_name(%r) is True but the bare word does not read back as that identifier (lexes as %s)" % (
                          name, _lex_summary(name)))
        ctx.label("valid" if valid else "needs-quotes")
    if others:
        names = [name] + list(others)
        with ctx.driver(["C27.protect_names"]):
            outs = M.protect_names(names)
            if ctx.check(isinstance(outs, list) and len(outs) == len(names), ["C27.protect_names.shape"], repr(outs)[:200]):
                for n, o in zip(names, outs):
                    _check_ident(ctx, "C27.protect_names", n, o)
    ctx.check(M.is_valid_name(None) is False, ["C27.is_valid_name.none"], "is_valid_name(None) is not False")
    ctx.label("name:" + _name_features(name))
    ctx.nontrivial(_name_nontrivial(name))


def s_name_case():
    return st.fixed_dictionaries({"name": s_name()},
                                 optional={"others": st.lists(s_name(), min_size=1, max_size=3)})


def _kw_chunks():
    words = sorted(set(_all_words()) | set(_CONST_WORDS))
    n = 8
    return [words[i::n] for i in range(n)]


def _kw_cases(chunk):
    for w in chunk:
        seen = set()
        for v in (w.lower(), w.upper(), w.capitalize(), w[:1].lower() + w[1:].upper()):
            if v not in seen:
                seen.add(v)
                yield {"name": v}


# ---------------------------------------------------------------------------------------------
# part: values
# ---------------------------------------------------------------------------------------------
class _StrSub(str):
    pass


def interpret_value(case, ctx):
    from cassandra import metadata as M
    from cassandra import encoder as E
    kind = case["kind"]
    if kind == "str":
        s = case["v"]
        with ctx.driver(["C27.protect_value.str"]):
            _check_string(ctx, "C27.protect_value", s, M.protect_value(s))
        with ctx.driver(["C27.cql_quote.str"]):
            _check_string(ctx, "C27.cql_quote", s, E.cql_quote(s))
        with ctx.driver(["C27.cql_quote.strsub"]):
            _check_string(ctx, "C27.cql_quote.subclass", s, E.cql_quote(_StrSub(s)))
        with ctx.driver(["C27.cql_encode_str"]):
            _check_string(ctx, "C27.cql_encode_str", s, E.Encoder().cql_encode_str(s))
        ctx.label("str:squote" if "'" in s else ("str:dollar" if "$" in s else ("str:empty" if not s else "str:other")))
        ctx.nontrivial("'" in s or "$" in s or '"' in s or not s.isascii() or ";" in s or "--" in s or s == "")
        return
    v = {"none": None, "bool": case.get("v"), "int": case.get("v"), "float": case.get("v")}[kind]
    with ctx.driver(["C27.protect_value", kind]):
        out = M.protect_value(v)
    if ctx._failures:
        return
    try:
        toks = lex(out)
    except LexError as e:
        ctx.fail(["C27.protect_value.lex", kind], "%r -> %r: %s" % (v, out, e))
        return
    if not ctx.check(len(toks) == 1 and toks[0].end == len(out), ["C27.protect_value.one-token", kind], "%r -> %r" % (v, out)):
        return
    t = toks[0]
    if kind == "none":
        ctx.check(t.kind == "KEYWORD" and t.value == "NULL", ["C27.protect_value.readback", kind], out)
    elif kind == "bool":
        ctx.check(t.kind == "BOOLEAN" and t.value is v, ["C27.protect_value.readback", kind], out)
    elif kind == "int":
        ctx.check(t.kind == "INTEGER" and t.value == v, ["C27.protect_value.readback", kind], out)
    else:
        ok = t.kind in ("FLOAT", "INTEGER") and float(t.text) == v
        ctx.check(ok, ["C27.protect_value.readback", kind], "%r -> %r (%s)" % (v, out, t.kind))
    ctx.label("value:" + kind)
    ctx.nontrivial(kind in ("float", "bool", "none") or abs(v) > 2 ** 31)


def s_value_case():
    return st.one_of(
        st.builds(lambda s: {"kind": "str", "v": s}, s_string()),
        st.builds(lambda s: {"kind": "str", "v": s}, s_string()),
        st.builds(lambda s: {"kind": "str", "v": s}, s_string()),
        st.just({"kind": "none"}),
        st.builds(lambda b: {"kind": "bool", "v": b}, st.booleans()),
        st.builds(lambda i: {"kind": "int", "v": i}, st.one_of(st.integers(-2 ** 70, 2 ** 70), st.integers(-5, 5))),
        st.builds(lambda f: {"kind": "float", "v": f}, st.floats(allow_nan=False, allow_infinity=False)),
    )


# ---------------------------------------------------------------------------------------------
# part: export (schema export + keyspace switching), token-stream comparison with a reference rendering
# ---------------------------------------------------------------------------------------------
_TYPES = ["int", "text", "uuid", "timestamp", "list<int>", "map<text, int>", "frozen<set<text>>", "boolean", "blob"]
_Q = cqllex.quote_ident
_S = cqllex.quote_string


def _norm(tokens):
    """token stream -> comparable list: identifier-capable tokens by the name they read back"""
    out = []
    for t in tokens:
        if cqllex.is_ident(t):
            out.append(("ID", cqllex.ident_value(t)))
        elif t.kind == "STRING_LITERAL":
            out.append(("STR", t.value))
        elif t.kind == "KEYWORD":
            out.append(("KW", t.value))
        elif t.kind in ("INTEGER", "BOOLEAN"):
            out.append((t.kind, t.value))
        else:
            out.append((t.kind, t.text))
    return out


def _compare(ctx, sub, got_text, ref_text, names, merge=False):
    """names: the generated names taking part (statement order), for the finding-key feature.
    merge=True (single-name statements): lex failures and identifier mismatches share one key."""
    try:
        ref = _norm(lex(ref_text))
    except LexError as e:  # the reference rendering is ours: must always lex
        raise AssertionError("reference rendering does not lex: %r (%s)" % (ref_text, e))
    try:
        raw = lex(got_text)
    except LexError as e:
        sus = [_name_features(n) for n in names if _name_features(n) not in ("plain-word", "unreserved-keyword")]
        feat = "dquote" if "dquote" in sus else (sus[0] if sus else "plain")
        ctx.fail([sub + (".ident" if merge else ".lex"), feat], "generated CQL does not lex (%s): %r" % (e, got_text[:400]))
        return
    got = _norm(raw)
    if got == ref:
        return
    i = 0
    while i < min(len(got), len(ref)) and got[i] == ref[i]:
        i += 1
    want = ref[i] if i < len(ref) else ("EOF", None)
    have = got[i] if i < len(got) else ("EOF", None)
    if want[0] == "ID":
        name = want[1]
        bare = i < len(raw) and not cqllex.is_quoted(raw[i]) and got_text.startswith(name, raw[i].start)
        if bare and cqllex.needs_quotes(name):
            ctx.fail(["C27.unquoted", _name_features(name)],
                     "%s: identifier %r is left unquoted and appears as token %r in %r" % (sub, name, have, got_text[:400]))
        else:
            ctx.fail([sub + ".ident", _name_features(name)],
                     "identifier %r appears as token %r in %r" % (name, have, got_text[:400]))
    elif want[0] == "STR":
        ctx.fail([sub + ".string", "squote" if "'" in want[1] else "plain"],
                 "string %r appears as token %r in %r" % (want[1], have, got_text[:400]))
    else:
        ctx.fail([sub + ".layout"], "token %d: expected %r, got %r in %r (reference %r)" % (i, want, have, got_text[:400], ref_text[:400]))


def _ref_value(v):
    if v is None:
        return "NULL"
    if isinstance(v, bool):
        return "true" if v else "false"
    if isinstance(v, (int, float)):
        return repr(v)
    return _S(v)


def _ref_options(clustering, options, compact=False):
    props = []
    if compact:
        props.append("COMPACT STORAGE")
    if clustering:
        props.append("CLUSTERING ORDER BY (%s)" % ", ".join("%s %s" % (_Q(n), "DESC" if r else "ASC") for n, r in clustering))
    opts = []
    for name, value in options:
        if isinstance(value, dict):
            opts.append((name + " =", "%s = {%s}" % (name, ", ".join("%s: %s" % (_S(k), _S(v)) for k, v in value["map"]))))
        elif value is not None:
            opts.append((name + " =", "%s = %s" % (name, _ref_value(value))))
    props.extend(o[1] for o in sorted(opts))
    return " AND ".join(props)


_OPTION_SCALARS = ["comment", "gc_grace_seconds", "bloom_filter_fp_chance", "default_time_to_live", "speculative_retry",
                   "cdc", "read_repair", "memtable_flush_period_in_ms"]
_OPTION_MAPS = ["compaction", "compression", "caching"]


def s_export_case():
    name = s_name()
    col = st.fixed_dictionaries({"name": name, "type": st.sampled_from(_TYPES), "static": st.booleans(), "desc": st.booleans()})
    scalar_val = st.one_of(s_string(), st.integers(0, 10 ** 7), st.booleans(), st.none(),
                           st.sampled_from([0.01, 0.1, 1.0, 0.5]))
    # map option keys/values: what the server sends for compaction/compression/caching sub-options
    mapval = st.lists(st.tuples(st.sampled_from(["class", "enabled", "chunk_length_in_kb", "keys", "rows_per_partition",
                                                  "min_threshold", "tombstone_threshold"]),
                                st.sampled_from(["org.apache.cassandra.db.compaction.SizeTieredCompactionStrategy", "ALL", "NONE",
                                                 "4", "16", "true", "0.2", "LZ4Compressor"])),
                      min_size=0, max_size=3, unique_by=lambda kv: kv[0])
    options = st.lists(st.one_of(
        st.tuples(st.just("comment"), s_string()),
        st.tuples(st.sampled_from(_OPTION_SCALARS[1:]), scalar_val),
        st.tuples(st.sampled_from(_OPTION_MAPS), st.builds(lambda m: {"map": [list(kv) for kv in m]}, mapval))),
        max_size=4, unique_by=lambda o: o[0])
    return st.fixed_dictionaries({
        "keyspace": name,
        "table": name,
        "columns": st.lists(col, min_size=1, max_size=5, unique_by=lambda c: c["name"]),
        "n_pk": st.integers(1, 2),
        "n_ck": st.integers(0, 2),
        "options": options.map(lambda l: [list(o) for o in l]),
        "compact": st.booleans(),
        "formatted": st.booleans(),
        "index": name,
        "trigger": name,
        "trigger_class": s_string(),
        "udt": name,
        "durable": st.booleans(),
        "rf": st.integers(1, 5),
    })


class _Stop(Exception):
    pass


def interpret_export(case, ctx):
    from collections import OrderedDict
    from cassandra import metadata as M
    ks, tb = case["keyspace"], case["table"]
    cols = case["columns"]
    n_pk = min(case["n_pk"], len(cols))
    n_ck = min(case["n_ck"], len(cols) - n_pk)
    names = [ks, tb] + [c["name"] for c in cols]
    fmt = case["formatted"]

    # ---- keyspace
    with ctx.driver(["C27.export.keyspace"]):
        km = M.KeyspaceMetadata(ks, case["durable"], "SimpleStrategy", {"replication_factor": str(case["rf"])})
        got = km.as_cql_query()
        ref = "CREATE KEYSPACE %s WITH replication = {'class': 'SimpleStrategy', 'replication_factor': '%d'} AND durable_writes = %s" % (
            _Q(ks), case["rf"], "true" if case["durable"] else "false")
        _compare(ctx, "C27.export.keyspace", got, ref, [ks])

    # ---- table
    with ctx.driver(["C27.export.table"]):
        options = OrderedDict()
        for name, value in case["options"]:
            options[name] = OrderedDict(value["map"]) if isinstance(value, dict) else value
        tm = M.TableMetadataV3(ks, tb, options=options)
        cmetas = []
        for i, c in enumerate(cols):
            is_key = i < n_pk + n_ck
            cm = M.ColumnMetadata(tm, c["name"], c["type"], is_static=(c["static"] and not is_key),
                                  is_reversed=(c["desc"] and n_pk <= i < n_pk + n_ck))
            cmetas.append(cm)
            tm.columns[c["name"]] = cm
        tm.partition_key = cmetas[:n_pk]
        tm.clustering_key = cmetas[n_pk:n_pk + n_ck]
        tm.is_compact_storage = case["compact"]
        got = tm.as_cql_query(formatted=fmt)
        rcols = []
        for i, c in enumerate(cols):
            is_key = i < n_pk + n_ck
            rcols.append("%s %s%s" % (_Q(c["name"]), c["type"], " static" if (c["static"] and not is_key) else ""))
        if n_pk == 1 and n_ck == 0:
            rcols[0] += " PRIMARY KEY"
        ref = "CREATE TABLE %s.%s (%s" % (_Q(ks), _Q(tb), ", ".join(rcols))
        if n_pk > 1 or n_ck:
            pk = "(%s)" % ", ".join(_Q(c["name"]) for c in cols[:n_pk]) if n_pk > 1 else _Q(cols[0]["name"])
            if n_ck:
                pk += ", " + ", ".join(_Q(c["name"]) for c in cols[n_pk:n_pk + n_ck])
            ref += ", PRIMARY KEY (%s)" % pk
        clustering = [(c["name"], c["desc"]) for c in cols[n_pk:n_pk + n_ck]]
        ref += ") WITH " + _ref_options(clustering, case["options"], case["compact"])
        _compare(ctx, "C27.export.table", got, ref, names)

    # ---- index, trigger, user type
    with ctx.driver(["C27.export.index"]):
        target = _Q(cols[-1]["name"])     # the server sends the target already in CQL form
        im = M.IndexMetadata(ks, tb, case["index"], "COMPOSITES", {"target": target})
        ref = "CREATE INDEX %s ON %s.%s (%s)" % (_Q(case["index"]), _Q(ks), _Q(tb), target)
        _compare(ctx, "C27.export.index", im.as_cql_query(), ref, [case["index"], ks, tb])
    with ctx.driver(["C27.export.trigger"]):
        tg = M.TriggerMetadata(tm, case["trigger"], {"class": case["trigger_class"]})
        ref = "CREATE TRIGGER %s ON %s.%s USING %s" % (_Q(case["trigger"]), _Q(ks), _Q(tb), _S(case["trigger_class"]))
        _compare(ctx, "C27.export.trigger", tg.as_cql_query(), ref, [case["trigger"], ks, tb])
    with ctx.driver(["C27.export.usertype"]):
        ut = M.UserType(ks, case["udt"], [c["name"] for c in cols], [c["type"] for c in cols])
        ref = "CREATE TYPE %s.%s (%s)" % (_Q(ks), _Q(case["udt"]), ", ".join("%s %s" % (_Q(c["name"]), c["type"]) for c in cols))
        _compare(ctx, "C27.export.usertype", ut.as_cql_query(formatted=fmt), ref, [case["udt"], ks] + names[2:])

    # ---- keyspace switching
    _check_use(ctx, ks)

    all_names = names + [case["index"], case["trigger"], case["udt"]]
    feats = set(_name_features(n) for n in all_names)
    for f in sorted(feats):
        ctx.label("export:" + f)
    ctx.label("export:pk%d+ck%d" % (n_pk, n_ck))
    ctx.nontrivial(any(_name_nontrivial(n) for n in all_names))


def _check_use(ctx, ks):
    """USE statements generated for keyspace switching (Session.set_keyspace, Connection.set_keyspace_*)"""
    from cassandra.cluster import Session
    from cassandra.connection import Connection
    from cassandra.protocol import ResultMessage
    import threading
    if not ks:
        return   # "not keyspace" short-circuits in the driver: no statement is generated
    ref = "USE " + _Q(ks)
    sent = []
    sess = Session.__new__(Session)
    sess.execute = lambda q, *a, **k: sent.append(q)
    with ctx.driver(["C27.use.session"]):
        sess.set_keyspace(ks)
        if ctx.check(len(sent) == 1, ["C27.use.session.count"], repr(sent)):
            _compare(ctx, "C27.use.session", sent[0], ref, [ks], merge=True)

    class Conn(Connection):
        def __init__(self):
            self.keyspace = None
            self.lock = threading.Lock()
            self.in_flight = 0
            self.max_request_id = 100
            self.sent = []

        def wait_for_response(self, msg, *a, **k):
            self.sent.append(msg.query)
            r = ResultMessage.__new__(ResultMessage)
            return r

        def get_request_id(self):
            return 1

        def send_msg(self, msg, request_id, cb, *a, **k):
            self.sent.append(msg.query)

    with ctx.driver(["C27.use.connection.blocking"]):
        c = Conn()
        c.set_keyspace_blocking(ks)
        if ctx.check(len(c.sent) == 1, ["C27.use.connection.count"], repr(c.sent)):
            _compare(ctx, "C27.use.connection", c.sent[0], ref, [ks], merge=True)
    with ctx.driver(["C27.use.connection.async"]):
        c = Conn()
        c.set_keyspace_async(ks, lambda conn, err: None)
        if ctx.check(len(c.sent) == 1, ["C27.use.connection.count"], repr(c.sent)):
            _compare(ctx, "C27.use.connection", c.sent[0], ref, [ks], merge=True)


def parts(tier):
    return [
        hyp_part("names", s_name_case, interpret_name, tier, quick=2500, thorough=12000, quick_shards=4),
        EnumPart("keywords", _kw_chunks(), _kw_cases, interpret_name),
        hyp_part("values", s_value_case, interpret_value, tier, quick=2500, thorough=10000, quick_shards=2),
        hyp_part("export", s_export_case, interpret_export, tier, quick=700, thorough=4000, quick_shards=4),
    ]
