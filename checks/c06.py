"""C06 -- protocol v5 segments are reassembled exactly and corruption is detected."""
import struct

from hypothesis import strategies as st

from checks import _conn as K
from spec import segment as S
from vlib.harness import EnumPart, hyp_part

PID = "C06"
TITLE = "Protocol v5 segments are reassembled exactly and corruption is detected"
LEVEL = "exploration"
ENGINE = "proto"
TECHNIQUE = ("property-based testing (Hypothesis) of the real Connection v5 read/write path against an independent "
             "segment codec written from the protocol text (spec/segment.py); exhaustive single-bit-flip enumeration "
             "for small fixed streams")
RULE = ("feed: 1-6 whole v5 frames (body 0..300 bytes, medium bodies that make two frames fill a segment exactly / by one "
        "byte too much, bodies putting the frame at 1x/2x/3x 131071 +-2 bytes and up to 4 x 128 KiB; random, repeating, zero "
        "or header-look-alike content; one message in five is a server-pushed EVENT on stream -1 decoded by the real decoder and "
        "observed at push watchers) are packed/split into segments by spec.segment (packing tape; with compression "
        "negotiated a tape of the sender's compressed/uncompressed choice per segment, incompressible payloads always left "
        "uncompressed) and fed to a socket-less Connection that went through the real OPTIONS/SUPPORTED/STARTUP/READY exchange "
        "(or _handle_startup_response directly), cut by construction at segment start / inside the segment header / header end "
        "/ inside the payload / payload end / inside the CRC32 / absolute offsets / every n bytes; optionally one bit is flipped "
        "in a chosen region (header, header CRC, payload, payload CRC) of a chosen segment.  flips: every single bit of three "
        "fixed small streams (plain two segments; packed + single; compression with one compressed and one uncompressed "
        "segment), quick: fed whole and cut at every segment boundary; thorough: also cut inside every payload and longer "
        "bodies.  encode: frames of sizes 0..400000 (weighted to 131071 +-2 and multiples) through SegmentCodec.encode, "
        "Connection.send_msg with a byte-supplying encoder, and a real QueryMessage, decoded by spec.segment.  Non-trivial "
        "(feed): a message spanning >= 2 segments, or >= 2 messages, or compression with an uncompressed segment, or a flip; "
        "and a cut strictly inside a segment.  Non-trivial (flips): every case.  Non-trivial (encode): a message within 2 "
        "bytes of a multiple of 131071, or compression.")
ASSUMPTIONS = [
    "no lz4 module exists in this sandbox: the compressed path runs with a stand-in codec that honours the driver's lz4 wrapper contract (4-byte big-endian uncompressed length + opaque block, zlib inside) installed into cassandra.connection.locally_supported_compressions['lz4'] and segment_codec_lz4 for the duration of a case; SegmentCodec treats the block as opaque, LZ4 itself is not covered",
    "the socket is replaced by _iobuf.write(chunk); process_io_buffer() as in every reactor's handle_read; reading stops once the connection closed itself",
    "messages are observed where Connection.process_msg is entered (subclass wrapper) and at recording decoders/callbacks registered in Connection._requests",
    "a sender puts only whole frames into self-contained segments and splits only frames larger than 131071 bytes (what the protocol text prescribes and Cassandra does)",
    "with a flipped bit, once the connection is defunct nothing more may enter process_msg or reach a handler / push watcher, including frames of later intact segments of the same read; handlers being failed with ConnectionShutdown is expected",
    "promptness is not part of the statement: a complete message that stays in the frame buffer until a later read is only counted (class obs:complete-message-deferred-to-a-later-read)",
]
LEVEL_TEXT = "generated search; exhaustive over all single-bit flips of the three stated small streams only"

MAXP = S.MAX_PAYLOAD
_WHERE = ["start", "hdr", "hdr_end", "pay", "pay", "pay_end", "crc1", "crc", "end"]
_FLIP_REGIONS = ["hdr", "hcrc", "pay", "pcrc"]


# ---------------------------------------------------------------------------------------
# strategies
# ---------------------------------------------------------------------------------------

def _small_len():
    return st.one_of(st.sampled_from([0, 1, 2, 9, 100]), st.integers(0, 300))


def _medium_len():
    # two frames of 9+65526 and 9+65527 bytes fill one segment exactly; 65527+65528 overflow it by one
    return st.one_of(st.sampled_from([65526, 65527, 65528, 43681, 43682]), st.integers(300, 70000))


def _big_len():
    around = [k * MAXP - 9 + d for k in (1, 2, 3) for d in (-2, -1, 0, 1, 2)]
    return st.one_of(st.sampled_from(around), st.sampled_from(around), st.integers(131000, 4 * 131072 - 9))


def _event_desc():
    addr = st.one_of(st.binary(min_size=4, max_size=4), st.binary(min_size=16, max_size=16)).map(lambda b: b.hex())
    return st.one_of(
        st.fixed_dictionaries({"type": st.just("STATUS_CHANGE"), "change": st.sampled_from(["UP", "DOWN"]),
                               "addr": addr, "port": st.sampled_from([0, 9042])}),
        st.fixed_dictionaries({"type": st.just("TOPOLOGY_CHANGE"), "change": st.sampled_from(["NEW_NODE", "REMOVED_NODE"]),
                               "addr": addr, "port": st.sampled_from([0, 9042])}),
        st.fixed_dictionaries({"type": st.just("SCHEMA_CHANGE"), "change": st.sampled_from(["CREATED", "DROPPED"]),
                               "keyspace": st.sampled_from(["ks", "k2"]), "table": st.sampled_from(["", "t"])}))


def _msg(stream, lens):
    data = st.fixed_dictionaries({
        "stream": st.just(stream), "op": st.sampled_from(K.RESPONSE_OPCODES), "flags": st.sampled_from([0, 0, 2, 4, 8]),
        "len": lens, "kind": st.sampled_from(["rand", "rep", "zero", "hdr"]), "seed": st.integers(0, 999)})
    event = st.fixed_dictionaries({"event": _event_desc()})     # server push: stream -1, real decoder, watcher
    return st.one_of(data, data, data, data, event)


def _cut_items():
    k = st.integers(0, 15)
    return st.lists(st.one_of(
        st.tuples(st.just("s"), k, st.sampled_from(_WHERE), st.integers(0, 200000)),
        st.tuples(st.just("s"), k, st.sampled_from(_WHERE), st.integers(0, 200000)),
        st.tuples(st.just("a"), st.integers(0, 1 << 20)),
    ).map(list), min_size=0, max_size=8)


@st.composite
def s_feed(draw):
    compression = draw(st.booleans())
    size = draw(st.sampled_from(["small", "small", "medium", "big"]))
    n = draw(st.integers(1, 6 if size == "small" else 3))
    streams = draw(st.lists(st.one_of(st.integers(0, 40), st.integers(0, 32767)), unique=True, min_size=n, max_size=n))
    msgs = []
    for i in range(n):
        if size == "small" or (i > 0 and draw(st.booleans())):
            lens = _small_len()
        elif size == "medium":
            lens = _medium_len()
        else:
            lens = _big_len()
        msgs.append(draw(_msg(streams[i], lens)))
    flip = draw(st.one_of(st.none(), st.none(),
                          st.tuples(st.just("s"), st.integers(0, 15), st.sampled_from(_FLIP_REGIONS),
                                    st.integers(0, 200000), st.integers(0, 7)).map(list)))
    if size == "small":
        every = draw(st.sampled_from([0, 0, 0, 1, 5, 64]))
    elif flip is not None:
        # after a checksum failure the driver walks through the rest of the *current read* in
        # header-sized steps, copying the buffer each time (quadratic): keep the reads of corrupted
        # big streams bounded so that a case stays cheap
        every = draw(st.sampled_from([4096, 16384, 65536]))
    else:
        every = draw(st.sampled_from([0, 0, 0, 4096, 65536, 131072]))
    return {"version": draw(st.sampled_from([5, 5, 5, 6])), "compression": compression,
            "handshake": draw(st.sampled_from(["wire", "wire", "direct"])), "hs_cut": draw(st.sampled_from([0, 0, 1, 4])),
            "msgs": msgs, "group": draw(st.lists(st.integers(1, 4), max_size=4)),
            "plain": draw(st.lists(st.booleans(), max_size=4)),
            "cuts": {"every": every, "items": draw(_cut_items())}, "flip": flip}


def s_encode():
    around = [k * MAXP + d for k in (1, 2, 3) for d in (-2, -1, 0, 1, 2)]
    exact = [MAXP, MAXP, MAXP + 1, MAXP - 1, 2 * MAXP, 2 * MAXP + 1, 3 * MAXP]
    size = st.one_of(st.sampled_from(exact), st.sampled_from(around), st.sampled_from([9, 10, 50]),
                     st.integers(9, 2000), st.integers(9, 400000))
    return st.fixed_dictionaries({
        "compression": st.booleans(), "via": st.sampled_from(["codec", "send_msg", "query"]),
        "sizes": st.lists(size, min_size=1, max_size=3), "kind": st.sampled_from(["rand", "rep", "zero"]),
        "seed": st.integers(0, 999)})


# ---------------------------------------------------------------------------------------
# feed: spec-encoded segments into the real connection
# ---------------------------------------------------------------------------------------

def _frames(case):
    v = case["version"]
    out = []
    for m in case["msgs"]:
        if "event" in m:
            out.append(K.frame(v, 0, -1, K.OP_EVENT, K.event_body(m["event"], v)[0]))
        else:
            out.append(K.frame(v, m["flags"], m["stream"], m["op"], K.body_bytes(m["kind"], m["len"], m["seed"], v)))
    return out


def _resolve_cuts(spec, total, layout):
    cuts = set()
    every = spec.get("every", 0)
    if every and every > 0:
        cuts.update(range(every, total, every))
    n = len(layout)
    for it in spec.get("items", []):
        if it[0] == "a":
            if total:
                cuts.add(it[1] % total)
            continue
        if not n:
            continue
        seg = layout[it[1] % n]
        where, x = it[2], it[3]
        s, he, pe, e = seg["start"], seg["header_end"], seg["payload_end"], seg["end"]
        if where == "start":
            cuts.add(s)
        elif where == "hdr":
            cuts.add(s + 1 + x % (he - s - 1))
        elif where == "hdr_end":
            cuts.add(he)
        elif where == "pay":
            cuts.add(he + x % max(1, pe - he))
        elif where == "pay_end":
            cuts.add(pe)
        elif where == "crc1":
            cuts.add(pe + 1)
        elif where == "crc":
            cuts.add(pe + 1 + x % 3)
        elif where == "end":
            cuts.add(e)
    return sorted(c for c in cuts if 0 < c < total)


def _flip_offset(flip, total, layout, compression):
    """-> (bit index into the stream, segment index, region name)"""
    if flip[0] == "abs":
        bit = flip[1] % (total * 8)
    else:
        seg = layout[flip[1] % len(layout)]
        region, x, b = flip[2], flip[3], flip[4]
        s, he, pe, e = seg["start"], seg["header_end"], seg["payload_end"], seg["end"]
        if region == "pay" and pe == he:
            region = "pcrc"
        if region == "hdr":
            lo, hi = s, he - 3
        elif region == "hcrc":
            lo, hi = he - 3, he
        elif region == "pay":
            lo, hi = he, pe
        else:
            lo, hi = pe, e
        bit = (lo + x % (hi - lo)) * 8 + b % 8
    byte = bit // 8
    for j, seg in enumerate(layout):
        if seg["start"] <= byte < seg["end"]:
            if byte < seg["header_end"] - 3:
                return bit, j, "hdr"
            if byte < seg["header_end"]:
                return bit, j, "hcrc"
            if byte < seg["payload_end"]:
                return bit, j, "pay"
            return bit, j, "pcrc"
    raise AssertionError("flip outside the stream")


def _first_known_trigger(cuts, layout, compression, upto):
    """Earliest cut position that reaches one of the two read-path defects this check found
    (known_findings.json: C06.split-read/..., both repaired in /repo); returns the feature name or
    None.  A failure on a case with such a cut is reported under that one key whatever the
    symptom, i.e. it reads as a regression of that repair.  `upto`: only cuts before this offset
    matter (the connection stops reading at a corrupted segment)."""
    best = None
    for seg in layout:
        s, he, pe, e = seg["start"], seg["header_end"], seg["payload_end"], seg["end"]
        for c in cuts:
            if c >= upto:
                break
            if s < c < he:
                if best is None or c < best[0]:
                    best = (c, "read-ends-inside-segment-header")
            elif compression and not seg["compressed"] and c in (e - 2, e - 1):
                if best is None or c < best[0]:
                    best = (c, "read-ends-in-last-2-bytes-of-uncompressed-segment-under-compression")
    return best[1] if best else None


def interpret_feed(case, ctx):
    compression = case["compression"]
    frames = _frames(case)
    data, layout = S.encode_segments(frames, compression, case.get("plain"), K.block_compress, case.get("group"))
    total = len(data)
    cuts = _resolve_cuts(case["cuts"], total, layout)
    flip = case.get("flip")
    flip_seg = flip_region = None
    if flip is not None:
        bit, flip_seg, flip_region = _flip_offset(flip, total, layout, compression)
        ba = bytearray(data)
        ba[bit // 8] ^= 1 << (bit % 8)
        data = bytes(ba)
    # segment index in which each message ends
    msg_end = {}
    for j, seg in enumerate(layout):
        for i in seg["messages"]:
            msg_end[i] = seg["end"]
    msg_first_seg = {}
    for j, seg in enumerate(layout):
        for i in seg["messages"]:
            msg_first_seg.setdefault(i, j)
    upto = layout[flip_seg]["end"] if flip is not None else total + 1
    feature = _first_known_trigger(cuts, layout, compression, upto)

    seen = []            # at process_msg entry: (version, flags, stream, opcode, body)
    seen_live = []       # ... and whether the connection was still alive (not defunct) at that moment
    handled = []         # at the handlers
    events = []          # at the push watchers: (event type, normalised args)
    post_defunct = []    # responses / events handed over although the connection was already defunct
    pos = [0]
    fed_at = []

    with K.harness_lz4():
        conn = K.make_conn(case["version"], compression=compression)
        orig = conn.process_msg

        def spy(header, body):
            if len(seen) >= len(frames) + 4:
                raise K.RunawayLoop("more than %d messages handed to process_msg, %d were sent" % (len(seen), len(frames)))
            seen.append((header.version, header.flags, header.stream, header.opcode, bytes(body)))
            seen_live.append(not conn.is_defunct)
            fed_at.append(pos[0])
            return orig(header, body)

        with ctx.driver(["C06.handshake", case["handshake"]]):
            if case["handshake"] == "wire":
                K.handshake_wire(conn, compression, case.get("hs_cut", 0))
            else:
                K.handshake_direct(conn, compression)
        if ctx._failures:
            return
        ok = (conn._is_checksumming_enabled and not conn.is_defunct and
              bool(conn._segment_codec.compression) == bool(compression))
        if not ctx.check(ok, ["C06.handshake", "state"],
                         "after the handshake: checksumming=%r defunct=%r codec-compression=%r (wanted %r), last_error=%r" % (
                             conn._is_checksumming_enabled, conn.is_defunct,
                             bool(getattr(conn, "_segment_codec", None) and conn._segment_codec.compression),
                             compression, conn.last_error)):
            return
        conn.process_msg = spy

        def decoder(version, utm, stream_id, flags, opcode, body, decompressor, rm):
            return ("decoded", version, stream_id, flags, opcode, bytes(body), rm)

        def make_cb(i):
            def cb(response):
                if isinstance(response, tuple) and response and response[0] == "decoded":
                    handled.append((i,) + response[1:])
                    if conn.is_defunct:
                        post_defunct.append("response on stream %d" % response[2])
                else:
                    handled.append((i, "error", type(response).__name__))
            return cb

        def make_watcher(etype):
            def w(args):
                try:
                    events.append((etype, K.norm_event(args)))
                    if conn.is_defunct:
                        post_defunct.append("event %s" % etype)
                except Exception as e:   # the driver swallows watcher exceptions: keep them visible
                    events.append(("harness-exception", repr(e)))
            return w

        for i, m in enumerate(case["msgs"]):
            if "event" not in m:
                conn._requests[m["stream"]] = (make_cb(i), decoder, ("meta", i))
        for etype in ("STATUS_CHANGE", "TOPOLOGY_CHANGE", "SCHEMA_CHANGE"):
            conn._push_watchers[etype].add(make_watcher(etype))
        # after a checksum failure the (defunct) connection still walks through the rest of the
        # current read in header-sized steps, hence the extra term for corrupted streams; a loop
        # that does not terminate exceeds any such budget
        edges = [0] + cuts + [total]
        longest_read = max(b - a for a, b in zip(edges, edges[1:]))
        conn.step_budget = conn.steps + 6 * (len(cuts) + 1 + len(layout) + len(frames)) + 64 + (
            longest_read // 3 if flip is not None else 0)
        deferred = []
        ends_sorted = sorted(msg_end.values())

        def after(fed):
            # observation only (the statement does not promise promptness): a complete message
            # still sitting in the frame buffer after the read that completed its segment
            if not deferred and not conn.is_defunct:
                due = sum(1 for e in ends_sorted if e <= fed)
                if len(seen) < due:
                    deferred.append(fed)

        if feature:
            try:
                K.feed(conn, data, cuts, on_chunk=after, pos=pos)
            except Exception as e:
                ctx.fail(["C06.split-read", feature], "feeding raised %s: %s" % (type(e).__name__, e))
                return
        else:
            with ctx.driver(["C06.feed"]):
                K.feed(conn, data, cuts, on_chunk=after, pos=pos)
            if ctx._failures:
                return
        if deferred and flip is None and not feature:
            ctx.label("obs:complete-message-deferred-to-a-later-read")

    sent = []
    exp_events = []
    for m, raw in zip(case["msgs"], frames):
        if "event" in m:
            sent.append((case["version"], 0, -1, K.OP_EVENT, raw[9:]))
            _, etype, exp = K.event_body(m["event"], case["version"])
            exp_events.append((etype, K.norm_event(exp)))
        else:
            sent.append((case["version"], m["flags"], m["stream"], m["op"], raw[9:]))
    data_idx = [i for i, m in enumerate(case["msgs"]) if "event" not in m]

    def key(sub, *more):
        # any failure on a case whose cut list reaches one of the two recorded read-path defects
        # is attributed to that defect (one key per root cause, whatever the symptom)
        if feature:
            return ["C06.split-read", feature]
        return [sub] + list(more)

    cmode = "compression" if compression else "plain"
    if flip is None:
        if conn.is_defunct or conn.is_closed:
            ctx.fail(key("C06.reassembly", "spurious-defunct", type(conn.last_error).__name__),
                     "valid segment stream (%d segments, %d cuts) but the connection ended defunct: %r" % (
                         len(layout), len(cuts), conn.last_error))
        if seen != sent:
            n = min(len(seen), len(sent))
            at = next((i for i in range(n) if seen[i] != sent[i]), n)
            what = "missing" if len(seen) < len(sent) and at == n else ("extra" if at == n else "altered")
            ctx.fail(key("C06.reassembly", what, cmode),
                     "messages entering process_msg differ from the messages sent at index %d (%d seen, %d sent, %d "
                     "segments, %d cuts, defunct=%r)" % (at, len(seen), len(sent), len(layout), len(cuts), conn.is_defunct))
        else:
            exp_handled = [(i, sent[i][0], sent[i][2], sent[i][1], sent[i][3], sent[i][4], ("meta", i)) for i in data_idx]
            ctx.check(handled == exp_handled, key("C06.handlers", cmode),
                      "handlers received %d deliveries, expected %d in order" % (len(handled), len(exp_handled)))
            ctx.check(events == exp_events, key("C06.watchers", cmode),
                      "watchers received %d events, expected %d in order" % (len(events), len(exp_events)))
            if not (conn.is_defunct or conn.is_closed):
                rest_io = conn._io_buffer.io_buffer.getvalue()
                rest_cql = conn._io_buffer.cql_frame_buffer.getvalue()
                ctx.check(rest_io == b"" and rest_cql == b"" and conn._current_frame is None,
                          key("C06.residue", cmode), "%d / %d bytes left in the io / frame buffers, current_frame=%r" % (
                              len(rest_io), len(rest_cql), conn._current_frame))
        for j, at in enumerate(fed_at):
            if j < len(sent) and seen[j] == sent[j] and at < msg_end[j]:
                ctx.fail(key("C06.early", cmode), "message %d entered process_msg with %d bytes fed, its last segment ends at %d" % (
                    j, at, msg_end[j]))
                break
    else:
        region = flip_region
        if not conn.is_defunct:
            ctx.fail(key("C06.corruption", "undetected", region, cmode),
                     "bit %d (%s of segment %d) flipped; all %d bytes fed; connection not defunct (closed=%r, %d of %d "
                     "messages seen)" % (bit, region, flip_seg, total, conn.is_closed, len(seen), len(sent)))
        # Once the checksum failure has defuncted the connection nothing more may be handed to
        # process_msg, a handler or a watcher -- not even frames of later, intact segments that
        # arrived in the same read (they may be spliced around the corrupted piece).
        if len(seen_live) != sum(seen_live) or post_defunct:
            ctx.fail(key("C06.corruption", "processed-after-defunct", region, cmode),
                     "bit %d (%s of segment %d) flipped; after the connection became defunct %d more message(s) were "
                     "handed to process_msg%s" % (bit, region, flip_seg, len(seen_live) - sum(seen_live),
                                                  (" and delivered: " + ", ".join(post_defunct[:3])) if post_defunct else ""))
        live = [m for m, ok in zip(seen, seen_live) if ok]
        bad = next((i for i in range(len(live)) if i >= len(sent) or live[i] != sent[i]), None)
        if bad is not None:
            ctx.fail(key("C06.corruption", "altered-delivered", region, cmode),
                     "bit %d (%s of segment %d) flipped; message %d entering process_msg on the live connection is not "
                     "the message sent" % (bit, region, flip_seg, bad))
        else:
            # nothing that travelled (even partly) in the corrupted segment may come out
            limit = len([i for i in range(len(sent)) if msg_end[i] <= layout[flip_seg]["start"]])
            ctx.check(len(live) <= limit, key("C06.corruption", "delivered-from-corrupt-segment", region, cmode),
                      "%d messages seen but only %d lie wholly before the corrupted segment" % (len(live), limit))
        got = [h for h in handled if h[1] != "error"]
        ok_handled = all(h[0] < len(sent) and h[1:6] == (
            sent[h[0]][0], sent[h[0]][2], sent[h[0]][1], sent[h[0]][3], sent[h[0]][4]) for h in got)
        ctx.check(ok_handled, key("C06.corruption", "handler-got-altered", region, cmode),
                  "a handler received a response that differs from the message sent on its stream")
        ctx.check([h[0] for h in got] == data_idx[:len(got)], key("C06.corruption", "handler-order", region, cmode),
                  "handlers that received a response: %r -- not a prefix of the sent list" % ([h[0] for h in got],))
        ctx.check(events == exp_events[:len(events)], key("C06.corruption", "watcher-got-altered", region, cmode),
                  "watchers received %r -- not a prefix of the events sent" % (events[:3],))
        ctx.label("flip:" + region, "flip-error:" + type(conn.last_error).__name__)

    # ---- classification
    multi = any(len(f) > MAXP for f in frames)
    plain_under_comp = compression and any(not s["compressed"] for s in layout)
    inside = any(s["start"] < c < s["end"] for c in cuts for s in layout)
    ctx.label("feed", cmode, "segments=%s" % (len(layout) if len(layout) < 4 else "4+"))
    if multi:
        ctx.label("multi-segment-message")
    if any(len(s["messages"]) > 1 for s in layout):
        ctx.label("packed-segment")
    if exp_events:
        ctx.label("has-event")
    if flip is not None and flip_seg < len(layout) - 1:
        nxt = [c for c in cuts if c >= layout[flip_seg]["end"]]
        if layout[flip_seg + 1]["end"] <= (nxt[0] if nxt else total):
            ctx.label("intact-segment-behind-corrupt-one-in-same-read")
    if compression and any(s["compressed"] for s in layout):
        ctx.label("has-compressed-segment")
    if plain_under_comp:
        ctx.label("uncompressed-segment-under-compression")
    if any(s["payload_len"] == MAXP for s in layout):
        ctx.label("payload=131071")
    for c in cuts:
        for s in layout:
            if s["start"] < c < s["header_end"]:
                ctx.label("cut-in-seg-header")
                break
        else:
            continue
        break
    if any(s["header_end"] < c < s["payload_end"] for c in cuts for s in layout):
        ctx.label("cut-in-payload")
    if any(s["payload_end"] < c < s["end"] for c in cuts for s in layout):
        ctx.label("cut-in-crc32")
    if any(c == s["start"] for c in cuts for s in layout):
        ctx.label("cut-on-segment-boundary")
    if feature:
        ctx.label("known:" + feature)
    ctx.nontrivial(((multi or len(frames) >= 2 or plain_under_comp or flip is not None) and inside) or
                   (flip is not None and flip[0] == "abs"))


# ---------------------------------------------------------------------------------------
# flips: all single-bit flips of small fixed streams
# ---------------------------------------------------------------------------------------

def _flip_streams(tier):
    b = 5 if tier == "quick" else 150
    return [
        {"name": "plain-2seg", "compression": False, "group": [1], "plain": [],
         "msgs": [{"stream": 3, "op": 8, "flags": 0, "len": b, "kind": "rand", "seed": 1},
                  {"stream": 4, "op": 2, "flags": 0, "len": 0, "kind": "zero", "seed": 0}]},
        {"name": "packed+single", "compression": False, "group": [2, 1], "plain": [],
         "msgs": [{"stream": 0, "op": 8, "flags": 0, "len": 1, "kind": "rand", "seed": 2},
                  {"stream": 1, "op": 8, "flags": 2, "len": b, "kind": "hdr", "seed": 7},
                  {"stream": 32767, "op": 0, "flags": 0, "len": 3, "kind": "rand", "seed": 3}]},
        {"name": "compressed+uncompressed", "compression": True, "group": [1], "plain": [False, True],
         "msgs": [{"stream": 9, "op": 8, "flags": 0, "len": 60 + b, "kind": "zero", "seed": 0},
                  {"stream": 10, "op": 8, "flags": 0, "len": b, "kind": "rand", "seed": 4}]},
    ]


def _flip_chunks(tier):
    modes = ["whole", "segments"] if tier == "quick" else ["whole", "segments", "payloads"]
    out = []
    for sdesc in _flip_streams(tier):
        for mode in modes:
            out.append({"stream": sdesc, "mode": mode})
    return out


def _flip_cases(chunk):
    sd = chunk["stream"]
    base = {"version": 5, "compression": sd["compression"], "handshake": "direct", "hs_cut": 0, "msgs": sd["msgs"],
            "group": sd["group"], "plain": sd["plain"]}
    frames = _frames(base)
    data, layout = S.encode_segments(frames, sd["compression"], sd["plain"], K.block_compress, sd["group"])
    if chunk["mode"] == "whole":
        items = []
    elif chunk["mode"] == "segments":
        items = [["s", j, "start", 0] for j in range(len(layout))]
    else:
        items = [["s", j, "pay", (layout[j]["payload_end"] - layout[j]["header_end"]) // 2] for j in range(len(layout))] + \
                [["s", j, "crc1", 0] for j in range(len(layout))]
    for bit in range(len(data) * 8):
        yield dict(base, cuts={"every": 0, "items": items}, flip=["abs", bit])


# ---------------------------------------------------------------------------------------
# encode: driver output decoded by the reference
# ---------------------------------------------------------------------------------------

def _request_frame(version, flags, stream, opcode, body):
    return struct.pack(">BBhBi", version, flags, stream, opcode, len(body)) + body


def interpret_encode(case, ctx):
    import io
    import cassandra.connection as C
    compression = case["compression"]
    via = case["via"]
    msgs = []
    out = []
    with K.harness_lz4():
        if via == "codec":
            codec = C.segment_codec_lz4 if compression else C.segment_codec_no_compression
            for j, size in enumerate(case["sizes"]):
                m = _request_frame(5, 0, j, 0x07, K.body_bytes(case["kind"], size - 9, case["seed"] + j, 5))
                msgs.append(m)
                buf = io.BytesIO()
                with ctx.driver(["C06.encode", "codec"]):
                    codec.encode(buf, m)
                out.append(buf.getvalue())
        else:
            conn = K.make_conn(5, compression=compression)
            with ctx.driver(["C06.handshake", "wire"]):
                K.handshake_wire(conn, compression, 0)
            if ctx._failures:
                return
            for j, size in enumerate(case["sizes"]):
                n_before = len(conn.pushed)
                if via == "send_msg":
                    m = _request_frame(5, 0, j + 2, 0x07, K.body_bytes(case["kind"], size - 9, case["seed"] + j, 5))
                    msgs.append(m)
                    with ctx.driver(["C06.encode", "send_msg"]):
                        conn.send_msg(None, j + 2, lambda r: None, encoder=lambda *a, **kw: m)
                else:
                    from cassandra.protocol import QueryMessage
                    q = K.body_bytes("rep" if case["kind"] == "rand" else case["kind"], size, case["seed"] + j, 5)
                    q = bytes(0x41 + (c % 26) for c in q).decode("ascii")
                    msgs.append(q)
                    with ctx.driver(["C06.encode", "query"]):
                        conn.send_msg(QueryMessage(q, 1), j + 2, lambda r: None)
                out.append(b"".join(conn.pushed[n_before:]))
    if ctx._failures:
        return
    near = False
    for j, (m, wire) in enumerate(zip(msgs, out)):
        size = case["sizes"][j]
        try:
            segs = S.decode_stream(wire, compression, K.block_decompress)
            got = S.reassemble(segs)
        except S.SegmentError as e:
            ctx.fail(["C06.encode", via, "undecodable", e.kind],
                     "driver output for a %d-byte message is not a valid segment stream: %s" % (size, e))
            continue
        except Exception as e:  # the stand-in decompressor rejecting a block
            ctx.fail(["C06.encode", via, "undecodable", type(e).__name__], "reference decoder failed: %r" % (e,))
            continue
        if via == "query":
            okq = (len(got) == 1 and got[0][0] == 5 and got[0][4] == 0x07 and
                   struct.unpack(">h", got[0][2:4])[0] == j + 2 and
                   got[0][9:13] == struct.pack(">i", len(m)) and got[0][13:13 + len(m)] == m.encode("ascii"))
            ctx.check(okq, ["C06.encode", via, "content"],
                      "QUERY frame of a %d-char statement does not come back from the segments (%d frames)" % (len(m), len(got)))
            flen = len(got[0]) if got else 0
        else:
            ctx.check(got == [m], ["C06.encode", via, "content"],
                      "a %d-byte message does not come back from the driver's segments (%d frames, %d segments)" % (
                          len(m), len(got), len(segs)))
            flen = len(m)
        # shape prescribed by the protocol text
        if flen <= MAXP:
            ctx.check(len(segs) == 1 and segs[0]["self_contained"], ["C06.encode", via, "shape", "small"],
                      "a %d-byte message must travel in one self-contained segment, got %d segments (flags %r)" % (
                          flen, len(segs), [s["self_contained"] for s in segs]))
        else:
            ctx.check(len(segs) >= 2 and not any(s["self_contained"] for s in segs), ["C06.encode", via, "shape", "large"],
                      "a %d-byte message must be split into non-self-contained segments, got %d (flags %r)" % (
                          flen, len(segs), [s["self_contained"] for s in segs]))
        if any(abs(flen - k * MAXP) <= 2 for k in (1, 2, 3)):
            near = True
        if compression and any(s["compressed"] for s in segs):
            ctx.label("enc:compressed-segment")
        if compression and any(not s["compressed"] for s in segs):
            ctx.label("enc:left-uncompressed")
    ctx.label("encode", "enc:" + via, "enc:compression" if compression else "enc:plain")
    if near:
        ctx.label("enc:near-131071-multiple")
    ctx.nontrivial(near or compression)


def parts(tier):
    return [
        hyp_part("feed", s_feed, interpret_feed, tier, quick=75, thorough=3500, quick_shards=8, thorough_shards=16),
        EnumPart("flips", _flip_chunks(tier), _flip_cases, interpret_feed),
        hyp_part("encode", s_encode, interpret_encode, tier, quick=40, thorough=1200, quick_shards=4, thorough_shards=8),
    ]
