"""Shared helpers for the checks that run on the simulated world (sim/)."""
import sim  # noqa: F401  (must precede cassandra.cluster: skips the twisted/eventlet imports)
from sim import wire
from sim.vthreads import Deadlock, StepBudgetExceeded
from sim.world import Sim

ERROR_KINDS = ["read_timeout", "write_timeout", "unavailable", "overloaded", "server_error", "bootstrapping",
               "truncate", "invalid", "unauthorized"]
RETRYABLE = {"read_timeout", "write_timeout", "unavailable", "overloaded", "server_error", "bootstrapping", "truncate"}

ROW_COLS = [("k", "int"), ("v", "text")]


def answer(node, conn, req, kind, tag=None, paging_state=None, rows=None):
    """send one response of the given kind for a held/received request"""
    v = req["version"]
    if kind == "rows":
        rs = rows if rows is not None else [[1, tag or "x"]]
        node.reply(conn, req, "RESULT", wire.result_rows(ROW_COLS, rs, paging_state=paging_state, version=v))
    elif kind == "void":
        node.reply(conn, req, "RESULT", wire.result_void())
    elif kind == "server_error":
        node.reply_error(conn, req, "server", "boom")
    elif kind in wire.ERR:
        node.reply_error(conn, req, kind, "simulated " + kind)
    elif kind == "close":
        node.net.server_close(conn)
    elif kind == "reset":
        node.net.socket_error(conn)
    elif kind == "drop":
        pass
    else:
        raise ValueError(kind)


def fixed_plan_policy(order=None):
    """a load-balancing policy whose plan is the known hosts sorted by address (or the given
    address order); every host is LOCAL"""
    from cassandra.policies import HostDistance, LoadBalancingPolicy

    class FixedPlan(LoadBalancingPolicy):
        def __init__(self):
            LoadBalancingPolicy.__init__(self)
            self.hosts = []
            self.plans = 0

        def populate(self, cluster, hosts):
            self.hosts = list(hosts)

        def distance(self, host):
            return HostDistance.LOCAL

        def make_query_plan(self, working_keyspace=None, query=None):
            self.plans += 1
            hs = sorted(self.hosts, key=lambda h: h.endpoint.address)
            if order:
                rank = dict((a, i) for i, a in enumerate(order))
                hs = sorted((h for h in hs if h.endpoint.address in rank), key=lambda h: rank[h.endpoint.address])
            return list(hs)

        def on_up(self, host):
            if host not in self.hosts:
                self.hosts.append(host)

        def on_down(self, host):
            pass

        def on_add(self, host):
            if host not in self.hosts:
                self.hosts.append(host)

        def on_remove(self, host):
            if host in self.hosts:
                self.hosts.remove(host)
    return FixedPlan()


def scripted_retry_policy(decisions, log):
    """RetryPolicy returning the generated decisions in order (RETHROW when exhausted) and
    recording every consultation in `log`"""
    from cassandra import ConsistencyLevel
    from cassandra.policies import RetryPolicy
    CL = {"ONE": ConsistencyLevel.ONE, "QUORUM": ConsistencyLevel.QUORUM, "ALL": ConsistencyLevel.ALL,
          "TWO": ConsistencyLevel.TWO, None: None}

    class Scripted(RetryPolicy):
        def _next(self, method, retry_num, **info):
            i = len(log)
            d = decisions[i] if i < len(decisions) else ["rethrow", None]
            log.append({"method": method, "retry_num": retry_num, "decision": d, "info": info})
            kind, cl = d[0], CL[d[1]] if len(d) > 1 else None
            if kind == "retry":
                return (RetryPolicy.RETRY, cl)
            if kind == "next_host":
                return (RetryPolicy.RETRY_NEXT_HOST, cl)
            if kind == "ignore":
                return (RetryPolicy.IGNORE, None)
            return (RetryPolicy.RETHROW, None)

        def on_read_timeout(self, query, consistency, required_responses, received_responses, data_retrieved, retry_num):
            return self._next("read_timeout", retry_num, consistency=consistency)

        def on_write_timeout(self, query, consistency, write_type, required_responses, received_responses, retry_num):
            return self._next("write_timeout", retry_num, consistency=consistency)

        def on_unavailable(self, query, consistency, required_replicas, alive_replicas, retry_num):
            return self._next("unavailable", retry_num, consistency=consistency)

        def on_request_error(self, query, consistency, error, retry_num):
            return self._next("request_error", retry_num, consistency=consistency, error=type(error).__name__)
    return Scripted()


def all_held(net):
    """[(node, index_in_node_held, conn, req)] over all nodes, in arrival order"""
    out = []
    for node in net.nodes.values():
        for i, (conn, req) in enumerate(node.held):
            out.append((node, conn, req))
    out.sort(key=lambda t: next(i for i, r in enumerate(net.requests) if r[2] is t[2]))
    return out


def release(net, node, conn, req, kind, **kw):
    for i, (c, r) in enumerate(node.held):
        if r is req:
            del node.held[i]
            break
    answer(node, conn, req, kind, **kw)


def hold_user_queries(prefix="SELECT k"):
    def on_request(node, conn, req):
        if req["op"] in ("QUERY", "EXECUTE", "BATCH", "PREPARE") and not conn.is_control_connection:
            q = req.get("query", "")
            if req["op"] != "QUERY" or q.startswith(prefix):
                return ("hold",)
        return None
    return on_request


class CallbackPair(object):
    """counts invocations of a (callback, errback) pair"""

    def __init__(self, name):
        self.name = name
        self.cb = []
        self.eb = []

    def on_result(self, result):
        self.cb.append(result)

    def on_error(self, exc):
        self.eb.append(exc)

    @property
    def total(self):
        return len(self.cb) + len(self.eb)
