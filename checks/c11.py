"""C11 -- messages pushed concurrently reach the socket whole and in order (asyncio and twisted reactors).

Real OS threads push self-locating messages on ONE connection of the real reactor, which runs in a
subprocess (checks/_c11_worker.py: the twisted reactor cannot be restarted, and the reactors own global
state); the peer is a plain local listener that only reads.  The oracle (``judge_stream``) has no timing
component -- see the worker's docstring.
"""
from __future__ import annotations

import json
import os
import subprocess
import sys

from checks._c11_worker import judge_stream, make_message  # noqa: F401  (re-exported for replays / self-test)

PID = "C11"
TITLE = "Messages pushed concurrently reach the socket whole and in order"
LEVEL = "exploration"
ENGINE = "reactors"
TECHNIQUE = ("property-based stress testing (Hypothesis-generated workloads, real threads, real reactor in a subprocess, "
             "real local socket) with a stream-parsing oracle")
RULE = ("a workload = 1-6 pushers (start barrier or not), each pushing 1-20 messages on one connection; a pusher is a real "
        "thread calling push(), or (about a third) the reactor's own thread calling push() from a scheduled callback as a "
        "response callback does (asyncio call_soon_threadsafe / twisted callFromThread), optionally paced 1-5 ms between "
        "pushes; 40% of the ordinary workloads run against a throttled peer (reads 512-8192 bytes every 0.5-2 ms for the first "
        "32 KiB / 128 KiB / all bytes, SO_RCVBUF and SO_SNDBUF 2-16 KiB) so that the reactor's send is suspended inside "
        "messages while further pushes arrive; 40% of all workloads are 'trickles' (the reactor thread pushes 8 or 20 "
        "messages of 1-3 chunks paced 1-5 ms against a fully throttled peer with 2-8 KiB buffers, plus 0-2 other pushers), 20% are 'hammers' (4-6 unpaced threads x 20 messages, fast peer); the worker runs with a "
        "0.1 ms thread switch interval; "
        "message sizes "
        "are drawn from {1,2,3,7,100, 4094..4098, 8191..8193, 12287..12289, 16384, 65535..65537} and random sizes up to 20000 "
        "(out_buffer_size = 4096); transport AF_UNIX or loopback TCP for asyncio, loopback TCP for twisted.  Every message "
        "carries its (thread, sequence, offset) in its bytes, so the received stream is parsed exactly: whole messages, the "
        "multiset equals what was pushed, each thread's order preserved, nothing after the last message.  Non-trivial: "
        ">= 2 pushers and at least one message larger than out_buffer_size, or a throttled peer with a push from the "
        "reactor thread and >= 2 messages.")
ASSUMPTIONS = [
    "the connection is brought up without a Cassandra handshake: a subclass overrides _send_options_message to only set "
    "connected_event; everything on the write path (push, _push_msg, handle_write, callFromThread/transport.write) is the driver's",
    "the OS schedules the writer threads: interleavings are sampled, not enumerated (a green run is weaker evidence than a "
    "model-checked one; a violation is real)",
    "'lost' is decided without a timer: all writers have returned and the reactor is provably idle (asyncio: no pending "
    "_push_msg task, empty write queue, write loop parked in Queue.get(); twisted: all callFromThread calls ran, transport "
    "buffers empty), the connection is then closed and the listener reads to EOF; a reactor that is not idle after 60 s makes "
    "the workload inconclusive, never a violation",
    "libev / asyncore / eventlet / gevent reactors are not usable on this interpreter and are outside the statement",
]
LEVEL_TEXT = "sampled real-thread schedules against the real reactors; finds write-path defects, cannot prove their absence"

HOME = os.environ.get("VERIF_HOME") or os.path.dirname(os.path.dirname(os.path.abspath(__file__)))

_SIZES = [1, 2, 3, 7, 100, 4094, 4095, 4096, 4096, 4097, 4098, 8191, 8192, 8193, 12287, 12288, 12289, 16384]
_BIG = [65535, 65536, 65537]


class _Worker(object):
    def __init__(self, reactor):
        from vlib.harness import HarnessError, REPO
        self.reactor = reactor
        env = dict(os.environ)
        env["PYTHONPATH"] = os.pathsep.join([HOME, REPO, os.path.join(HOME, "shims")])
        env.update(PYTHONHASHSEED="0", TZ="UTC", PYTHONDONTWRITEBYTECODE="1")
        self.proc = subprocess.Popen([sys.executable, "-W", "ignore", "-m", "checks._c11_worker", reactor],
                                     stdin=subprocess.PIPE, stdout=subprocess.PIPE, stderr=subprocess.DEVNULL,
                                     env=env, cwd=HOME, text=True, bufsize=1)
        line = self.proc.stdout.readline()
        try:
            hello = json.loads(line)
        except ValueError:
            hello = {"hello": False, "error": "no hello line: %r" % line[:200]}
        if not hello.get("hello"):
            raise HarnessError("C11 %s worker failed to start: %s" % (reactor, hello.get("error")))
        want = os.path.realpath(os.path.join(REPO, "cassandra"))
        if os.path.dirname(hello["file"]) != want:
            raise HarnessError("C11 worker imported cassandra from %s, expected %s" % (hello["file"], want))

    def call(self, req):
        from vlib.harness import HarnessError
        try:
            self.proc.stdin.write(json.dumps(req) + "\n")
            self.proc.stdin.flush()
            line = self.proc.stdout.readline()
        except (BrokenPipeError, OSError):
            line = ""
        if not line:
            raise HarnessError("C11 %s worker died (rc=%r)" % (self.reactor, self.proc.wait()))
        res = json.loads(line)
        if "error" in res:
            raise HarnessError("C11 worker-side harness error:\n%s" % res["error"])
        return res["ok"]

    def close(self):
        try:
            self.proc.stdin.close()
            self.proc.wait(timeout=10)
        except Exception:
            self.proc.kill()


_WORKERS = {}


def _worker(reactor):
    key = (os.getpid(), reactor)
    w = _WORKERS.get(key)
    if w is None or w.proc.poll() is not None:
        w = _WORKERS[key] = _Worker(reactor)
    return w


def _drop_worker(reactor):
    w = _WORKERS.pop((os.getpid(), reactor), None)
    if w is not None:
        w.close()


def s_workload(reactor):
    def build():
        from hypothesis import strategies as st
        size = st.one_of(st.sampled_from(_SIZES), st.sampled_from(_SIZES), st.integers(1, 20000), st.sampled_from(_BIG))
        small = st.one_of(st.sampled_from(_SIZES), st.integers(1, 5000))

        @st.composite
        def trickle(draw):
            """the reactor thread itself pushes a paced series of 1-3 chunk messages against a throttled peer with
            small socket buffers: most pushes arrive while the previous message is half written and nothing else is
            queued (the situation of a response callback issuing the next request on a busy connection)"""
            sz = st.sampled_from([1500, 3000, 4096, 4097, 9000, 12289])
            threads = [[draw(sz) for _ in range(draw(st.sampled_from([8, 20])))]]
            loop, pace = [True], [draw(st.sampled_from([1, 2, 5]))]
            for _ in range(draw(st.sampled_from([0, 0, 1, 2]))):
                threads.append([draw(small) for _ in range(draw(st.sampled_from([1, 3, 8])))])
                loop.append(draw(st.booleans()))
                pace.append(draw(st.sampled_from([0, 1, 5])))
            buf = draw(st.sampled_from([2048, 8192]))
            return {"reactor": reactor, "threads": threads, "barrier": True,
                    "transport": draw(st.sampled_from(["unix", "tcp"])) if reactor == "asyncio" else "tcp",
                    "loop": loop, "pace_ms": pace,
                    "reader": {"burst": draw(st.sampled_from([512, 2048, 4096])), "pause_ms": draw(st.sampled_from([0.5, 2])),
                               "slow_bytes": 10 ** 9, "rcvbuf": buf, "sndbuf": buf}}

        @st.composite
        def hammer(draw):
            """4-6 ordinary threads, 20 unpaced messages each, tiny and multi-chunk sizes mixed, fast peer: the
            most concurrent push() calls per second (thread-safety of the hand-over to the reactor thread)"""
            sz = st.sampled_from([1, 7, 100, 100, 4096, 4097, 8193, 12289, 20000])
            n = draw(st.sampled_from([4, 6]))
            return {"reactor": reactor, "threads": [[draw(sz) for _ in range(20)] for _ in range(n)], "barrier": True,
                    "transport": draw(st.sampled_from(["unix", "tcp"])) if reactor == "asyncio" else "tcp",
                    "loop": [False] * n, "pace_ms": [0] * n, "reader": None}

        @st.composite
        def workload(draw):
            slow = draw(st.sampled_from([False, False, False, True, True]))
            n = draw(st.sampled_from([1, 2, 2, 3, 4, 6] if not slow else [1, 2, 2, 3, 3, 4]))
            threads = []
            # bytes per workload: keeps the real-thread runs modest (a throttled peer takes ~1 ms per burst)
            budget = 160000 if slow else 700000
            for _ in range(n):
                cnt = draw(st.sampled_from([1, 2, 3, 5, 8, 20]))
                sizes = []
                for _ in range(cnt):
                    s = draw(size if budget > 70000 else small)
                    budget -= s
                    sizes.append(s)
                threads.append(sizes)
            case = {"reactor": reactor, "threads": threads, "barrier": draw(st.sampled_from([True, True, False])),
                    "transport": draw(st.sampled_from(["unix", "tcp"])) if reactor == "asyncio" else "tcp",
                    # which pushers are the reactor's own thread (push() called from a callback on the loop)
                    "loop": [draw(st.sampled_from([False, False, True])) for _ in range(n)],
                    # pause between a thread's pushes: pushes then arrive while earlier messages are in flight
                    "pace_ms": [draw(st.sampled_from([0, 0, 1, 2, 5])) for _ in range(n)],
                    "reader": None}
            if slow:
                # back-pressure: small socket buffers and a peer that reads in small bursts, so that the reactor's
                # send is suspended in the middle of a message while further pushes arrive
                case["reader"] = {"burst": draw(st.sampled_from([512, 2048, 8192])),
                                  "pause_ms": draw(st.sampled_from([0.5, 1, 2])),
                                  "slow_bytes": draw(st.sampled_from([32768, 131072, 10 ** 9])),
                                  "rcvbuf": draw(st.sampled_from([2048, 4096, 16384])),
                                  "sndbuf": draw(st.sampled_from([2048, 4096, 16384]))}
                if not any(case["loop"]) and draw(st.booleans()):
                    case["loop"][draw(st.integers(0, n - 1))] = True
            return case
        return st.one_of(workload(), workload(), trickle(), trickle(), hammer())
    return build


def interpret(case, ctx):
    reactor = case["reactor"]
    res = _worker(reactor).call({"threads": case["threads"], "barrier": case.get("barrier", True),
                                 "transport": case.get("transport", "tcp"), "loop": case.get("loop") or [],
                                 "pace_ms": case.get("pace_ms") or [], "reader": case.get("reader")})
    buf = res.get("out_buffer_size", 4096)
    threads = case["threads"]
    nmsg = sum(len(t) for t in threads)
    big = any(s > buf for t in threads for s in t)
    edge = any(s % buf in (0, 1, buf - 1) and s >= buf - 1 for t in threads for s in t)
    ctx.label("%s:threads=%d" % (reactor, len(threads)), "%s:%s" % (reactor, case.get("transport", "tcp")))
    if big:
        ctx.label(reactor + ":chunked-message")
    if edge:
        ctx.label(reactor + ":size-at-chunk-edge")
    if nmsg >= 20:
        ctx.label(reactor + ":>=20-messages")
    if any(case.get("loop") or []):
        ctx.label(reactor + ":push-from-loop-thread")
        if not all(case["loop"]):
            ctx.label(reactor + ":loop-thread+worker-threads")
    if case.get("reader"):
        ctx.label(reactor + ":throttled-peer")
        if any(case.get("loop") or []):
            ctx.label(reactor + ":throttled-peer+push-from-loop-thread")
    if any(case.get("pace_ms") or []):
        ctx.label(reactor + ":paced-pushes")
    st = ctx.stats
    st.extra["messages_pushed"] = st.extra.get("messages_pushed", 0) + nmsg
    st.extra["bytes_pushed"] = st.extra.get("bytes_pushed", 0) + res.get("expected", 0)
    status = res["status"]
    sub = "C11.%s" % reactor
    for t, exc, msg in res.get("push_errors") or []:
        ctx.fail([sub + ".push", "raises", exc], "push() raised in writer thread %d: %s: %s" % (t, exc, msg))
    if status in ("complete", "idle", "peer-eof"):
        ctx.label("%s:%s" % (reactor, status))
        for p in res["problems"]:
            ctx.fail([sub + "." + p["kind"], p["feature"]],
                     "%s: %d of %d bytes received, status %s, reactor state %s: %s" % (
                         p["kind"], res["received"], res["expected"], status, json.dumps(res.get("probe")),
                         json.dumps(p)))
    else:
        # no-connection / writers-stuck / not-idle: the property could not be judged on this workload
        st.inconclusive += 1
        ctx.label("%s:inconclusive:%s" % (reactor, status))
        _drop_worker(reactor)
    ctx.nontrivial((len(threads) >= 2 and big) or (bool(case.get("reader")) and any(case.get("loop") or []) and nmsg >= 2))


def _interp(reactor):
    def f(case, ctx):
        return interpret(case, ctx)
    f.__name__ = "interpret_" + reactor
    return f


def parts(tier):
    from vlib.harness import hyp_part
    return [
        hyp_part("twisted", s_workload("twisted"), _interp("twisted"), tier, quick=45, thorough=600,
                 quick_shards=3, thorough_shards=8),
        hyp_part("asyncio", s_workload("asyncio"), _interp("asyncio"), tier, quick=45, thorough=600,
                 quick_shards=3, thorough_shards=8),
    ]
