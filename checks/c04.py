"""C04 -- response frames decode to exactly what the server sent."""
import ipaddress
import os
import uuid

from hypothesis import strategies as st

# imported once in the parent process (workers are forked)
import cassandra  # noqa: F401
import cassandra.cqltypes  # noqa: F401
import cassandra.protocol  # noqa: F401

from spec import proto
from vlib.harness import EnumPart, hyp_part

PID = "C04"
TITLE = "Response frames decode to exactly what the server sent"
LEVEL = "exploration"
# the quick tier is ~25 s of single-core work; forking a pool costs more (copy-on-write of the imported driver) than it saves
SERIAL = os.environ.get("VERIF_TIER") == "quick"
ENGINE = "proto"
TECHNIQUE = ("property-based testing (Hypothesis): responses produced by an independent specification encoder "
             "(spec/proto.py) are decoded by the driver and compared attribute by attribute")
RULE = ("A case is (protocol version in {1,2,3,4,5,6,0x41,0x42}, stream id, optional trace id / warnings / custom payload "
        "(v4+) / fake compression (not v5/v6), response description).  Descriptions are built by construction: RESULT void / "
        "set_keyspace / schema_change (v1-2 and v3+ layouts, every target) / rows (1-4 columns over scalar, collection, tuple, "
        "UDT and custom types, 0-4 rows with nulls, caller-supplied result metadata absent / empty / identical / stale (column "
        "added, dropped or renamed since the prepare) whenever the response carries its own metadata, metadata flags global-spec / has-more-pages / no-metadata with "
        "caller-supplied metadata / new metadata id on v5,v6,DSE_V2 / continuous page on DSE) / prepared (pk indexes v4+, result "
        "metadata v2+, metadata id v5/DSE_V2); ERROR for each of the 20 registered codes with its code-specific body "
        "(failure count before v5, reason map from v5), plus 0x1700 and an unassigned code; EVENT x3; SUPPORTED; READY; "
        "AUTHENTICATE; AUTH_CHALLENGE; AUTH_SUCCESS.  An enumerated part covers every (error code, version) pair with three fixed "
        "field variants.  Non-trivial: at least two header extras, or rows with >= 2 columns "
        "including a nested type or >= 2 metadata flags or stale caller metadata, or an ERROR with a code-specific body, or a prepared result with pk "
        "indexes, or an event / schema change with a target name.")
ASSUMPTIONS = [
    "spec/proto.py is the oracle encoder: written from native_protocol_v1..v5.spec and the DSE additions, shares no code with cassandra.protocol",
    "only well-formed bodies; SUPPORTED always carries CQL_VERSION; rows results carry at least one column; NO_METADATA only together with caller-supplied result metadata",
    "a null [bytes] auth token and an empty one are not distinguished (the authenticator API does not)",
    "DSE continuous-paging pages are not combined with NO_METADATA or a new metadata id (field order of those combinations is not pinned by an available specification text)",
    "cell values use the representative type set of spec.proto.encode_value (value codecs proper are C01/C02); set elements and map keys are unique",
    "frame header parsing is done by the reference (the driver's header reader is the subject of C05)",
]

VERSIONS = [1, 2, 3, 4, 5, 6, 0x41, 0x42]
_PREFIX = b"\xc0MP!"


def _compress(b):
    return _PREFIX + b


def _decompress(b):
    if not bytes(b).startswith(_PREFIX):
        raise ValueError("decompressor called on a body that was not compressed")
    return bytes(b)[len(_PREFIX):]


def _vclass(v):
    return {1: "v1", 2: "v2", 3: "v3", 4: "v4", 5: "v5", 6: "v6", 0x41: "dse1", 0x42: "dse2"}[v]


# ---------------------------------------------------------------------------------------------
# strategies
# ---------------------------------------------------------------------------------------------

_text = st.one_of(st.sampled_from(["", "ks", "é中", "\U0001f600q", "x" * 70]), st.text(max_size=16))
_ident = st.sampled_from(["ks", "ks1", "system", "Tbl", "t", "col_a", "v", "é中x", "k" * 48])
_hex = st.binary(max_size=20).map(bytes.hex)
_hex1 = st.binary(min_size=1, max_size=20).map(bytes.hex)
_i32 = st.one_of(st.sampled_from([0, 1, -1, 255, 256, 65535, 65536, 2 ** 31 - 1, -2 ** 31]), st.integers(-2 ** 31, 2 ** 31 - 1))
_i32nn = st.one_of(st.sampled_from([0, 1, 2, 255, 256, 65536, 2 ** 31 - 1]), st.integers(0, 2 ** 31 - 1))
_cl = st.integers(0, 10)
_addr = st.sampled_from(["127.0.0.1", "10.0.0.200", "255.255.255.255", "0.0.0.0", "::1", "fe80::1:2", "2001:db8::ff00:42:8329",
                         "ffff:ffff:ffff:ffff:ffff:ffff:ffff:ffff"])
_WRITE_TYPES = ["SIMPLE", "BATCH", "UNLOGGED_BATCH", "COUNTER", "BATCH_LOG", "CAS", "VIEW", "CDC"]
_WRITE_TYPE_VALUE = {"SIMPLE": 0, "BATCH": 1, "UNLOGGED_BATCH": 2, "COUNTER": 3, "BATCH_LOG": 4, "CAS": 5, "VIEW": 6, "CDC": 7}


def _scalars(v):
    s = ["int", "bigint", "varchar", "ascii", "blob", "boolean", "double", "float", "uuid", "timeuuid", "inet"]
    if v <= 2:
        s.append("text")
    if v >= 4:
        s += ["smallint", "tinyint"]
    return s


_KEYABLE = ["int", "bigint", "varchar", "uuid"]

_CUSTOM = {  # marshal class name -> the CQL type it denotes (Cassandra's own naming, AbstractType subclasses)
    "org.apache.cassandra.db.marshal.Int32Type": "int",
    "org.apache.cassandra.db.marshal.LongType": "bigint",
    "org.apache.cassandra.db.marshal.UTF8Type": "text",
    "org.apache.cassandra.db.marshal.BytesType": "blob",
    "org.apache.cassandra.db.marshal.BooleanType": "boolean",
}
_UNKNOWN_CUSTOM = "com.example.types.OpaqueType"


def _scalar_value(t):
    if t == "int":
        return _i32
    if t in ("bigint",):
        return st.one_of(st.sampled_from([0, -1, 2 ** 63 - 1, -2 ** 63, 2 ** 32]), st.integers(-2 ** 63, 2 ** 63 - 1))
    if t == "smallint":
        return st.integers(-2 ** 15, 2 ** 15 - 1)
    if t == "tinyint":
        return st.integers(-128, 127)
    if t in ("text", "varchar"):
        return _text
    if t == "ascii":
        return st.text(alphabet=st.characters(min_codepoint=32, max_codepoint=126), max_size=12)
    if t == "blob":
        return _hex
    if t == "boolean":
        return st.booleans()
    if t == "double":
        return st.floats(allow_nan=False, allow_infinity=False)
    if t == "float":
        return st.floats(width=32, allow_nan=False, allow_infinity=False)
    if t in ("uuid", "timeuuid"):
        return st.binary(min_size=16, max_size=16).map(bytes.hex)
    if t == "inet":
        return _addr
    raise ValueError(t)


@st.composite
def _type_tree(draw, v, depth):
    """a type tree the version can carry; nested types only from v3 on"""
    kinds = ["scalar", "scalar", "scalar", "list", "set", "map"]
    if v >= 3 and depth > 0:
        kinds += ["tuple", "udt", "nested"]
    kinds.append("custom")
    k = draw(st.sampled_from(kinds))
    if k == "scalar" or depth == 0:
        return {"t": draw(st.sampled_from(_scalars(v)))}
    if k == "list":
        return {"t": "list", "of": {"t": draw(st.sampled_from(_scalars(v)))}}
    if k == "set":
        return {"t": "set", "of": {"t": draw(st.sampled_from(_KEYABLE))}}
    if k == "map":
        return {"t": "map", "k": {"t": draw(st.sampled_from(_KEYABLE))}, "v": {"t": draw(st.sampled_from(_scalars(v)))}}
    if k == "tuple":
        return {"t": "tuple", "of": draw(st.lists(_type_tree(v, depth - 1), min_size=1, max_size=3))}
    if k == "udt":
        n = draw(st.integers(1, 3))
        return {"t": "udt", "ks": draw(st.sampled_from(["ks1", "ks2"])), "name": draw(st.sampled_from(["udt_a", "udt_b", "Addr"])),
                "fields": [["f%d" % i, draw(_type_tree(v, depth - 1))] for i in range(n)]}
    if k == "nested":
        inner = draw(_type_tree(v, depth - 1))
        if draw(st.booleans()):
            return {"t": "list", "of": inner}
        return {"t": "map", "k": {"t": draw(st.sampled_from(_KEYABLE))}, "v": inner}
    return {"t": "custom", "cls": draw(st.sampled_from(sorted(_CUSTOM) + [_UNKNOWN_CUSTOM]))}


def _effective(tree):
    """custom marshal classes denote ordinary CQL types"""
    if tree["t"] == "custom":
        if tree["cls"] in _CUSTOM:
            return {"t": _CUSTOM[tree["cls"]]}
        return {"t": "blob"}  # unknown class: opaque bytes
    return tree


def _deep(tree):
    """the type tree with every custom node replaced by the type it denotes"""
    tree = _effective(tree)
    t = tree["t"]
    if t in ("list", "set"):
        return {"t": t, "of": _deep(tree["of"])}
    if t == "map":
        return {"t": t, "k": _deep(tree["k"]), "v": _deep(tree["v"])}
    if t == "tuple":
        return {"t": t, "of": [_deep(x) for x in tree["of"]]}
    if t == "udt":
        return {"t": t, "ks": tree["ks"], "name": tree["name"], "fields": [[n, _deep(ft)] for n, ft in tree["fields"]]}
    return tree


@st.composite
def _value(draw, tree, nullable=True):
    opaque = tree["t"] == "custom" and tree["cls"] not in _CUSTOM
    tree = _effective(tree)
    t = tree["t"]
    if nullable and draw(st.integers(0, 5)) == 0:
        return None
    if t in ("list",):
        return draw(st.lists(_value(tree["of"], nullable=False), max_size=3))
    if t == "set":
        return draw(st.lists(_scalar_value(tree["of"]["t"]), max_size=3, unique=True))
    if t == "map":
        keys = draw(st.lists(_scalar_value(tree["k"]["t"]), max_size=3, unique=True))
        return [[k, draw(_value(tree["v"], nullable=False))] for k in keys]
    if t == "tuple":
        return [draw(_value(x)) for x in tree["of"]]
    if t == "udt":
        return [draw(_value(ft)) for _n, ft in tree["fields"]]
    if opaque:
        # zero-length cells of an unrecognised class fall under the driver's documented "empty value" convention
        # (value codecs are C01/C02); keep the opaque bytes non-empty
        return draw(_hex1)
    return draw(_scalar_value(t))


@st.composite
def _columns(draw, v, lo=1, hi=4, depth=2):
    n = draw(st.integers(lo, hi))
    same = draw(st.booleans())
    ks, tb = draw(_ident), draw(_ident)
    cols = []
    for i in range(n):
        cols.append({"ks": ks if same else draw(_ident), "table": tb if same else draw(_ident),
                     "name": draw(st.one_of(_ident, st.just("c%d" % i))), "type": draw(_type_tree(v, depth))})
    return cols


@st.composite
def _rows_md(draw, v, for_prepared=False):
    cols = draw(_columns(v))
    md = {"columns": cols, "global_spec": None, "paging_state": None, "no_metadata": False, "new_metadata_id": None,
          "continuous_page": None, "last_page": False}
    same = all((c["ks"], c["table"]) == (cols[0]["ks"], cols[0]["table"]) for c in cols)
    if same:
        md["global_spec"] = draw(st.booleans())  # a server may or may not use the compact form
    else:
        md["global_spec"] = False
    if for_prepared:
        return md
    if v >= 2:
        md["paging_state"] = draw(st.one_of(st.none(), _hex1, st.just("")))
    md["no_metadata"] = v >= 2 and draw(st.integers(0, 3)) == 0
    if proto.has_result_metadata_id(v) and not md["no_metadata"] and draw(st.integers(0, 2)) == 0:
        md["new_metadata_id"] = draw(_hex1)
    if proto.has_continuous_paging(v) and not md["no_metadata"] and md["new_metadata_id"] is None and draw(st.integers(0, 2)) == 0:
        md["continuous_page"] = draw(st.one_of(st.sampled_from([1, 2, 2 ** 31 - 1]), st.integers(1, 2 ** 31 - 1)))
        md["last_page"] = draw(st.booleans())
    # what the caller hands to decode_message as result_metadata (ResponseFuture: [] for simple statements, the
    # metadata kept from the PREPARE for bound ones).  With NO_METADATA it must describe the rows; otherwise the
    # response describes itself and the caller's copy may be absent, empty, identical or STALE (table altered
    # after the prepare: a column added / dropped / renamed since) -- with or without Metadata_changed.
    if md["no_metadata"]:
        md["caller"] = "same"
    else:
        mode = draw(st.sampled_from(["none", "empty", "same", "stale", "stale"] +
                                    (["stale", "stale"] if md["new_metadata_id"] is not None else [])))
        if mode == "stale":
            how = draw(st.sampled_from(["added", "dropped", "renamed"] if len(cols) >= 2 else ["dropped", "renamed"]))
            if how == "added":       # the table gained its last column after the prepare
                stale = [dict(c) for c in cols[:-1]]
            elif how == "dropped":   # a column of the prepared metadata no longer exists
                extra = {"ks": cols[0]["ks"], "table": cols[0]["table"], "name": "old_c", "type": draw(_type_tree(v, 1))}
                pos = draw(st.integers(0, len(cols)))
                stale = [dict(c) for c in cols[:pos]] + [extra] + [dict(c) for c in cols[pos:]]
            else:
                stale = [dict(c, name="old_" + c["name"]) for c in cols]
            md["caller"] = {"how": how, "columns": stale}
        else:
            md["caller"] = mode
    return md


_CHANGES = ["CREATED", "UPDATED", "DROPPED"]


@st.composite
def _schema_change(draw, v):
    d = {"change": draw(st.sampled_from(_CHANGES)), "keyspace": draw(_ident), "name": None, "args": None}
    targets = ["KEYSPACE", "TABLE"]
    if v >= 3:
        targets.append("TYPE")
    if v >= 4:
        targets += ["FUNCTION", "AGGREGATE"]
    d["target"] = draw(st.sampled_from(targets))
    if d["target"] != "KEYSPACE":
        d["name"] = draw(_ident)
    if d["target"] in ("FUNCTION", "AGGREGATE"):
        d["args"] = draw(st.lists(st.sampled_from(["int", "text", "list<int>", "frozen<tuple<int, text>>"]), max_size=3))
    return d


def _codes_for(v):
    """error codes a server speaking version v can send (spec sections 9 of v1..v5, DSE additions) + one unassigned"""
    codes = [0x0000, 0x000A, 0x0100, 0x1000, 0x1001, 0x1002, 0x1003, 0x1100, 0x1200, 0x2000, 0x2100, 0x2200, 0x2300,
             0x2400, 0x2500, 0x7777]
    if v >= 4:
        codes += [0x1300, 0x1400, 0x1500]
    if v >= 5:
        codes += [0x1600, 0x1700]
    if proto.is_dse(v):
        codes.append(0x8000)
    return codes


def _error_matrix_cases(v):
    """every (code, version) pair with three fixed field variants: zeros, boundary values, mixed + header extras"""
    for code in _codes_for(v):
        for variant in range(3):
            big = [0, 2 ** 31 - 1, 3][variant]
            d = {"op": "ERROR", "code": code, "message": ["", "é中 \U0001f600 \"quoted\"", "unconfigured table t"][variant]}
            cl = [0, 10, 6][variant]
            if code == 0x1000:
                d.update(consistency=cl, required=big, alive=[0, 1, 2][variant])
            elif code in (0x1100, 0x1200, 0x1300, 0x1500, 0x1700):
                d.update(consistency=cl, received=[0, 1, 2][variant], blockfor=big)
                if code in (0x1300, 0x1500):
                    if proto.has_reason_map(v):
                        d["reasons"] = [[], [["127.0.0.1", 0], ["::1", 0xFFFF]], [["10.0.0.200", 2]]][variant]
                    else:
                        d["failures"] = big
                if code in (0x1100, 0x1500):
                    d["write_type"] = ["SIMPLE", "CAS", "BATCH_LOG"][variant]
                    if code == 0x1100 and d["write_type"] == "CAS" and v in (5, 6):
                        d["contentions"] = 7
                if code in (0x1200, 0x1300):
                    d["data_present"] = variant != 1
            elif code == 0x1400:
                d.update(keyspace="ks", function=["f", "é中x", "Fn"][variant], arg_types=[[], ["int", "text"], ["map<int, text>"]][variant])
            elif code == 0x2400:
                d.update(keyspace="ks", table=["", "t", "Tbl"][variant])
            elif code == 0x2500:
                d["id"] = ["00", "ab" * 16, "ff" * 20][variant]
            case = {"version": v, "stream": [0, 127, 1][variant], "resp": d, "trace": None, "warnings": None, "payload": None,
                    "compress": False}
            if variant == 2:
                case["trace"] = "0123456789abcdef0123456789abcdef"
                if v >= 4:
                    case["warnings"] = ["w1", "w2"]
                    case["payload"] = [["k", "00ff"]]
            yield case


@st.composite
def _error(draw, v):
    code = draw(st.sampled_from(_codes_for(v)))
    d = {"op": "ERROR", "code": code, "message": draw(_text)}
    if code == 0x1000:
        d.update(consistency=draw(_cl), required=draw(_i32nn), alive=draw(_i32nn))
    elif code in (0x1100, 0x1200, 0x1300, 0x1500, 0x1700):
        d.update(consistency=draw(_cl), received=draw(_i32nn), blockfor=draw(_i32nn))
        if code in (0x1300, 0x1500):
            if proto.has_reason_map(v):
                addrs = draw(st.lists(_addr, max_size=3, unique=True))
                d["reasons"] = [[a, draw(st.sampled_from([0, 1, 2, 3, 0xFFFF]))] for a in addrs]
            else:
                d["failures"] = draw(_i32nn)
        if code in (0x1100, 0x1500):
            d["write_type"] = draw(st.sampled_from(_WRITE_TYPES))
            if code == 0x1100 and d["write_type"] == "CAS" and v in (5, 6) and draw(st.booleans()):
                d["contentions"] = draw(st.integers(0, 65535))
        if code in (0x1200, 0x1300):
            d["data_present"] = draw(st.booleans())
    elif code == 0x1400:
        d.update(keyspace=draw(_ident), function=draw(_ident), arg_types=draw(st.lists(st.sampled_from(["int", "text", "map<int, text>"]), max_size=3)))
    elif code == 0x2400:
        d.update(keyspace=draw(_ident), table=draw(st.one_of(st.just(""), _ident)))
    elif code == 0x2500:
        d["id"] = draw(_hex1)
    return d


@st.composite
def _response(draw, v):
    ops = ["rows", "rows", "rows", "prepared", "ERROR", "ERROR", "ERROR", "void", "set_keyspace", "schema_change",
           "EVENT", "EVENT", "SUPPORTED", "READY", "AUTHENTICATE"]
    if v >= 2:
        ops += ["AUTH_CHALLENGE", "AUTH_SUCCESS"]
    op = draw(st.sampled_from(ops))
    if op == "ERROR":
        return draw(_error(v))
    if op == "rows":
        md = draw(_rows_md(v))
        n = draw(st.integers(0, 4))
        rows = [[draw(_value(c["type"])) for c in md["columns"]] for _ in range(n)]
        return {"op": "RESULT", "kind": "rows", "metadata": md, "rows": rows}
    if op == "prepared":
        bind = {"columns": draw(_columns(v, 0, 3, 1)), "pk_indexes": None, "global_spec": None}
        if bind["columns"] and not all((c["ks"], c["table"]) == (bind["columns"][0]["ks"], bind["columns"][0]["table"]) for c in bind["columns"]):
            bind["global_spec"] = False
        if v >= 4:
            bind["pk_indexes"] = draw(st.lists(st.integers(0, max(0, len(bind["columns"]) - 1)), max_size=len(bind["columns"]), unique=True))
        d = {"op": "RESULT", "kind": "prepared", "id": draw(_hex1), "result_metadata_id": None, "bind": bind, "result": None}
        if proto.has_result_metadata_id(v):
            d["result_metadata_id"] = draw(_hex1)
        if v >= 2:
            d["result"] = draw(st.one_of(st.none(), _rows_md(v, for_prepared=True)))
        return d
    if op == "void":
        return {"op": "RESULT", "kind": "void"}
    if op == "set_keyspace":
        return {"op": "RESULT", "kind": "set_keyspace", "keyspace": draw(_ident)}
    if op == "schema_change":
        d = draw(_schema_change(v))
        d.update(op="RESULT", kind="schema_change")
        return d
    if op == "EVENT":
        t = draw(st.sampled_from(["TOPOLOGY_CHANGE", "STATUS_CHANGE", "SCHEMA_CHANGE"]))
        if t == "SCHEMA_CHANGE":
            d = draw(_schema_change(v))
            d.update(op="EVENT", type=t)
            return d
        change = draw(st.sampled_from(["NEW_NODE", "REMOVED_NODE", "MOVED_NODE"] if t == "TOPOLOGY_CHANGE" else ["UP", "DOWN"]))
        return {"op": "EVENT", "type": t, "change": change, "address": [draw(_addr), draw(st.sampled_from([9042, 0, 65535, 2 ** 31 - 1]))]}
    if op == "SUPPORTED":
        opts = [["CQL_VERSION", draw(st.lists(st.sampled_from(["3.0.0", "3.4.4", "3.4.5"]), min_size=1, max_size=2, unique=True))]]
        if draw(st.booleans()):
            opts.append(["COMPRESSION", draw(st.lists(st.sampled_from(["snappy", "lz4"]), max_size=2, unique=True))])
        if draw(st.booleans()):
            opts.append(["PROTOCOL_VERSIONS", ["3/v3", "4/v4", "5/v5-beta"]])
        for k in draw(st.lists(st.text(min_size=1, max_size=6), max_size=2, unique=True)):
            if k not in ("CQL_VERSION", "COMPRESSION", "PROTOCOL_VERSIONS"):
                opts.append([k, draw(st.lists(_text, max_size=2))])
        if draw(st.booleans()):
            opts = opts[1:] + opts[:1]
        return {"op": "SUPPORTED", "options": opts}
    if op == "READY":
        return {"op": "READY"}
    if op == "AUTHENTICATE":
        return {"op": "AUTHENTICATE", "authenticator": draw(st.sampled_from(
            ["org.apache.cassandra.auth.PasswordAuthenticator", "com.datastax.bdp.cassandra.auth.DseAuthenticator", ""]))}
    # tokens: SASL payloads are opaque bytes
    tok = draw(st.one_of(st.none(), _hex, st.text(max_size=10).map(lambda s: s.encode("utf-8").hex()),
                         st.sampled_from(["ff", "00ff80", "c328"])))
    return {"op": op, "token": tok}


@st.composite
def s_response(draw):
    v = draw(st.sampled_from(VERSIONS))
    resp = draw(_response(v))
    if resp["op"] == "EVENT":
        stream = -1
    elif v <= 2:
        stream = draw(st.one_of(st.sampled_from([0, 1, 127]), st.integers(0, 127)))
    else:
        stream = draw(st.one_of(st.sampled_from([0, 1, 127, 128, 256, 32767]), st.integers(0, 32767)))
    case = {"version": v, "stream": stream, "resp": resp, "trace": None, "warnings": None, "payload": None, "compress": False}
    if draw(st.booleans()):
        case["trace"] = draw(st.binary(min_size=16, max_size=16)).hex()
    if v >= 4:
        if draw(st.integers(0, 2)) == 0:
            case["warnings"] = draw(st.lists(_text, max_size=3))
        if draw(st.integers(0, 2)) == 0:
            ps = draw(st.lists(st.tuples(st.text(max_size=8), st.one_of(st.none(), _hex)), max_size=3, unique_by=lambda p: p[0]))
            case["payload"] = [list(p) for p in ps]
    if proto.has_frame_compression(v):
        case["compress"] = draw(st.integers(0, 3)) == 0
    return case


# ---------------------------------------------------------------------------------------------
# case -> encoder description, expected values
# ---------------------------------------------------------------------------------------------

def _unhex(x):
    return None if x is None else bytes.fromhex(x)


def _py(tree, jv):
    """JSON case value -> the value shape spec.proto.encode_value takes"""
    if jv is None:
        return None
    tree = _effective(tree)
    t = tree["t"]
    if t == "blob":
        return bytes.fromhex(jv)
    if t in ("uuid", "timeuuid"):
        return uuid.UUID(hex=jv)
    if t in ("list", "set"):
        return [_py(tree["of"], x) for x in jv]
    if t == "map":
        return [[_py(tree["k"], k), _py(tree["v"], x)] for k, x in jv]
    if t == "tuple":
        return [_py(ft, x) for ft, x in zip(tree["of"], jv)]
    if t == "udt":
        return [_py(ft, x) for (_n, ft), x in zip(tree["fields"], jv)]
    return jv


def _canon_key(x):
    return repr(x)


def _want(tree, jv):
    """expected normal form of a decoded cell"""
    if jv is None:
        return None
    tree = _effective(tree)
    t = tree["t"]
    if t == "inet":
        return str(ipaddress.ip_address(jv))
    if t == "list":
        return [_want(tree["of"], x) for x in jv]
    if t == "set":
        return sorted((_want(tree["of"], x) for x in jv), key=_canon_key)
    if t == "map":
        return [[_want(tree["k"], k), _want(tree["v"], x)] for k, x in jv]
    if t == "tuple":
        return [_want(ft, x) for ft, x in zip(tree["of"], jv)]
    if t == "udt":
        return [_want(ft, x) for (_n, ft), x in zip(tree["fields"], jv)]
    return jv


class _Shape(Exception):
    pass


def _got(tree, pv):
    """normal form of what the driver returned; raises _Shape when the Python type is not the documented one"""
    if pv is None:
        return None
    tree = _effective(tree)
    t = tree["t"]
    if t in ("int", "bigint", "smallint", "tinyint"):
        if isinstance(pv, bool) or not isinstance(pv, int):
            raise _Shape("%s decoded as %r" % (t, type(pv).__name__))
        return pv
    if t in ("text", "varchar", "ascii"):
        if not isinstance(pv, str):
            raise _Shape("%s decoded as %r" % (t, type(pv).__name__))
        return pv
    if t == "blob":
        if not isinstance(pv, (bytes, bytearray, memoryview)):
            raise _Shape("blob decoded as %r" % type(pv).__name__)
        return bytes(pv).hex()
    if t == "boolean":
        if not isinstance(pv, bool):
            raise _Shape("boolean decoded as %r" % type(pv).__name__)
        return pv
    if t in ("double", "float"):
        if not isinstance(pv, float):
            raise _Shape("%s decoded as %r" % (t, type(pv).__name__))
        return pv
    if t in ("uuid", "timeuuid"):
        if not isinstance(pv, uuid.UUID):
            raise _Shape("uuid decoded as %r" % type(pv).__name__)
        return pv.hex
    if t == "inet":
        return str(ipaddress.ip_address(pv))
    if t == "list":
        return [_got(tree["of"], x) for x in pv]
    if t == "set":
        return sorted((_got(tree["of"], x) for x in pv), key=_canon_key)
    if t == "map":
        return [[_got(tree["k"], k), _got(tree["v"], x)] for k, x in pv.items()]
    if t == "tuple":
        return [_got(ft, x) for ft, x in zip(tree["of"], tuple(pv))]
    if t == "udt":
        vals = tuple(pv)
        if len(vals) != len(tree["fields"]):
            raise _Shape("udt with %d fields decoded to %d values" % (len(tree["fields"]), len(vals)))
        return [_got(ft, x) for (_n, ft), x in zip(tree["fields"], vals)]
    raise _Shape("unexpected type %r" % t)


def _want_cql(tree):
    if tree["t"] == "custom":
        if tree["cls"] in _CUSTOM:
            return _CUSTOM[tree["cls"]]
        return None  # no CQL notation for an unknown class: not compared
    t = tree["t"]
    if t in ("list", "set"):
        inner = _want_cql(tree["of"])
        return None if inner is None else "%s<%s>" % (t, inner)
    if t == "map":
        a, b = _want_cql(tree["k"]), _want_cql(tree["v"])
        return None if a is None or b is None else "map<%s, %s>" % (a, b)
    if t == "tuple":
        inner = [_want_cql(x) for x in tree["of"]]
        return None if None in inner else "frozen<tuple<%s>>" % ", ".join(inner)
    if t == "udt":
        return "frozen<%s>" % proto.quote_ident(tree["name"])
    return t


def _has_nested(tree):
    return tree["t"] in ("list", "set", "map", "tuple", "udt")


def _driver_type(tree):
    """driver type class for caller-supplied result metadata (input construction, not oracle)"""
    from cassandra import cqltypes as T
    t = tree["t"]
    simple = {"int": T.Int32Type, "bigint": T.LongType, "text": T.UTF8Type, "varchar": T.VarcharType, "ascii": T.AsciiType,
              "blob": T.BytesType, "boolean": T.BooleanType, "double": T.DoubleType, "float": T.FloatType, "uuid": T.UUIDType,
              "timeuuid": T.TimeUUIDType, "inet": T.InetAddressType, "smallint": T.ShortType, "tinyint": T.ByteType}
    if t in simple:
        return simple[t]
    if t == "custom":
        return T.lookup_casstype(tree["cls"])
    if t == "list":
        return T.ListType.apply_parameters((_driver_type(tree["of"]),))
    if t == "set":
        return T.SetType.apply_parameters((_driver_type(tree["of"]),))
    if t == "map":
        return T.MapType.apply_parameters((_driver_type(tree["k"]), _driver_type(tree["v"])))
    if t == "tuple":
        return T.TupleType.apply_parameters(tuple(_driver_type(x) for x in tree["of"]))
    if t == "udt":
        return T.UserType.make_udt_class(tree["ks"], tree["name"], tuple(n for n, _ in tree["fields"]),
                                         tuple(_driver_type(ft) for _, ft in tree["fields"]))
    raise ValueError(t)


def _md_desc(md):
    d = dict(md)
    d["paging_state"] = _unhex(md.get("paging_state"))
    d["new_metadata_id"] = _unhex(md.get("new_metadata_id"))
    if md.get("no_metadata"):
        d["column_count"] = len(md["columns"])
    return d


def _desc(case):
    """JSON response description -> spec.proto.encode_response description (bytes instead of hex, cells encoded)"""
    r, v = case["resp"], case["version"]
    d = dict(r)
    op = r["op"]
    if op in ("AUTH_CHALLENGE", "AUTH_SUCCESS"):
        d["token"] = _unhex(r["token"])
    elif op == "ERROR" and r["code"] == 0x2500:
        d["id"] = bytes.fromhex(r["id"])
    elif op == "RESULT" and r["kind"] == "rows":
        md = r["metadata"]
        d["metadata"] = _md_desc(md)
        d["rows"] = [[proto.encode_value(_deep(c["type"]), _py(c["type"], x), v) for c, x in zip(md["columns"], row)]
                     for row in r["rows"]]
    elif op == "RESULT" and r["kind"] == "prepared":
        d["id"] = bytes.fromhex(r["id"])
        d["result_metadata_id"] = _unhex(r["result_metadata_id"])
        d["result"] = _md_desc(r["result"]) if r.get("result") else None
    return d


_ERROR_CLASS = {
    0x0000: "ServerError", 0x000A: "ProtocolException", 0x0100: "BadCredentials", 0x1000: "UnavailableErrorMessage",
    0x1001: "OverloadedErrorMessage", 0x1002: "IsBootstrappingErrorMessage", 0x1003: "TruncateError",
    0x1100: "WriteTimeoutErrorMessage", 0x1200: "ReadTimeoutErrorMessage", 0x1300: "ReadFailureMessage",
    0x1400: "FunctionFailureMessage", 0x1500: "WriteFailureMessage", 0x1600: "CDCWriteException",
    0x2000: "SyntaxException", 0x2100: "UnauthorizedErrorMessage", 0x2200: "InvalidRequestException",
    0x2300: "ConfigurationException", 0x2400: "AlreadyExistsException", 0x2500: "PreparedQueryNotFound",
    0x8000: "ClientWriteError",
}
_EXCEPTION = {  # documented mapping to cassandra.* exceptions; everything else surfaces as the message itself
    0x1000: "Unavailable", 0x1100: "WriteTimeout", 0x1200: "ReadTimeout", 0x1300: "ReadFailure", 0x1400: "FunctionFailure",
    0x1500: "WriteFailure", 0x2100: "Unauthorized", 0x2200: "InvalidRequest", 0x2400: "AlreadyExists",
}


# ---------------------------------------------------------------------------------------------
# interpret
# ---------------------------------------------------------------------------------------------

def interpret(case, ctx):
    import cassandra
    from cassandra.protocol import _ProtocolHandler
    v, r = case["version"], case["resp"]
    op = r["op"]
    kind = r.get("kind")
    K = "C04." + (op if op != "RESULT" else "RESULT." + kind)
    if op == "ERROR":
        K = "C04.ERROR.%04x" % r["code"]
    trace = uuid.UUID(hex=case["trace"]) if case["trace"] else None
    payload = [(k, _unhex(x)) for k, x in case["payload"]] if case["payload"] is not None else None
    frame = proto.encode_response(_desc(case), v, case["stream"], trace_id=trace, warnings=case["warnings"],
                                  custom_payload=payload, compress=_compress if case["compress"] else None)
    h = proto.parse_frame_header(frame)
    body = frame[h["header_size"]:]
    assert h["length"] == len(body) and h["direction"] == "response"

    result_metadata = None
    if op == "RESULT" and kind == "rows":
        caller = r["metadata"].get("caller", "same" if r["metadata"]["no_metadata"] else "none")
        if caller == "empty":
            result_metadata = []
        elif caller == "same":
            result_metadata = [(c["ks"], c["table"], c["name"], _driver_type(c["type"])) for c in r["metadata"]["columns"]]
        elif isinstance(caller, dict):
            result_metadata = [(c["ks"], c["table"], c["name"], _driver_type(c["type"])) for c in caller["columns"]]
            ctx.label("caller-md:stale:" + caller["how"])
            if r["metadata"]["new_metadata_id"] is not None:
                ctx.label("caller-md:stale+metadata_changed")
        ctx.label("caller-md:" + (caller if isinstance(caller, str) else "stale"))

    ctx.label(op if op != "RESULT" else "RESULT:" + kind, _vclass(v))
    extras = (case["trace"] is not None) + (case["warnings"] is not None) + (case["payload"] is not None) + bool(case["compress"])
    feat = []
    if op == "AUTH_SUCCESS" and r["token"] is not None:
        try:
            bytes.fromhex(r["token"]).decode("utf-8")
        except UnicodeDecodeError:
            feat.append("token=non-utf8")
    msg = None
    with ctx.driver([K + ".decode"] + feat):
        msg = _ProtocolHandler.decode_message(v, {}, h["stream"], h["flags"], h["opcode"], body, _decompress, result_metadata)
    if msg is None:
        ctx.nontrivial(extras >= 2)
        return

    def eq(field, got, want, extra=()):
        return ctx.check(got == want, [K + "." + field] + list(extra), "%s: decoded %r, server sent %r (v=0x%02x)" % (field, got, want, v))

    # ---- frame-level extras
    eq("stream_id", getattr(msg, "stream_id", None), case["stream"])
    eq("trace_id", getattr(msg, "trace_id", None), trace)
    eq("warnings", getattr(msg, "warnings", None), case["warnings"])
    eq("custom_payload", getattr(msg, "custom_payload", None), dict(payload) if payload is not None else None)
    nt = extras >= 2
    cname = type(msg).__name__

    if op == "READY":
        eq("class", cname, "ReadyMessage")
    elif op == "AUTHENTICATE":
        eq("class", cname, "AuthenticateMessage")
        eq("authenticator", msg.authenticator, r["authenticator"])
    elif op == "AUTH_CHALLENGE":
        eq("class", cname, "AuthChallengeMessage")
        eq("token", bytes(msg.challenge or b""), _unhex(r["token"]) or b"")
    elif op == "AUTH_SUCCESS":
        eq("class", cname, "AuthSuccessMessage")
        got = msg.token
        if isinstance(got, str):
            got = got.encode("utf-8")
        eq("token", bytes(got or b""), _unhex(r["token"]) or b"", feat)
    elif op == "SUPPORTED":
        eq("class", cname, "SupportedMessage")
        opts = dict((k, list(x)) for k, x in r["options"])
        eq("cql_versions", msg.cql_versions, opts.pop("CQL_VERSION"))
        eq("options", msg.options, opts)
    elif op == "EVENT":
        eq("class", cname, "EventMessage")
        eq("event_type", msg.event_type, r["type"])
        if r["type"] == "SCHEMA_CHANGE":
            _check_schema_change(ctx, K, msg.event_args, r, v)
            nt = nt or r["target"] != "KEYSPACE"
        else:
            args = msg.event_args
            eq("change_type", args.get("change_type"), r["change"])
            addr = args.get("address")
            ok = isinstance(addr, tuple) and len(addr) == 2
            if ctx.check(ok, [K + ".address"], "address decoded as %r" % (addr,)):
                eq("address", [str(ipaddress.ip_address(addr[0])), addr[1]], [str(ipaddress.ip_address(r["address"][0])), r["address"][1]])
            eq("args.keys", sorted(args), ["address", "change_type"])
            nt = True
    elif op == "ERROR":
        nt = _check_error(ctx, K, msg, r, v, eq) or nt
    elif kind == "void":
        eq("class", cname, "ResultMessage")
        eq("kind", msg.kind, 1)
    elif kind == "set_keyspace":
        eq("kind", msg.kind, 3)
        eq("keyspace", msg.new_keyspace, r["keyspace"])
    elif kind == "schema_change":
        eq("kind", msg.kind, 5)
        _check_schema_change(ctx, K, msg.schema_change_event, r, v)
        nt = nt or r["target"] != "KEYSPACE"
    elif kind == "rows":
        eq("kind", msg.kind, 2)
        nt = _check_rows(ctx, K, msg, r, v, eq) or nt
    elif kind == "prepared":
        eq("kind", msg.kind, 4)
        nt = _check_prepared(ctx, K, msg, r, v, eq) or nt
    if extras >= 2:
        ctx.label("extras>=2")
    ctx.nontrivial(nt)


def _check_schema_change(ctx, K, ev, r, v):
    want = {"change_type": r["change"], "keyspace": r["keyspace"], "target_type": r["target"]}
    if not ctx.check(isinstance(ev, dict), [K + ".event"], "schema change decoded as %r" % (ev,)):
        return
    got = dict(ev)
    t = r["target"]
    if t in ("FUNCTION", "AGGREGATE"):
        desc = got.pop(t.lower(), None)
        ok = desc is not None and getattr(desc, "name", None) == r["name"] and list(getattr(desc, "argument_types", [])) == list(r["args"])
        ctx.check(ok, [K + "." + t.lower()], "%s decoded as %r, server sent %s(%s)" % (t, desc, r["name"], r["args"]))
        ctx.check(type(desc).__name__ == ("UserFunctionDescriptor" if t == "FUNCTION" else "UserAggregateDescriptor"),
                  [K + "." + t.lower() + ".class"], "descriptor class %s" % type(desc).__name__)
    elif t != "KEYSPACE":
        want[t.lower()] = r["name"]
    ctx.check(got == want, [K + ".event", "target=" + t], "schema change decoded %r, server sent %r (v=0x%02x)" % (got, want, v))
    ctx.label("schema:" + t)


def _check_error(ctx, K, msg, r, v, eq):
    import cassandra
    code = r["code"]
    eq("class", type(msg).__name__, _ERROR_CLASS.get(code, "ErrorMessage"))
    eq("code", msg.code, code)
    eq("message", msg.message, r["message"])
    exc = None
    with ctx.driver([K + ".to_exception"]):
        exc = msg.to_exception()
    if exc is None:
        return True
    ctx.label("error:%04x" % code)
    want_exc = _EXCEPTION.get(code)
    if want_exc is None:
        ctx.check(exc is msg, [K + ".exception"], "to_exception() returned %r, expected the message itself" % (exc,))
        if code == 0x2500:
            eq("info", msg.info, bytes.fromhex(r["id"]))
            return True
        return False
    if not ctx.check(type(exc) is getattr(cassandra, want_exc), [K + ".exception"],
                     "to_exception() is %s, documented type is cassandra.%s" % (type(exc).__name__, want_exc)):
        return True
    if code != 0x2400:
        ctx.check(r["message"] in str(exc), [K + ".exception.message"], "server message %r not in %r" % (r["message"], str(exc)))

    def f(name, want):
        got = getattr(exc, name, "<missing>")
        ctx.check(got == want and type(got) is type(want), [K + ".exception." + name],
                  "%s.%s = %r, server sent %r (v=0x%02x)" % (want_exc, name, got, want, v))

    if code == 0x1000:
        f("consistency", r["consistency"]), f("required_replicas", r["required"]), f("alive_replicas", r["alive"])
    elif code in (0x1100, 0x1200, 0x1300, 0x1500):
        f("consistency", r["consistency"]), f("received_responses", r["received"]), f("required_responses", r["blockfor"])
        if code in (0x1100, 0x1500):
            f("write_type", _WRITE_TYPE_VALUE[r["write_type"]])
        if code in (0x1200, 0x1300):
            f("data_retrieved", r["data_present"])
        if code in (0x1300, 0x1500):
            if proto.has_reason_map(v):
                f("failures", len(r["reasons"]))
                got = getattr(exc, "error_code_map", None)
                norm = None
                if isinstance(got, dict):
                    norm = dict((str(ipaddress.ip_address(a)), c) for a, c in got.items())
                want = dict((str(ipaddress.ip_address(a)), c) for a, c in r["reasons"])
                ctx.check(norm == want, [K + ".exception.error_code_map"], "error_code_map %r, server sent %r" % (got, want))
                ctx.label("reason-map")
            else:
                f("failures", r["failures"])
                ctx.check(getattr(exc, "error_code_map", None) is None, [K + ".exception.error_code_map"],
                          "error_code_map %r before v5" % (getattr(exc, "error_code_map", None),))
    elif code == 0x1400:
        f("keyspace", r["keyspace"]), f("function", r["function"]), f("arg_types", list(r["arg_types"]))
    elif code == 0x2400:
        f("keyspace", r["keyspace"]), f("table", r["table"])
    return code not in (0x2100, 0x2200)


def _check_columns(ctx, K, field, got, cols):
    """got: list of (ks, table, name, typeclass)"""
    if not ctx.check(got is not None and len(got) == len(cols), [K + "." + field + ".count"],
                     "%s has %r entries, server sent %d columns" % (field, None if got is None else len(got), len(cols))):
        return
    for i, (g, c) in enumerate(zip(got, cols)):
        ctx.check(tuple(g[:3]) == (c["ks"], c["table"], c["name"]), [K + "." + field + ".names"],
                  "column %d decoded as %r, server sent %r" % (i, tuple(g[:3]), (c["ks"], c["table"], c["name"])))
        want = _want_cql(c["type"])
        if want is not None:
            gt = None
            with ctx.driver([K + "." + field + ".type", "cql_parameterized_type"]):
                gt = g[3].cql_parameterized_type()
            if gt is not None:
                ctx.check(gt == want, [K + "." + field + ".type", c["type"]["t"]], "column %d type decoded as %r, server sent %r" % (i, gt, want))


def _check_rows(ctx, K, msg, r, v, eq):
    md = r["metadata"]
    cols = md["columns"]
    if md["no_metadata"]:
        eq("column_metadata", msg.column_metadata, None, ["no_metadata"])
    else:
        _check_columns(ctx, K, "column_metadata", msg.column_metadata, cols)
    eq("column_names", msg.column_names, [c["name"] for c in cols])
    types = msg.column_types
    if ctx.check(types is not None and len(types) == len(cols), [K + ".column_types.count"], "column_types %r" % (types,)):
        for i, c in enumerate(cols):
            want = _want_cql(c["type"])
            if want is not None:
                ctx.check(types[i].cql_parameterized_type() == want, [K + ".column_types", c["type"]["t"]],
                          "column %d type %r, server sent %r" % (i, types[i].cql_parameterized_type(), want))
    eq("paging_state", msg.paging_state, _unhex(md["paging_state"]))
    eq("result_metadata_id", getattr(msg, "result_metadata_id", None), _unhex(md["new_metadata_id"]))
    if md["continuous_page"] is not None:
        eq("continuous_paging_seq", msg.continuous_paging_seq, md["continuous_page"])
        eq("continuous_paging_last", bool(msg.continuous_paging_last), bool(md["last_page"]))
        ctx.label("continuous-page")
    else:
        eq("continuous_paging_seq", msg.continuous_paging_seq, None)
    rows = msg.parsed_rows
    if ctx.check(rows is not None and len(rows) == len(r["rows"]), [K + ".rows.count"],
                 "%r rows decoded, server sent %d" % (None if rows is None else len(rows), len(r["rows"]))):
        for ri, (grow, wrow) in enumerate(zip(rows, r["rows"])):
            if not ctx.check(len(grow) == len(cols), [K + ".rows.width"], "row %d has %d cells for %d columns" % (ri, len(grow), len(cols))):
                break
            for ci, c in enumerate(cols):
                try:
                    g = _got(c["type"], grow[ci])
                except _Shape as e:
                    ctx.fail([K + ".rows.cell.shape", _effective(c["type"])["t"]], "row %d col %d: %s" % (ri, ci, e))
                    continue
                except (TypeError, ValueError, AttributeError) as e:
                    ctx.fail([K + ".rows.cell.shape", _effective(c["type"])["t"]], "row %d col %d: %r -> %s" % (ri, ci, grow[ci], e))
                    continue
                w = _want(c["type"], wrow[ci])
                ctx.check(g == w, [K + ".rows.cell", _effective(c["type"])["t"]],
                          "row %d col %d (%s): decoded %r, server sent %r (v=0x%02x)" % (ri, ci, _want_cql(c["type"]), g, w, v))
    flags = (md["paging_state"] is not None) + bool(md["no_metadata"]) + (md["new_metadata_id"] is not None) + \
            (md["continuous_page"] is not None) + bool(md["global_spec"])
    for name, on in (("md:paging_state", md["paging_state"] is not None), ("md:no_metadata", md["no_metadata"]),
                     ("md:new_metadata_id", md["new_metadata_id"] is not None), ("md:global_spec", md["global_spec"])):
        if on:
            ctx.label(name)
    nested = any(_has_nested(c["type"]) for c in cols)
    if nested:
        ctx.label("rows:nested-type")
    if any(x is None for row in r["rows"] for x in row):
        ctx.label("rows:null-cell")
    return (len(cols) >= 2 and nested) or flags >= 2 or isinstance(md.get("caller"), dict)


def _check_prepared(ctx, K, msg, r, v, eq):
    eq("query_id", msg.query_id, bytes.fromhex(r["id"]))
    eq("result_metadata_id", msg.result_metadata_id, _unhex(r["result_metadata_id"]))
    _check_columns(ctx, K, "bind_metadata", msg.bind_metadata, r["bind"]["columns"])
    if v >= 4:
        eq("pk_indexes", msg.pk_indexes, list(r["bind"]["pk_indexes"]))
    else:
        eq("pk_indexes", msg.pk_indexes, None)
    res = r.get("result")
    if res is None or v < 2:
        eq("column_metadata", msg.column_metadata, None)
    else:
        _check_columns(ctx, K, "column_metadata", msg.column_metadata, res["columns"])
        ctx.label("prepared:result-metadata")
    return bool(v >= 4 and r["bind"]["pk_indexes"]) or bool(res)


def parts(tier):
    return [EnumPart("error-matrix", VERSIONS, _error_matrix_cases, interpret),
            hyp_part("responses", s_response, interpret, tier, quick=600, thorough=12000, quick_shards=8, thorough_shards=16)]
