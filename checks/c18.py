"""C18 -- paged results yield every row exactly once, in order."""
import itertools
import os

from hypothesis import strategies as st

from checks import _simfut as F
from checks import _simutil as U
from vlib.harness import EnumPart, hyp_part

SERIAL = os.environ.get("VERIF_TIER") == "quick"   # heavily loaded machine: forked pool is slower than one process
PID = "C18"
TITLE = "Paged results yield every row exactly once, in order"
LEVEL = "exploration"
ENGINE = "sim"
TECHNIQUE = ("exhaustive enumeration of page-size sequences x access patterns plus Hypothesis-generated histories (retried "
             "pages, speculative attempts answered late, row factories, programs interleaving iteration with manual "
             "fetch_next_page) over the real Session/ResponseFuture/ResultSet on a "
             "deterministic simulated network; the fake server owns the rows and the paging states and is the reference")
RULE = ("A case is a result of 1-6 pages with 0-4 rows each (empty first/middle/last pages included), globally unique row "
        "values and a unique opaque paging state per page; the fake nodes decode the paging state of every request.  Access "
        "patterns: for-loop, list(), all(), manual fetch_next_page + current_rows, callbacks + start_fetching_next_page, "
        "one(), index / equality (list mode), partial iteration.  "
        "Generated extras: a page whose first attempt fails and is retried, a page whose first attempt is answered only "
        "after a speculative attempt completed the page and the next page was requested, tuple/dict/named row factories.  "
        "A further family makes a page fetch FAIL (two attempts in flight, one answered UNAVAILABLE and rethrown) with "
        "the other attempt's rows arriving late (before / during / never before the retry) and lets the application retry "
        "the fetch (fetch_next_page or start_fetching_next_page again): the retried request must carry the state of the last "
        "DELIVERED page.  "
        "Mixed-access family (enumerated page sizes x 6 fixed programs, and generated programs of 1-8 operations): a program "
        "of iter(n rows | until StopIteration; via next(), for+break, list() or all()) and fetch_next_page(with / without "
        "reading current_rows) operations run on ONE result set -- iterate some rows, fetch the next page by hand, iterate "
        "again, ...  Reference: iteration begun after a manual fetch (or on a new result) returns the rows of the current "
        "page from its start and then every later page; an iter operation with no manual fetch since the previous one "
        "continues the same iterator; current_rows after fetch_next_page is the server's next page; has_more_pages agrees "
        "with the paging state of the current page; pages are requested lazily, in order, each once, with the right state.  "
        "Non-trivial for this family: some rows were iterated, then a page was fetched manually, then iteration resumed.  "
        "Oracle: rows seen == concatenation of the pages consumed, every request for page k carries exactly the state "
        "returned with page k-1, pages are requested in order without gaps or repeats beyond the scheduled retries, nothing "
        "is requested after the page without paging state.  Non-trivial: at least 3 pages of which a non-final one is empty, "
        "or a retried / late-answered page.  Distinct by case digest.")
ASSUMPTIONS = ["network, clock, executor and event loop are simulated (sim/); Cluster, Session, pools, connections, "
               "ResponseFuture and ResultSet are the real classes",
               "paging states are non-empty opaque byte strings, as Cassandra produces them",
               "mixed-access programs never call iter() twice on the same current page (whether that rewinds the page is "
               "unspecified) and never call fetch_next_page() when has_more_pages is false; rows of a page the application "
               "skipped by fetching manually are not expected from iteration"]

PATTERNS = ["iterate", "list", "all", "manual", "callbacks", "one", "index", "eq", "partial"]
FULL = {"iterate", "list", "all", "manual", "callbacks", "index", "eq"}


def interpret(case, ctx):
    sim = U.Sim(tape=case.get("tape", []), granularity=case.get("gran", "blocking"))
    try:
        with sim:
            _run(case, ctx, sim)
    except U.StepBudgetExceeded:
        ctx.stats.inconclusive += 1
        ctx.label("inconclusive:step-budget")


def _norm(row):
    if isinstance(row, dict):
        return (row["k"], row["v"])
    return tuple(row)


def _run(case, ctx, sim):
    from cassandra.cluster import ExecutionProfile
    from cassandra.policies import ConstantSpeculativeExecutionPolicy
    from cassandra.query import SimpleStatement, dict_factory, named_tuple_factory, tuple_factory
    net = sim.net
    sizes = case["sizes"]
    P = len(sizes)
    pattern = case["pattern"]
    flaky = set(case.get("flaky", []))
    slow = set(case.get("slow", []))
    factory = {"named": named_tuple_factory, "tuple": tuple_factory, "dict": dict_factory}[case.get("factory", "named")]
    rlog = []
    prof = ExecutionProfile(load_balancing_policy=U.fixed_plan_policy(), row_factory=factory,
                            retry_policy=F.scripted_policy([["retry", None]] * 8, rlog), request_timeout=None,
                            speculative_execution_policy=ConstantSpeculativeExecutionPolicy(0.0, 16) if slow else None)
    warm = case.get("warm")
    # 4 stream ids per connection + 0-3 warm-up requests: page requests travel on every stream id, 0 included
    cluster, session, nodes = F.build(sim, 2 if slow else 1, prof, max_in_flight=4 if warm is not None else None)
    with ctx.driver(["C18.warmup"]):
        F.warm_up(sim, session, cluster, nodes, warm or 0)
    if ctx._failures:
        return

    # ---- the server's truth
    pages, n = [], 0
    for i, sz in enumerate(sizes):
        pages.append([[n + j, "p%dr%d" % (i, j)] for j in range(sz)])
        n += sz
    truth = [tuple(r) for pg in pages for r in pg]
    state_of = dict((i, ("state-%d-%s" % (i, "x" * (i % 3))).encode()) for i in range(1, P))
    page_of = dict((v, k) for k, v in state_of.items())
    reqs = []            # page index (or ("unknown", state)) of every user request in arrival order
    attempts = {}
    parked = []          # late first attempts: (node, conn, req, page)

    def send_page(node, conn, req, i):
        if conn.is_closed or conn.srv_closed:
            return
        U.answer(node, conn, req, "rows", rows=pages[i], paging_state=state_of.get(i + 1))

    def user(node, conn, req):
        if not F.is_user(req) or conn.is_control_connection:
            return None
        ps = req.get("paging_state")
        if ps is None:
            i = 0
        elif ps in page_of:
            i = page_of[ps]
        else:
            reqs.append(("unknown", ps))
            return ("error", "invalid", {})
        reqs.append(i)
        if len(reqs) > 4 * P + 12:
            return ("drop",)        # runaway: stop answering, the client side then reports it
        k = attempts.get(i, 0)
        attempts[i] = k + 1
        # a parked answer of an earlier page is released once a later page has been asked for
        for item in list(parked):
            if item[3] < i:
                parked.remove(item)
                send_page(*item)
        if k == 0 and i in flaky:
            return ("error", "read_timeout", {})
        if i in slow and not any(p[3] == i for p in parked) and attempts[i] == 1 + (1 if i in flaky else 0):
            parked.append((node, conn, req, i))
            return ("drop",)
        send_page(node, conn, req, i)
        return ("drop",)

    for nd in nodes:
        nd.on_request = user

    stmt = SimpleStatement(F.USER_Q, fetch_size=case.get("fetch_size", 2), is_idempotent=True)
    seen = []            # normalised rows handed to the application, in order
    info = {}
    k = case.get("k", 1)
    prog = case.get("prog", [])
    obs = []             # mixed pattern: what each operation of the program showed the application
    if pattern == "mixed":
        exp, need_mixed, mflags = _mixed_model(pages, prog)

    def client():
        rs = session.execute(stmt)
        if pattern == "iterate":
            for r in rs:
                seen.append(_norm(r))
        elif pattern == "list":
            seen.extend(_norm(r) for r in list(rs))
        elif pattern == "all":
            seen.extend(_norm(r) for r in rs.all())
        elif pattern == "manual":
            seen.extend(_norm(r) for r in rs.current_rows)
            for _ in range(4 * P + 13):
                if not rs.has_more_pages:
                    break
                rs.fetch_next_page()
                seen.extend(_norm(r) for r in rs.current_rows)
            else:
                raise RuntimeError("runaway: has_more_pages stays true after %d manual fetches" % (4 * P + 13))
        elif pattern == "one":
            info["one"] = rs.one()
        elif pattern == "index":
            total = len(truth)
            if total:
                info["first"] = _norm(rs[0])
                info["last"] = _norm(rs[-1])
                info["kth"] = _norm(rs[k % total])
            seen.extend(_norm(r) for r in rs)
        elif pattern == "eq":
            want = [factory(["k", "v"], [tuple(r)])[0] for r in truth]
            info["eq"] = (rs == want)
            seen.extend(_norm(r) for r in rs)
        elif pattern == "partial":
            it = iter(rs)
            for _ in range(k):
                try:
                    seen.append(_norm(next(it)))
                except StopIteration:
                    info["stopped"] = True
                    break
        elif pattern == "mixed":
            _mixed_client(rs, prog, obs, len(truth) + 8)
        else:
            raise ValueError(pattern)

    def callbacks():
        fut = session.execute_async(stmt)
        done = []

        def on_page(rows):
            seen.extend(_norm(r) for r in (rows or []))
            if fut.has_more_pages:
                fut.start_fetching_next_page()
            else:
                done.append(True)

        def on_err(exc):
            done.append(exc)
        fut.add_callbacks(on_page, on_err)
        info["done"] = done

    failed = None
    with ctx.driver(["C18.access", "pattern=%s" % pattern]):
        if pattern == "callbacks":
            sim.call(callbacks)
            sim.settle()
            sim.advance(1.0)
            d = info["done"]
            if not d:
                ctx.fail(["C18.callbacks", "never-finished"], "callback chain did not reach the last page; requests %r" % (reqs,))
                failed = True
            elif d[0] is not True:
                raise d[0]
        else:
            sim.call(client)
        sim.settle()
        sim.advance(0.5)
    if ctx._failures:
        if slow & set(range(P)):
            first = ctx._failures[0]
            ctx._failures = []
            ctx.fail(["C18.late-answer", "taken-for-current-page"],
                     "with a speculative attempt of page(s) %r answered after the next page was requested: %s [%s]" % (
                         sorted(slow & set(range(P))), first[1], "/".join(first[0])))
        return
    # answers still parked (late attempt of the last page) are delivered now; nothing may change
    for item in list(parked):
        parked.remove(item)
        send_page(*item)
    before = list(seen)
    sim.settle()
    sim.advance(0.5)

    # ---- requests
    unknown = [r for r in reqs if not isinstance(r, int)]
    if unknown:
        ctx.fail(["C18.paging-state", "unknown"], "a request carried a paging state the server never issued: %r" % (unknown[:2],))
        return
    dedup = [g for g, _ in itertools.groupby(reqs)]
    if pattern in FULL:
        need = P
    elif pattern == "one":
        need = 1
    elif pattern == "mixed":
        need = need_mixed
    else:
        # partial: pages needed to deliver k rows (the driver may not read ahead)
        need, got = 0, 0
        while need < P and got < k:
            got += sizes[need]
            need += 1
        need = max(need, 1)
    want_reqs = list(range(need))
    if dedup != want_reqs:
        if len(dedup) > len(want_reqs) and dedup[:len(want_reqs)] == want_reqs:
            feat = "after-last-page" if need == P else "read-ahead"
        elif pattern == "mixed" and dedup == want_reqs[:len(dedup)]:
            feat = "page-never-requested"
        elif sorted(set(dedup)) != dedup:
            feat = "page-repeated"
        else:
            feat = "page-skipped"
        ctx.fail(["C18.requests", feat, "pattern=%s" % pattern] + (["late-answer"] if slow else []),
                 "pages requested %r, expected %r (sizes %r, flaky %r, late %r)" % (reqs, want_reqs, sizes, sorted(flaky), sorted(slow)))
    else:
        for i, c in attempts.items():
            # with a speculative policy at delay 0 any page may see one speculative attempt
            allowed = 1 + (1 if i in flaky else 0) + (1 if slow else 0)
            if c > allowed:
                ctx.fail(["C18.requests", "too-many-attempts", "pattern=%s" % pattern],
                         "page %d was requested %d times, at most %d expected" % (i, c, allowed))
                break

    # ---- rows
    if pattern in FULL:
        if seen != truth:
            if sorted(seen) == sorted(truth):
                feat = "order"
            elif len(seen) > len(truth) or len(set(seen)) < len(seen):
                feat = "duplicated"
            else:
                feat = "lost"
            ctx.fail(["C18.rows", feat, "pattern=%s" % pattern] + (["late-answer"] if slow else []),
                     "rows seen %r, server sent %r (sizes %r)" % (seen, truth, sizes))
        if seen != before and not ctx._failures:
            ctx.fail(["C18.rows", "changed-after-completion"], "rows changed after a late answer: %r -> %r" % (before, seen))
    if pattern == "one":
        want = tuple(pages[0][0]) if pages[0] else None
        got = info.get("one")
        if (None if got is None else _norm(got)) != want:
            ctx.fail(["C18.one"], "one() returned %r, first page starts with %r" % (got, want))
    if pattern == "index" and truth:
        if info.get("first") != truth[0] or info.get("last") != truth[-1] or info.get("kth") != truth[k % len(truth)]:
            ctx.fail(["C18.index"], "rs[0], rs[-1], rs[%d] = %r, %r, %r; server sent %r" % (
                k % len(truth), info.get("first"), info.get("last"), info.get("kth"), truth))
    if pattern == "eq" and info.get("eq") is not True:
        ctx.fail(["C18.eq"], "result set does not compare equal to the list of all rows the server sent (%r)" % (truth,))
    if pattern == "partial":
        want = truth[:k]
        if seen != want:
            ctx.fail(["C18.rows", "partial"], "first %d rows seen %r, server sent %r" % (k, seen, want))
    if pattern == "mixed":
        manual_before = False
        for j, (op, o, e) in enumerate(zip(prog, obs, exp)):
            if op[0] == "fetch":
                if o["more"] != e["more"]:
                    ctx.fail(["C18.mixed", "has_more_pages", "got=%s" % o["more"]],
                             "operation %d of %r: has_more_pages is %r, the server %s a paging state with the current page "
                             "(sizes %r)" % (j, prog, o["more"], "sent" if e["more"] else "did not send", sizes))
                    break
                if o["rows"] != e["rows"]:
                    ctx.fail(["C18.mixed", "current_rows-after-fetch_next_page"],
                             "operation %d of %r: current_rows after fetch_next_page() is %r, the server's next page is %r "
                             "(sizes %r)" % (j, prog, o["rows"], e["rows"], sizes))
                    break
                manual_before = manual_before or e["more"]
                continue
            if o["rows"] != e["rows"] or o["stopped"] != e["stopped"]:
                g, w = o["rows"], e["rows"]
                if g == w:
                    feat = "stop-iteration"
                elif len(set(g)) < len(g) or (set(g) - set(w)):
                    feat = "duplicated-or-foreign"
                elif sorted(g) == sorted(w):
                    feat = "order"
                else:
                    feat = "lost"
                ctx.fail(["C18.rows", feat, "pattern=mixed", "fresh-iter" if e["fresh"] else "continued-iter",
                          "after-manual-fetch" if manual_before else "no-manual-fetch-before"],
                         "operation %d (%r) of program %r returned rows %r%s; iteration from the %s must return %r%s "
                         "(pages %r; observations so far %r)" % (
                             j, op, prog, g, " then StopIteration" if o["stopped"] else "",
                             "start of the current page" if e["fresh"] else "point where the live iterator stopped", w,
                             " then StopIteration" if e["stopped"] else "", pages, obs[:j]))
                break
        if len(obs) != len(exp) and not ctx._failures:
            ctx.fail(["C18.mixed", "program-incomplete"], "only %d of %d operations ran" % (len(obs), len(exp)))

    if slow & set(range(P)) and ctx._failures:
        # one root cause, many symptoms (rows repeated, rows lost, pages re-requested or skipped, index errors):
        # an answer to an attempt of an earlier page fetch was taken for the answer of the current one
        first = ctx._failures[0]
        n_sym = len(ctx._failures)
        ctx._failures = []
        ctx.fail(["C18.late-answer", "taken-for-current-page"],
                 "with a speculative attempt of page(s) %r answered after the next page was requested: %s [%s; %d symptom(s)]" % (
                     sorted(slow & set(range(P))), first[1], "/".join(first[0]), n_sym))
    ctx.label("pattern=%s" % pattern, "pages=%d" % P, "factory=%s" % case.get("factory", "named"))
    empty_mid = any(sz == 0 for sz in sizes[:-1])
    if empty_mid:
        ctx.label("empty-non-final-page")
    if sizes[-1] == 0:
        ctx.label("empty-last-page")
    if flaky:
        ctx.label("retried-page")
    if slow:
        ctx.label("late-answered-page")
    if pattern == "mixed":
        ctx.label("mixed:ops=%d" % len(prog), *["mixed:" + f for f in sorted(mflags)])
        if "iter-fetch-iter" not in mflags:
            ctx.label("mixed:no-iter-fetch-iter")
        ctx.nontrivial("iter-fetch-iter" in mflags)
        return
    ctx.nontrivial((P >= 3 and empty_mid) or bool(flaky & set(range(P))) or bool(slow & set(range(P))))


# --------------------------------------------------------------------------- iteration interleaved with manual fetches
def _mixed_model(pages, prog):
    """Reference for a program of ["iter", n, style] / ["fetch", peek] operations, written from the documented contract
    only: fetch_next_page() makes the next page current; iter(rs) after it (or on a new result) iterates from the start of
    the CURRENT page through all later pages, fetching a page only when a row beyond the current page is asked for; an
    "iter" operation while an iterator is live (no manual fetch since it was made) CONTINUES that iterator with next() --
    iter() is never called twice on the same current page, because what that does (rewind or not) is not specified.
    n = -1 means "until StopIteration".  Returns (expected observations, pages needed, flags)."""
    P = len(pages)
    c, pos, exhausted = 0, None, False
    exp, flags = [], set()
    stage, consumed_here = 0, 0          # stage: 0 nothing, 1 iterated >= 1 row, 2 then fetched manually, 3 then iterated again
    for op in prog:
        if op[0] == "fetch":
            more = c < P - 1
            e = {"more": more, "rows": None}
            if more:
                if pos is not None:
                    flags.add("stale-iter-exhausted" if pos >= len(pages[c]) else "stale-iter-partial")
                c += 1
                pos = None
                if op[1]:
                    e["rows"] = [tuple(r) for r in pages[c]]
                if stage == 1:
                    stage = 2
            exp.append(e)
            continue
        n = op[1]
        fresh = pos is None
        if fresh:
            pos = 0
        got, stopped = [], False
        while n < 0 or len(got) < n:
            cur = [] if exhausted else pages[c]
            if pos < len(cur):
                got.append(tuple(cur[pos]))
                pos += 1
                continue
            if c == P - 1:
                exhausted = stopped = True
                pos = 0
                break
            c += 1
            pos = 0
        exp.append({"rows": got, "stopped": stopped, "fresh": fresh})
        if n != 0:
            if stage == 2:
                stage = 3
            elif stage == 0 and got:
                stage = 1
    if stage == 3:
        flags.add("iter-fetch-iter")
    return exp, c + 1, flags


def _mixed_client(rs, prog, obs, cap):
    """Runs the program against the real ResultSet; every iter/cont/fetch records what the application saw."""
    it, live = None, False
    for op in prog:
        if op[0] == "fetch":
            more = bool(rs.has_more_pages)
            ob = {"more": more, "rows": None}
            if more:
                rs.fetch_next_page()
                live = False
                if op[1]:
                    ob["rows"] = [_norm(r) for r in rs.current_rows]
            obs.append(ob)
            continue
        n, style = op[1], op[2]
        fresh = not live
        got, stopped = [], False
        ob = {"rows": got, "stopped": False, "fresh": fresh}
        obs.append(ob)
        if fresh and style == "list" and n < 0:
            got.extend(_norm(r) for r in list(rs))
            it, live, stopped = rs, True, True
        elif fresh and style == "all" and n < 0:
            got.extend(_norm(r) for r in rs.all())
            it, live, stopped = rs, True, True
        elif fresh and style == "for" and n != 0:
            stopped = True
            for r in rs:
                got.append(_norm(r))
                if len(got) == n:
                    stopped = False
                    break
                if len(got) > cap:
                    raise RuntimeError("runaway: iteration returned more than %d rows" % cap)
            it, live = rs, True
        else:
            if fresh:
                it, live = iter(rs), True
            while n < 0 or len(got) < n:
                try:
                    got.append(_norm(next(it)))
                except StopIteration:
                    stopped = True
                    break
                if len(got) > cap:
                    raise RuntimeError("runaway: iteration returned more than %d rows" % cap)
        ob["stopped"] = stopped



# --------------------------------------------------------------------------- a failed page fetch, retried
def interpret_retry(case, ctx):
    sim = U.Sim(tape=case.get("tape", []), granularity=case.get("gran", "blocking"))
    try:
        with sim:
            _run_retry(case, ctx, sim)
    except U.StepBudgetExceeded:
        ctx.stats.inconclusive += 1
        ctx.label("inconclusive:step-budget")


def _run_retry(case, ctx, sim):
    """A page fetch (not the first) has two attempts in flight (speculative execution at delay 0): one is
    answered UNAVAILABLE and the policy rethrows, so the fetch FAILS; the other attempt's rows arrive late
    (before the application retries the fetch, while the retry is in flight, or never).  The application
    retries the fetch on the same result.  Every request must carry the state returned with the last page
    that was DELIVERED, and the rows must be exactly the server's."""
    from cassandra import Unavailable
    from cassandra.cluster import ExecutionProfile
    from cassandra.policies import ConstantSpeculativeExecutionPolicy, RetryPolicy
    from cassandra.query import SimpleStatement, dict_factory, named_tuple_factory, tuple_factory
    net = sim.net
    sizes = case["sizes"]
    P = len(sizes)
    fail = set(i for i in case["fail"] if 1 <= i < P)
    late_when = case["late_when"]
    how = case["how"]
    factory = {"named": named_tuple_factory, "tuple": tuple_factory, "dict": dict_factory}[case.get("factory", "named")]

    class Rethrow(RetryPolicy):
        def on_unavailable(self, *a, **kw):
            return (RetryPolicy.RETHROW, None)
    prof = ExecutionProfile(load_balancing_policy=U.fixed_plan_policy(), row_factory=factory, retry_policy=Rethrow(),
                            request_timeout=None,
                            speculative_execution_policy=ConstantSpeculativeExecutionPolicy(0.0, 32))
    cluster, session, nodes = F.build(sim, 2, prof)
    pages, n = [], 0
    for i, sz in enumerate(sizes):
        pages.append([[n + j, "p%dr%d" % (i, j)] for j in range(sz)])
        n += sz
    truth = [tuple(r) for pg in pages for r in pg]
    state_of = dict((i, ("st%d" % i).encode()) for i in range(1, P))
    page_of = dict((v, k) for k, v in state_of.items())
    reqs, parked, failed_once, first_round = [], [], set(), {}

    def send_page(node, conn, req, i):
        if not (conn.is_closed or conn.srv_closed):
            U.answer(node, conn, req, "rows", rows=pages[i], paging_state=state_of.get(i + 1))

    def release_parked():
        for item in list(parked):
            parked.remove(item)
            send_page(*item)

    def user(node, conn, req):
        if not F.is_user(req) or conn.is_control_connection:
            return None
        ps = req.get("paging_state")
        if ps is not None and ps not in page_of:
            reqs.append(("unknown", ps))
            return ("error", "invalid", {})
        i = 0 if ps is None else page_of[ps]
        reqs.append(i)
        if len(reqs) > 6 * P + 12:
            return ("drop",)
        if i in fail and i not in failed_once:
            c = first_round.get(i, 0)
            first_round[i] = c + 1
            if c == 0:
                parked.append((node, conn, req, i))     # its rows will come late
                return ("drop",)
            failed_once.add(i)
            return ("error", "unavailable", {})
        if late_when == "during_retry" and any(it[3] <= i for it in parked):
            release_parked()
        send_page(node, conn, req, i)
        return ("drop",)

    for nd in nodes:
        nd.on_request = user
    stmt = SimpleStatement(F.USER_Q, fetch_size=2, is_idempotent=True)
    seen = []
    info = {"failures": 0}

    def after_failure():
        info["failures"] += 1
        if late_when == "before_retry":
            release_parked()
            sim.vtime.sleep(0.01)       # let the event loop deliver the late rows before the retry

    def client():
        if how == "manual":
            rs = session.execute(stmt)
            seen.extend(_norm(r) for r in rs.current_rows)
            for _ in range(6 * P + 12):
                if not rs.has_more_pages:
                    return
                try:
                    rs.fetch_next_page()
                except Unavailable:
                    after_failure()
                    continue
                seen.extend(_norm(r) for r in rs.current_rows)
        else:
            fut = session.execute_async(stmt)
            seen.extend(_norm(r) for r in fut.result().current_rows)
            for _ in range(6 * P + 12):
                if not fut.has_more_pages:
                    return
                fut.start_fetching_next_page()
                try:
                    rs = fut.result()
                except Unavailable:
                    after_failure()
                    continue
                seen.extend(_norm(r) for r in rs.current_rows)
        raise RuntimeError("runaway: more pages after %d fetches" % (6 * P + 12))

    with ctx.driver(["C18.retry-fetch", "how=%s" % how]):
        sim.call(client)
    sim.settle()
    release_parked()
    sim.settle()
    sim.advance(0.5)
    if ctx._failures:
        return
    feat = ["how=%s" % how, "late=%s" % late_when]
    unknown = [r for r in reqs if not isinstance(r, int)]
    dedup = [g for g, _ in itertools.groupby(reqs)]
    if unknown:
        ctx.fail(["C18.retry-fetch", "unknown-paging-state"] + feat, "unknown paging state sent: %r" % (unknown[:2],))
    elif dedup != list(range(P)):
        ctx.fail(["C18.retry-fetch", "requests"] + feat,
                 "pages requested %r, expected each of %r once the previous one was delivered (fetches of %r failed once; "
                 "sizes %r): a request did not carry the state of the last delivered page" % (reqs, list(range(P)), sorted(fail), sizes))
    if seen != truth:
        kind = "duplicated" if len(seen) > len(set(seen)) else "lost"
        ctx.fail(["C18.retry-fetch", "rows-" + kind] + feat,
                 "rows seen %r, server sent %r (fetches of pages %r failed once and were retried)" % (seen, truth, sorted(fail)))
    if info["failures"] != len(fail):
        ctx.label("failures-differ")
    ctx.label("retry-fetch", "how=%s" % how, "late=%s" % late_when, "failed-fetches=%d" % info["failures"])
    ctx.nontrivial(info["failures"] >= 1)


def _retry_chunks(tier):
    return [{"how": h, "late_when": w} for h in ("manual", "future") for w in ("before_retry", "during_retry", "never")]


def _retry_cases(chunk):
    for ln in (2, 3):
        for seq in itertools.product(range(3), repeat=ln):
            fails = [[1]] if ln == 2 else [[1], [2], [1, 2]]
            for f in fails:
                yield {"sizes": list(seq), "fail": f, "late_when": chunk["late_when"], "how": chunk["how"],
                       "factory": "named", "tape": [], "gran": "blocking"}


def s_retry_case(gran):
    return st.fixed_dictionaries({
        "sizes": st.lists(st.sampled_from([0, 1, 2, 3]), min_size=2, max_size=5),
        "fail": st.lists(st.integers(1, 4), min_size=1, max_size=3, unique=True),
        "late_when": st.sampled_from(["before_retry", "before_retry", "during_retry", "never"]),
        "how": st.sampled_from(["manual", "future"]),
        "factory": st.sampled_from(["named", "tuple", "dict"]),
        "tape": st.lists(st.integers(0, 3), max_size=30 if gran == "locks" else 6),
        "gran": st.just(gran),
    })



# --------------------------------------------------------------------------- enumeration
def _seqs(max_len, max_size):
    for ln in range(1, max_len + 1):
        for seq in itertools.product(range(max_size + 1), repeat=ln):
            yield list(seq)


def _chunks(tier):
    if tier == "quick":
        return [{"pattern": p, "max_len": 4, "max_size": 2} for p in PATTERNS]
    return [{"pattern": p, "max_len": 5, "max_size": 2, "first": f} for p in PATTERNS for f in range(3)]


def _cases(chunk):
    p = chunk["pattern"]
    seqs = list(_seqs(chunk["max_len"], chunk["max_size"]))
    if chunk.get("extra_len4"):
        seqs += [list(s) for s in itertools.product(range(2), repeat=4)]
    if "first" in chunk:
        seqs = [s for s in seqs if s[0] == chunk["first"]]
    for seq in seqs:
        ks = [1]
        if p in ("partial", "index"):
            total = sum(seq)
            ks = sorted(set([1, max(1, total - 1), total + 1]))
        for k in ks:
            yield {"warm": (sum(seq) + len(seq) + k) % 4, "sizes": seq, "pattern": p, "k": k, "factory": "named", "flaky": [], "slow": [],
                   "fetch_size": 2, "tape": [], "gran": "blocking"}


def s_case(gran):
    return st.fixed_dictionaries({
        "warm": st.sampled_from([0, 1, 2, 3]),
        "sizes": st.lists(st.sampled_from([0, 0, 1, 2, 3, 4]), min_size=1, max_size=6),
        "pattern": st.sampled_from(PATTERNS),
        "k": st.integers(0, 8),
        "factory": st.sampled_from(["named", "tuple", "dict"]),
        "flaky": st.lists(st.integers(0, 5), max_size=2, unique=True),
        "slow": st.one_of(st.just([]), st.lists(st.integers(0, 5), min_size=1, max_size=2, unique=True)),
        "fetch_size": st.sampled_from([1, 2, 5000]),
        "tape": st.lists(st.integers(0, 3), max_size=30 if gran == "locks" else 6),
        "gran": st.just(gran),
    })


# --------------------------------------------------------------------------- mixed access programs
MIXED_PROGRAMS = [
    [["iter", 1, "next"], ["fetch", True], ["iter", -1, "for"]],
    [["iter", 2, "for"], ["fetch", False], ["iter", -1, "list"]],
    [["iter", 0, "next"], ["fetch", True], ["iter", -1, "all"]],
    [["fetch", True], ["iter", 1, "for"], ["iter", 1, "next"], ["fetch", False], ["iter", -1, "next"]],
    [["iter", 1, "next"], ["iter", 1, "next"], ["fetch", True], ["fetch", True], ["iter", 2, "for"], ["iter", -1, "next"]],
    [["iter", 3, "for"], ["fetch", True], ["iter", 1, "next"], ["fetch", False], ["iter", -1, "for"]],
]


def _mixed_chunks(tier):
    if tier == "quick":
        return [{"prog": i, "max_len": 3, "max_size": 2, "extra_len4": True} for i in range(len(MIXED_PROGRAMS))]
    return [{"prog": i, "max_len": 5, "max_size": 2} for i in range(len(MIXED_PROGRAMS))]


def _mixed_cases(chunk):
    seqs = list(_seqs(chunk["max_len"], chunk["max_size"]))
    if chunk.get("extra_len4"):
        seqs += [list(q) for q in itertools.product((0, 2), repeat=4)]
    for seq in seqs:
        yield {"warm": None, "sizes": seq, "pattern": "mixed", "prog": MIXED_PROGRAMS[chunk["prog"]], "factory": "named",
               "flaky": [], "slow": [], "fetch_size": 2, "tape": [], "gran": "blocking"}


def s_mixed_case(gran):
    s_iter = st.tuples(st.just("iter"), st.sampled_from([-1, 0, 1, 1, 2, 2, 3, 4, 6]),
                       st.sampled_from(["next", "for", "list", "all"])).map(list)
    s_fetch = st.tuples(st.just("fetch"), st.booleans()).map(list)
    return st.fixed_dictionaries({
        "warm": st.sampled_from([None, 0, 3]),
        "sizes": st.lists(st.sampled_from([0, 1, 2, 2, 3, 4]), min_size=1, max_size=6),
        "pattern": st.just("mixed"),
        "prog": st.lists(st.one_of(s_iter, s_iter, s_fetch), min_size=1, max_size=8),
        "factory": st.sampled_from(["named", "tuple", "dict"]),
        "flaky": st.lists(st.integers(0, 5), max_size=1),
        "slow": st.just([]),
        "fetch_size": st.sampled_from([1, 2, 5000]),
        "tape": st.lists(st.integers(0, 3), max_size=30 if gran == "locks" else 6),
        "gran": st.just(gran),
    })


def parts(tier):
    return [
        EnumPart("sequences", _chunks(tier), _cases, interpret),
        hyp_part("generated", lambda: s_case("blocking"), interpret, tier, quick=200, thorough=2500,
                 quick_shards=1, thorough_shards=8),
        hyp_part("locks", lambda: s_case("locks"), interpret, tier, quick=40, thorough=500,
                 quick_shards=1, thorough_shards=4),
        EnumPart("failed-fetch", _retry_chunks(tier), _retry_cases, interpret_retry),
        hyp_part("failed-fetch-generated", lambda: s_retry_case("blocking" if tier == "quick" else "locks"), interpret_retry,
                 tier, quick=60, thorough=600, quick_shards=1, thorough_shards=4),
        EnumPart("mixed-sequences", _mixed_chunks(tier), _mixed_cases, interpret),
        hyp_part("mixed-generated", lambda: s_mixed_case("blocking" if tier == "quick" else "locks"), interpret,
                 tier, quick=150, thorough=2000, quick_shards=1, thorough_shards=8),
    ]
