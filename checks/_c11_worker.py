"""C11, subprocess side: one real reactor (asyncio or twisted) of the driver under test, fed by real threads.

    python -m checks._c11_worker asyncio|twisted          JSON lines on stdin/stdout

A request is a workload ``{"threads": [[size, ...], ...], "transport": "unix"|"tcp", "barrier": bool,
"loop": [bool per thread], "pace_ms": [ms per thread], "reader": {burst, pause_ms, slow_bytes, rcvbuf, sndbuf}}``:
a thread flagged in "loop" does not call push() itself but has the reactor thread call it (the way response
callbacks push follow-up requests); "reader" throttles the peer and shrinks the socket buffers so that the
reactor's send is suspended in the middle of messages.
For each workload the worker opens a fresh local listener that only reads, brings up ONE connection of
the reactor's Connection class (sub-classed only so that no OPTIONS/STARTUP handshake is attempted),
lets N threads ``push()`` their messages, and judges the byte stream that arrived at the listener.

Message layout (self-locating, any length >= 1):  byte i of message (thread t, sequence s) is
    i%4==0: t      i%4==1: s      i%4==2: (i//4)>>8 & 0xff      i%4==3: (i//4) & 0xff
so the first byte of every message names its thread, the stream can be parsed greedily against the pushed
messages, and at a divergence the bytes found say what they belong to.

No verdict depends on timing.  The stream is final when the connection has been closed and the listener
has read EOF.  Before closing, the worker waits until all expected bytes have arrived, or until the reactor
is provably idle (asyncio: no pending _push_msg task, empty _write_queue, write loop parked in Queue.get() or
gone; twisted: every callFromThread issued by the writers has run and the transport's buffers are empty).
Bytes missing at that point are lost.  If neither happens within LIMIT seconds the workload is inconclusive.
"""
from __future__ import annotations

import json
import os
import shutil
import socket
import sys
import tempfile
import threading
import time
import traceback

LIMIT = 60.0          # generous real-time bound for "the reactor became idle"; only ever yields "inconclusive"
EOF_WAIT = 20.0
MAXK = 1 << 16
_HI = bytes((k >> 8) & 0xff for k in range(MAXK))
_LO = bytes(k & 0xff for k in range(MAXK))


# ----------------------------------------------------------------------------------------------------
# messages and the stream oracle (pure functions; also imported by checks/c11.py)
# ----------------------------------------------------------------------------------------------------

def make_message(t, s, n):
    cnt = (n + 3) // 4
    if cnt > MAXK:
        raise ValueError("message too long for the self-locating pattern")
    m = bytearray(cnt * 4)
    m[0::4] = bytes([t]) * cnt
    m[1::4] = bytes([s]) * cnt
    m[2::4] = _HI[:cnt]
    m[3::4] = _LO[:cnt]
    return bytes(m[:n])


def _locate(chunk):
    """what do these (>= 8) bytes look like?  -> (t, s, offset) of the pattern they continue, or None"""
    for a in range(4):
        w = chunk[a:a + 8]
        if len(w) < 8:
            break
        t, s, k = w[0], w[1], (w[2] << 8) | w[3]
        if w[4] == t and w[5] == s and ((w[6] << 8) | w[7]) == (k + 1) % MAXK:
            return t, s, 4 * k - a
    return None


def judge_stream(threads, stream, buf_size=4096):
    """threads: list of lists of sizes.  -> list of problems (empty = the stream is a whole-message
    interleaving that respects every thread's push order, nothing lost, nothing invented).
    Only the first divergence is classified (everything after it is a consequence)."""
    msgs = [[make_message(t, s, n) for s, n in enumerate(sizes)] for t, sizes in enumerate(threads)]
    expected = sum(len(m) for ms in msgs for m in ms)
    nxt = [0] * len(msgs)
    p = 0
    total = len(stream)
    view = bytes(stream)

    def cls(n):
        return "chunked" if n > buf_size else "single"

    while p < total:
        t = view[p]
        if t >= len(msgs) or nxt[t] >= len(msgs[t]):
            # not the start of any message that is still due
            if t < len(msgs) and all(nxt[i] >= len(msgs[i]) for i in range(len(msgs))):
                return [{"kind": "invented", "feature": "after-all-messages", "pos": p, "extra": total - p}]
            loc = _locate(view[p:p + 12])
            if t < len(msgs) and loc and loc[0] == t and loc[1] < nxt[t] and loc[2] == 0:
                return [{"kind": "duplicated", "feature": cls(len(msgs[t][loc[1]])), "pos": p, "thread": t, "seq": loc[1]}]
            return [{"kind": "garbled", "feature": "message-start", "pos": p, "byte": t}]
        m = msgs[t][nxt[t]]
        got = view[p:p + len(m)]
        if got == m:
            p += len(m)
            nxt[t] += 1
            continue
        # first differing offset inside this message
        o = next((i for i in range(min(len(got), len(m))) if got[i] != m[i]), min(len(got), len(m)))
        q = p + o
        if q >= total:
            break                      # stream ends inside / before the end of this message: judged as lost below
        rest = view[q:q + 12]
        me = (t, nxt[t])
        loc = _locate(rest)
        if loc is None:
            return [{"kind": "garbled", "feature": cls(len(m)), "pos": q, "thread": t, "seq": nxt[t], "offset": o}]
        t2, s2, o2 = loc
        if (t2, s2) == me:
            # bytes of this very message, but from another place in it
            kind = "duplicated-chunk" if o2 < o else "chunk-order"
        elif t2 == t and o2 == o:
            # another message of the same thread: one already delivered (again), or a later one overtaking
            kind = "duplicated" if s2 < nxt[t] else "reordered"
        else:
            # bytes of another message inside this one: cut short, or does the remainder follow later?
            tail = m[o:o + 16]
            later = len(tail) >= 8 and view.find(tail, q) >= 0
            kind = "interleaved" if (later or o2 != 0) else "truncated"
        return [{"kind": kind, "feature": cls(len(m)), "pos": q, "thread": t, "seq": nxt[t], "offset": o,
                 "found": [t2, s2, o2]}]
    if any(nxt[i] < len(msgs[i]) for i in range(len(msgs))):
        return [{"kind": "lost", "feature": "all-bytes" if total == 0 else "some-bytes", "received": total,
                 "expected": expected, "missing": expected - total,
                 "first_missing": [[i, nxt[i]] for i in range(len(msgs)) if nxt[i] < len(msgs[i])][:3]}]
    return []


# ----------------------------------------------------------------------------------------------------
# listener
# ----------------------------------------------------------------------------------------------------

class Listener(object):
    def __init__(self, transport, tmpdir, n, reader=None):
        # reader: None/{} = read as fast as possible; {"burst": bytes per recv, "pause_ms": sleep between recvs,
        # "slow_bytes": throttle only the first N bytes, "rcvbuf": SO_RCVBUF}.  A throttled reader creates
        # back-pressure (the reactor's send is suspended mid-message); it only shapes the schedule, the
        # verdict never looks at a clock.
        self.reader = reader or {}
        self.buf = bytearray()
        self.lock = threading.Lock()
        self.eof = threading.Event()
        self.accepted = threading.Event()
        self.error = None
        if transport == "unix":
            self.path = os.path.join(tmpdir, "s%d.sock" % n)
            self.sock = socket.socket(socket.AF_UNIX, socket.SOCK_STREAM)
            self.sock.bind(self.path)
            self.address = self.path
        else:
            self.path = None
            self.sock = socket.socket(socket.AF_INET, socket.SOCK_STREAM)
            self.sock.bind(("127.0.0.1", 0))
            self.address = self.sock.getsockname()
        if self.reader.get("rcvbuf"):
            self.sock.setsockopt(socket.SOL_SOCKET, socket.SO_RCVBUF, int(self.reader["rcvbuf"]))   # inherited by accept()
        self.sock.listen(1)
        self.thread = threading.Thread(target=self._run, name="c11-listener", daemon=True)
        self.thread.start()

    def _run(self):
        try:
            self.sock.settimeout(LIMIT)
            conn, _ = self.sock.accept()
            self.accepted.set()
            conn.settimeout(None)
            burst = int(self.reader.get("burst") or 0)
            pause = float(self.reader.get("pause_ms") or 0) / 1000.0
            slow_bytes = int(self.reader.get("slow_bytes") or 0)
            got = 0
            while True:
                slow = burst > 0 and got < slow_bytes
                data = conn.recv(burst if slow else 1 << 18)
                if not data:
                    break
                got += len(data)
                with self.lock:
                    self.buf += data
                if slow and pause:
                    time.sleep(pause)
            conn.close()
        except Exception as e:  # noqa
            self.error = "%s: %s" % (type(e).__name__, e)
        finally:
            self.eof.set()
            try:
                self.sock.close()
            except Exception:
                pass
            if self.path:
                try:
                    os.unlink(self.path)
                except OSError:
                    pass

    def count(self):
        with self.lock:
            return len(self.buf)

    def snapshot(self):
        with self.lock:
            return bytes(self.buf)


# ----------------------------------------------------------------------------------------------------
# reactors
# ----------------------------------------------------------------------------------------------------

class AsyncioSide(object):
    name = "asyncio"

    def __init__(self):
        from cassandra.io.asyncioreactor import AsyncioConnection

        class Conn(AsyncioConnection):
            def _send_options_message(self):
                # no Cassandra on the other side: the connection is "up" as soon as the socket is
                self.connected_event.set()

        self.cls = Conn
        Conn.initialize_reactor()
        self.loop = Conn._loop

    def connect(self, listener, transport, sndbuf=None):
        from cassandra.connection import DefaultEndPoint, UnixSocketEndPoint
        ep = UnixSocketEndPoint(listener.address) if transport == "unix" else DefaultEndPoint(*listener.address)
        sockopts = [(socket.SOL_SOCKET, socket.SO_SNDBUF, int(sndbuf))] if sndbuf else None
        conn = self.cls(ep, connect_timeout=LIMIT, sockopts=sockopts)
        if not conn.connected_event.wait(LIMIT):
            return None
        return conn

    def on_loop(self, fn):
        """run fn on the reactor's own thread (where response callbacks run), FIFO with earlier calls"""
        self.loop.call_soon_threadsafe(fn)

    def probe(self, conn):
        import asyncio

        async def inspect():
            pending_push, writer = 0, "gone"
            for t in asyncio.all_tasks():
                coro = t.get_coro()
                frame = getattr(coro, "cr_frame", None)
                if frame is None or frame.f_locals.get("self") is not conn:
                    continue
                name = coro.cr_code.co_name
                if name == "_push_msg" and not t.done():
                    pending_push += 1
                elif name == "handle_write" and not t.done():
                    c = coro
                    while getattr(c, "cr_await", None) is not None and hasattr(c.cr_await, "cr_code"):
                        c = c.cr_await
                    writer = c.cr_code.co_name if c is not coro else "running"
            return {"queue": conn._write_queue.qsize(), "push_tasks": pending_push, "writer": writer}
        fut = asyncio.run_coroutine_threadsafe(inspect(), self.loop)
        try:
            st = fut.result(timeout=10)
        except Exception as e:
            return {"idle": False, "error": type(e).__name__}
        st["idle"] = st["queue"] == 0 and st["push_tasks"] == 0 and st["writer"] in ("get", "gone")
        return st

    def close(self, conn):
        conn.close()


class TwistedSide(object):
    name = "twisted"

    def __init__(self):
        from cassandra.io.twistedreactor import TwistedConnection

        class Conn(TwistedConnection):
            def _send_options_message(self):
                self.connected_event.set()

        self.cls = Conn
        Conn.initialize_reactor()

    def connect(self, listener, transport, sndbuf=None):
        from cassandra.connection import DefaultEndPoint
        conn = self.cls(DefaultEndPoint(*listener.address), connect_timeout=LIMIT)
        if not conn.connected_event.wait(LIMIT):
            return None
        if sndbuf:
            self._in_reactor(lambda: conn.transport.getHandle().setsockopt(socket.SOL_SOCKET, socket.SO_SNDBUF, int(sndbuf)))
        return conn

    def on_loop(self, fn):
        from twisted.internet import reactor
        reactor.callFromThread(fn)

    def _in_reactor(self, fn, timeout=10, hops=1):
        """run fn in the reactor thread after `hops` trips through the callFromThread queue.  A push() made
        ON the reactor thread re-queues its transport.write with callFromThread, i.e. behind a probe that was
        queued earlier; every extra hop puts the probe behind one more level of such re-queueing."""
        from twisted.internet import reactor
        box, done = {}, threading.Event()

        def run(left=hops):
            if left > 1:
                reactor.callFromThread(run, left - 1)
                return
            try:
                box["v"] = fn()
            except Exception as e:  # noqa
                box["e"] = e
            done.set()
        reactor.callFromThread(run)
        if not done.wait(timeout):
            raise TimeoutError("reactor did not run the probe")
        if "e" in box:
            raise box["e"]
        return box["v"]

    def probe(self, conn):
        def inspect():
            tr = conn.transport
            pending = max(0, len(tr.dataBuffer) - tr.offset) + sum(len(x) for x in tr._tempDataBuffer)
            return {"pending": pending, "connected": bool(tr.connected), "disconnecting": bool(tr.disconnecting)}
        try:
            # callFromThread is FIFO: when this runs, every callFromThread issued by the (joined) writers has run,
            # and so has everything those calls queued in turn (4 levels deep; the driver uses 1)
            st = self._in_reactor(inspect, hops=4)
        except Exception as e:
            return {"idle": False, "error": type(e).__name__}
        st["idle"] = st["pending"] == 0
        return st

    def close(self, conn):
        # loseConnection flushes whatever the transport still holds, then closes
        from twisted.internet import reactor
        reactor.callFromThread(conn.transport.loseConnection)


# ----------------------------------------------------------------------------------------------------
# one workload
# ----------------------------------------------------------------------------------------------------

def run_workload(side, case, tmpdir, n):
    threads = case["threads"]
    transport = case.get("transport", "tcp") if side.name == "asyncio" else "tcp"
    msgs = [[make_message(t, s, size) for s, size in enumerate(sizes)] for t, sizes in enumerate(threads)]
    expected = sum(len(m) for ms in msgs for m in ms)
    reader = case.get("reader") or {}
    on_loop = case.get("loop") or []            # per thread: pushes are issued ON the reactor thread
    pace = case.get("pace_ms") or []            # per thread: pause between pushes (shapes the schedule only)
    listener = Listener(transport, tmpdir, n, reader)
    out = {"status": "?", "expected": expected, "received": 0, "problems": [], "push_errors": []}
    try:
        conn = side.connect(listener, transport, reader.get("sndbuf"))
    except Exception as e:
        out["status"] = "no-connection"
        out["detail"] = "%s: %s" % (type(e).__name__, e)
        return out
    if conn is None or not listener.accepted.wait(LIMIT):
        out["status"] = "no-connection"
        return out
    out["out_buffer_size"] = conn.out_buffer_size

    start = threading.Barrier(len(threads)) if case.get("barrier", True) else None
    errors = []

    harness_trouble = []

    def writer(t):
        # only what push() itself raises is the driver's; the start barrier is ours
        if start is not None:
            try:
                start.wait()
            except threading.BrokenBarrierError:
                harness_trouble.append("barrier")
                return
        loop_pusher = t < len(on_loop) and bool(on_loop[t])
        delay = (float(pace[t]) if t < len(pace) and pace[t] else 0.0) / 1000.0

        def push_on_loop(m):
            try:
                conn.push(m)
            except Exception as e:  # noqa
                errors.append([t, type(e).__name__, str(e)[:200]])
        try:
            for m in msgs[t]:
                if loop_pusher:
                    # as a response callback would: push() is called by the reactor thread itself
                    side.on_loop(lambda m=m: push_on_loop(m))
                else:
                    conn.push(m)
                if delay:
                    time.sleep(delay)
        except Exception as e:  # noqa
            errors.append([t, type(e).__name__, str(e)[:200]])

    ths = [threading.Thread(target=writer, args=(t,), name="c11-writer-%d" % t, daemon=True) for t in range(len(threads))]
    for th in ths:
        th.start()
    deadline = time.monotonic() + LIMIT
    for th in ths:
        th.join(max(0.0, deadline - time.monotonic()))
    if any(th.is_alive() for th in ths):
        out["status"] = "writers-stuck"
        if start is not None:
            start.abort()
        return out
    if harness_trouble:
        out["status"] = "harness-" + harness_trouble[0]
        return out
    out["push_errors"] = errors

    # all writers have returned: wait for "everything arrived" or "reactor provably idle"
    state = None
    idle_at = None
    deadline = time.monotonic() + LIMIT
    while True:
        got = listener.count()
        if got >= expected or listener.eof.is_set():
            out["status"] = "complete" if got >= expected else "peer-eof"
            break
        state = side.probe(conn)
        if state.get("idle"):
            # idle and still short: two consecutive idle probes with an unchanged count, so that bytes handed
            # to the kernel by the reactor just before the first probe have been seen by the listener thread
            if idle_at is not None and idle_at == listener.count():
                out["status"] = "idle"
                break
            idle_at = listener.count()
            time.sleep(0.02)
            continue
        idle_at = None
        if time.monotonic() > deadline:
            out["status"] = "not-idle"
            break
        time.sleep(0.005)
    out["probe"] = state
    try:
        side.close(conn)
    except Exception as e:  # noqa
        out["close_error"] = type(e).__name__
    if not listener.eof.wait(EOF_WAIT):
        out["eof"] = False
    stream = listener.snapshot()
    out["received"] = len(stream)
    if out["status"] == "idle" and len(stream) >= expected:
        out["status"] = "complete"          # the last bytes were in flight between the two probes
    elif out["status"] in ("idle", "peer-eof") and out.get("eof") is False:
        out["status"] = "no-eof"            # a short stream is only final once the listener has read EOF
    if out["status"] in ("complete", "idle", "peer-eof"):
        out["problems"] = judge_stream(threads, stream, conn.out_buffer_size)
    return out


def _remove_stale_tmpdirs(max_age=2 * 3600):
    """socket directories of workers that were killed before they could clean up"""
    import glob
    now = time.time()
    for d in glob.glob("/var/tmp/verif-c11-*"):
        try:
            if now - os.stat(d).st_mtime > max_age:
                shutil.rmtree(d, ignore_errors=True)
        except OSError:
            pass


def main(argv):
    which = argv[0]
    # pre-empt threads 50x more often than the default 5 ms: races between pushers and the reactor thread that
    # need a switch inside a few bytecodes get a real chance (shapes the schedule only)
    sys.setswitchinterval(1e-4)
    out = os.fdopen(os.dup(1), "w")
    os.dup2(2, 1)
    sys.stdout = sys.stderr
    _remove_stale_tmpdirs()
    tmpdir = tempfile.mkdtemp(prefix="verif-c11-", dir="/var/tmp")
    hello = {"hello": False}
    try:
        import logging
        lg = logging.getLogger("cassandra")
        lg.addHandler(logging.NullHandler())
        lg.propagate = False
        import cassandra
        side = AsyncioSide() if which == "asyncio" else TwistedSide()
        hello = {"hello": True, "file": os.path.realpath(cassandra.__file__), "reactor": side.name}
    except BaseException:
        hello["error"] = traceback.format_exc()
    out.write(json.dumps(hello) + "\n")
    out.flush()
    rc = 3
    try:
        if hello["hello"]:
            n = 0
            for line in sys.stdin:
                line = line.strip()
                if not line:
                    continue
                n += 1
                try:
                    res = {"ok": run_workload(side, json.loads(line), tmpdir, n)}
                except BaseException:
                    res = {"error": traceback.format_exc()}
                out.write(json.dumps(res) + "\n")
                out.flush()
            rc = 0
    finally:
        shutil.rmtree(tmpdir, ignore_errors=True)
    out.flush()
    os._exit(rc)          # daemon reactor threads must not delay or break interpreter shutdown


if __name__ == "__main__":
    main(sys.argv[1:])
