"""C33 -- SortedSet / OrderedMap / OrderedMapSerializedKey behave as their mathematical models."""
import os
import copy as _copy
import pickle
import struct

from hypothesis import strategies as st

from vlib.harness import hyp_part

PID = "C33"
TITLE = "Driver collection types behave as their mathematical models"
LEVEL = "exploration"
ENGINE = "models"
TECHNIQUE = "model-based property testing (Hypothesis): operation histories against reference models"
RULE = ("SortedSet: Hypothesis draws an element domain (ints; tuples; lists = unhashable, totally ordered; strings; nested "
        "SortedSets one and two levels deep = what set<frozen<set<int>>> / set<frozen<set<frozen<set<int>>>>> deserialize to, "
        "comparable but only partially ordered, with same-size inner sets whose items cross -- {0,3} / {1,2} -- built by "
        "construction), an initial content and up to 14 operations (add, remove, pop, clear, update, in, len, indexing, del by "
        "index, reversed, union/intersection/difference with 1-2 operands, symmetric_difference, | & - ^ and their "
        "reflected and in-place forms, isdisjoint/issubset/issuperset, <= < >= > == !=, copy) whose operands are other "
        "SortedSets, builtin sets (hashable domains) or lists; the model is a Python set of canonical hashable images, "
        "iteration order = sorted images.  After every step the return value / exception class and the full iteration "
        "order are compared; the same elements re-added in two other orders must give an equal set with the same iteration.  "
        "OrderedMap / OrderedMapSerializedKey: key type (int, text, tuple<int,text>, list<int>, "
        "set<int>, frozen map<int,int>; the last three unhashable), initial pairs (for the serialized-key variant encoded "
        "with an independent CQL encoder and read through MapType.deserialize, as a map column is) and up to 12 "
        "operations (m[k]=v, del, m[k], get, in, popitem, len, ==); the model is a list of pairs keyed by the independent "
        "CQL encoding of the key.  Non-trivial: >= 5 operations including a removal and a binary set operation (sets) / "
        "a deletion and an overwrite (maps), or unhashable elements/keys.")
ASSUMPTIONS = ["one element type per SortedSet instance (the statement); mixed-type behaviour is not judged",
               "pop() may return any member (Python set semantics); the model removes what was returned",
               "for the partially ordered element domain (nested sets) set semantics are judged and, for the order, only "
               "that no later element is strictly smaller (a proper subset) than an earlier one",
               "list operands with duplicates are only given to update/union/intersection/difference/isdisjoint/issubset",
               "equality between two ordered maps with the same pairs in a different order is not judged (OrderedDict and "
               "dict disagree on it)",
               "map keys are restricted to types whose driver encoding is canonical (frozen map keys are built in "
               "ascending key order, as Cassandra sends them)"]

# the quick tier is a few CPU-seconds; forking a worker pool costs more than it saves (and far more on a
# loaded machine)
SERIAL = os.environ.get("VERIF_TIER") == "quick"

# ----------------------------------------------------------------------------
# element domains for SortedSet
# ----------------------------------------------------------------------------

DOMS = ("int", "tuple", "list", "str", "sset", "sset2")      # dicts are unorderable: outside "any single comparable type"
HASHABLE = ("int", "tuple", "str")
TOTAL = ("int", "tuple", "list", "str")
NESTED = ("sset", "sset2")
# same-size sets (2 and 3 items) with crossing items, e.g. {0,3} / {1,2}
_CROSSING = [[0, 3], [1, 2], [0, 5], [1, 4], [2, 3], [1, 5], [0, 2, 5], [0, 3, 4], [1, 2, 3], [0, 4, 5], [1, 2, 5], [1, 3, 4]]


def _canon2(j):
    """canonical JSON form of a set of sets: distinct inner sets, by size then items"""
    seen, out = set(), []
    for x in sorted(j, key=lambda x: (len(x), x)):
        if tuple(x) not in seen:
            seen.add(tuple(x))
            out.append(list(x))
    return out


_CROSSING2 = [_canon2(x) for x in ([[0], [1, 2]], [[1], [0, 2]], [[0], [2, 3]], [[2], [0, 3]], [[0, 3], [1, 2]], [[0, 2], [1, 3]],
                                   [[0, 3], [2, 3]], [[1, 2], [1, 3]], [[0], [1], [2, 3]], [[0], [2], [1, 3]], [[1], [2], [0, 3]])]


def mk(dom, j):
    from cassandra.util import SortedSet
    if dom == "tuple":
        return tuple(j)
    if dom == "list":
        return list(j)
    if dom == "sset":
        return SortedSet(j)
    if dom == "sset2":
        return SortedSet([SortedSet(x) for x in j])
    if dom == "dict":
        return dict(j)
    return j


def img(dom, j):
    if dom in ("tuple", "list"):
        return tuple(j)
    if dom == "sset":
        return frozenset(j)
    if dom == "sset2":
        return frozenset(frozenset(x) for x in j)
    if dom == "dict":
        return frozenset(j.items())
    return j


def img_of_obj(dom, o):
    if dom in ("tuple", "list"):
        return tuple(o)
    if dom == "sset":
        return frozenset(o)
    if dom == "sset2":
        return frozenset(frozenset(x) for x in o)
    if dom == "dict":
        return frozenset(o.items())
    return o


def s_elem(dom):
    small = st.integers(0, 2)
    if dom == "int":
        return st.integers(-2, 5)
    if dom in ("tuple", "list"):
        return st.lists(small, max_size=2)
    if dom == "str":
        return st.sampled_from(["", "a", "ab", "b", "B", "é", "aa"])
    if dom == "sset":
        # nested sets are ordered by size, then item by item: the interesting elements are SAME-SIZE sets whose
        # items cross (first item smaller, a later one larger), built here by construction
        return st.one_of(st.sampled_from(_CROSSING), st.sampled_from(_CROSSING),
                         st.lists(st.integers(0, 5), max_size=3, unique=True).map(sorted))
    if dom == "sset2":
        # two levels: sets of sets of ints; same-size outer elements whose (inner-set) items cross
        inner = st.one_of(st.sampled_from(_CROSSING[:6] + [[0], [1], [2]]),
                          st.lists(st.integers(0, 3), max_size=2, unique=True).map(sorted))
        return st.one_of(st.sampled_from(_CROSSING2),
                         st.lists(inner, max_size=3).map(_canon2))
    if dom == "dict":
        return st.dictionaries(st.sampled_from(["a", "b"]), st.integers(0, 1), max_size=2)
    raise ValueError(dom)


def s_elems(dom, max_size=5):
    if dom in NESTED:
        max_size += 3
    return st.lists(s_elem(dom), max_size=max_size)


def s_operand(dom, kinds, dups=True):
    def build(kind, items):
        if kind != "list" or not dups:
            seen, out = set(), []
            for x in items:
                k = repr(x)
                if k not in seen:
                    seen.add(k)
                    out.append(x)
            items = out
        return {"kind": kind, "items": items}
    return st.builds(build, st.sampled_from(kinds), s_elems(dom))


def _sortedset_strategy(dom):
    setlike = ["sortedset"] + (["set"] if dom in HASHABLE else [])
    anyk = setlike + ["list"]
    e = s_elem(dom)
    idx = st.integers(-6, 6)
    ops = [
        st.builds(lambda x: {"op": "add", "x": x}, e),
        st.builds(lambda x: {"op": "remove", "x": x}, e),
        st.just({"op": "pop"}),
        st.just({"op": "clear"}),
        st.builds(lambda xs: {"op": "update", "items": xs}, s_elems(dom)),
        st.builds(lambda x: {"op": "contains", "x": x}, e),
        st.just({"op": "len"}),
        st.just({"op": "reversed"}),
        st.just({"op": "copy"}),
        st.builds(lambda i: {"op": "getitem", "i": i}, idx),
        st.builds(lambda i: {"op": "delitem", "i": i}, idx),
        st.builds(lambda m, o: {"op": m, "others": o}, st.sampled_from(["union", "intersection", "difference"]),
                  st.lists(s_operand(dom, anyk), min_size=1, max_size=2)),
        st.builds(lambda o: {"op": "symmetric_difference", "other": o}, s_operand(dom, setlike)),
        st.builds(lambda m, o: {"op": m, "other": o},
                  st.sampled_from(["or", "and", "sub", "xor", "ior", "iand", "isub", "ixor"]), s_operand(dom, setlike)),
        st.builds(lambda m, o: {"op": m, "other": o}, st.sampled_from(["isdisjoint", "issubset"]), s_operand(dom, anyk)),
        st.builds(lambda m, o: {"op": m, "other": o}, st.sampled_from(["issuperset"]), s_operand(dom, anyk, dups=False)),
        st.builds(lambda m, o: {"op": m, "other": o}, st.sampled_from(["le", "lt", "ge", "gt", "eq", "ne"]),
                  s_operand(dom, setlike)),
    ]
    if dom in HASHABLE:
        ops.append(st.builds(lambda m, o: {"op": m, "other": o}, st.sampled_from(["ror", "rand", "rsub", "rxor", "req"]),
                             s_operand(dom, ["set"])))
    ops.append(st.builds(lambda h: {"op": "spawn", "how": h},
                         st.sampled_from(["ctor", "ctor", "copy", "copy.copy", "deepcopy", "pickle", "union0", "ctor-of-list"])))
    # which of the live containers the operation is applied to (index modulo their number; 0 = the first)
    targeted = st.builds(lambda o, t: dict(o, t=t), st.one_of(ops), st.sampled_from([0, 0, 1, 2, 3, 4, 5]))
    return st.builds(lambda init, ops_: {"dom": dom, "init": init, "ops": ops_}, s_elems(dom),
                     st.lists(targeted, max_size=14))


def s_sortedset_case():
    # one strategy object per domain, built once: rebuilding strategies inside every draw costs far more
    # than running the case
    return st.one_of([_sortedset_strategy(d) for d in DOMS])


_REMOVALS = ("remove", "pop", "clear", "delitem", "isub", "iand", "ixor")
_BINARY = ("union", "intersection", "difference", "symmetric_difference", "or", "and", "sub", "xor", "ior", "iand", "isub",
           "ixor", "ror", "rand", "rsub", "rxor")


_BASE = {"symmetric_difference": "xor", "or": "or", "and": "and", "sub": "sub", "xor": "xor", "ror": "or", "rand": "and",
         "rsub": "sub", "rxor": "xor", "ior": "or", "iand": "and", "isub": "sub", "ixor": "xor"}


class _Model(object):
    """Python set of canonical images, plus one JSON representative per image."""

    def __init__(self, dom, items=()):
        self.dom = dom
        self.rep = {}
        for j in items:
            self.rep.setdefault(img(dom, j), j)

    def keys(self):
        return set(self.rep)

    def ordered(self):
        if self.dom in TOTAL:
            return sorted(self.rep)
        return None

    def copy(self):
        m = _Model(self.dom)
        m.rep = dict(self.rep)
        return m


def _operand_obj(dom, o):
    from cassandra.util import SortedSet
    items = [mk(dom, j) for j in o["items"]]
    if o["kind"] == "sortedset":
        return SortedSet(items)
    if o["kind"] == "set":
        return set(items)
    return items


def _operand_model(dom, o):
    return _Model(dom, o["items"])


def _check_state(ctx, dom, S, M, after, extra_feat=None):
    """full iteration order / content of driver set S against model M"""
    from cassandra.util import SortedSet
    feats = ["dom=%s" % dom, "after=%s" % after]
    with ctx.driver(["C33.sortedset.iter"] + feats):
        got = [img_of_obj(dom, x) for x in S]
        n = len(S)
    if ctx._failures:
        return False
    want = M.ordered()
    if want is not None:
        if got != want:
            ctx.fail(["C33.sortedset.state"] + feats, "iteration %r, model (ascending) %r" % (got, want))
            return False
    else:
        if len(set(got)) != len(got):
            ctx.fail(["C33.sortedset.duplicates"] + feats, "iteration holds an element twice: %r" % (got,))
            return False
        if set(got) != M.keys():
            ctx.fail(["C33.sortedset.state"] + feats, "content %r, model %r" % (sorted(map(repr, got)), sorted(map(repr, M.keys()))))
            return False
        if dom in NESTED:
            for i in range(len(got)):
                for k in range(i + 1, len(got)):
                    if got[k] < got[i]:
                        ctx.fail(["C33.sortedset.order"] + feats, "element %r iterated after its proper superset %r" % (
                            sorted(map(repr, got[k])), sorted(map(repr, got[i]))))
                        return False
    if n != len(M.rep):
        ctx.fail(["C33.sortedset.len"] + feats, "len() = %d, model %d" % (n, len(M.rep)))
        return False
    if after in ("init", "final") or dom in NESTED:
        # a set is its content: the same elements added in another order give an equal set that iterates
        # the same way (and finds every element)
        with ctx.driver(["C33.sortedset.canonical"] + feats):
            items = list(S)
            for order in (items[::-1], items[1::2] + items[0::2]):
                R = SortedSet(order)
                rgot = [img_of_obj(dom, x) for x in R]
                if not (rgot == got and R == S and not (R != S) and all(x in R for x in items)):
                    ctx.fail(["C33.sortedset.canonical", "dom=%s" % dom],
                             "the same %d elements added in another order iterate as %r, not %r (== %r)" % (len(items), rgot, got, R == S))
                    return False
    return True


_INPLACE = ("add", "remove", "pop", "clear", "update", "delitem", "ior", "iand", "isub", "ixor")


def _check_untouched(ctx, dom, C, Mc, how, after):
    """a container that was not the target of the step still matches its own model"""
    try:
        got = [img_of_obj(dom, x) for x in C]
        n = len(C)
        want = Mc.ordered()
        ok = (got == want) if want is not None else (len(got) == len(set(got)) and set(got) == Mc.keys())
        ok = ok and n == len(Mc.rep)
        shown = repr(sorted(map(repr, got)))
    except Exception as e:  # noqa
        ok, shown = False, "%s: %s" % (type(e).__name__, e)
    if not ok:
        ctx.fail(["C33.sortedset.alias", how],
                 "dom=%s: after %s on another set, a set (%s) shows %s but its own model is %r: storage shared between "
                 "containers" % (dom, after, how, shown, sorted(map(repr, Mc.keys()))))
        return False
    return True


def interpret_sortedset(case, ctx):
    _interpret_sortedset(case, ctx)
    if case["dom"] in NESTED and ctx._failures:
        # SortedSet keeps its elements with a bisection that presumes a total order; nested sets compare by
        # inclusion, so every operation can go wrong in this domain and every symptom (lost membership,
        # duplicates, order, wrong results of derived operations) has that one root cause
        first = ctx._failures[0]
        ctx._failures[:] = [(["C33.sortedset.partial-order", "dom=%s" % case["dom"]], "%s: %s" % ("/".join(first[0]), first[1]))]


def _interpret_sortedset(case, ctx):
    from cassandra.util import SortedSet
    dom = case["dom"]
    D = "dom=%s" % dom
    with ctx.driver(["C33.sortedset.new", D]):
        S = SortedSet([mk(dom, j) for j in case["init"]])
    if ctx._failures:
        return
    M = _Model(dom, case["init"])
    if not _check_state(ctx, dom, S, M, "init"):
        return
    seen_ops = set()
    # every container any operation hands out stays alive with a model of its own; after each step ALL of
    # them are compared with their models, so that two containers sharing storage (a constructor, copy or
    # operator that does not really build a new set) show up as soon as one of them is changed in place
    live = [[S, M, "init"]]
    spawned = aliasable = 0
    for step, op in enumerate(case["ops"]):
        name = op["op"]
        seen_ops.add(name)
        key = ["C33.sortedset." + name, D]
        KE = (KeyError,)
        t = op.get("t", 0) % len(live)
        S, M = live[t][0], live[t][1]
        born = []
        if name == "spawn":
            how = op["how"]
            with ctx.driver(key + [how]):
                if how == "ctor":
                    C = SortedSet(S)
                elif how == "copy":
                    C = S.copy()
                elif how == "copy.copy":
                    C = _copy.copy(S)
                elif how == "deepcopy":
                    C = _copy.deepcopy(S)
                elif how == "pickle":
                    C = pickle.loads(pickle.dumps(S, 2))
                elif how == "union0":
                    C = S.union()
                elif how == "ctor-of-list":
                    C = SortedSet(list(S))
                else:
                    raise AssertionError(how)
                if ctx.check(isinstance(C, SortedSet) and C is not S, key + [how, "type"], "%s gave %r" % (how, type(C))):
                    if _check_state(ctx, dom, C, M, "spawn:" + how):
                        born.append([C, M.copy(), "made-by=" + how])
                        spawned += 1
            if ctx._failures:
                return
        elif name == "add":
            with ctx.driver(key):
                S.add(mk(dom, op["x"]))
            M.rep.setdefault(img(dom, op["x"]), op["x"])
        elif name == "remove":
            present = img(dom, op["x"]) in M.rep
            raised = False
            with ctx.driver(key, expect=KE):
                try:
                    S.remove(mk(dom, op["x"]))
                except KeyError:
                    raised = True
            if ctx._failures:
                return
            ctx.check(raised == (not present), key + ["present" if present else "absent"],
                      "remove(%r): KeyError %s, element %s in the model" % (op["x"], "raised" if raised else "not raised",
                                                                            "is" if present else "is not"))
            M.rep.pop(img(dom, op["x"]), None)
        elif name == "pop":
            raised, r = False, None
            with ctx.driver(key, expect=KE):
                try:
                    r = S.pop()
                except KeyError:
                    raised = True
            if ctx._failures:
                return
            if not ctx.check(raised == (not M.rep), key + ["empty" if not M.rep else "nonempty"],
                             "pop(): KeyError %s on a model of %d elements" % ("raised" if raised else "not raised", len(M.rep))):
                return
            if not raised:
                ri = img_of_obj(dom, r)
                if not ctx.check(ri in M.rep, key + ["member"], "pop() returned %r which is not in the set" % (r,)):
                    return
                del M.rep[ri]
        elif name == "clear":
            with ctx.driver(key):
                S.clear()
            M.rep.clear()
        elif name == "update":
            with ctx.driver(key):
                S.update([mk(dom, j) for j in op["items"]])
            for j in op["items"]:
                M.rep.setdefault(img(dom, j), j)
        elif name == "contains":
            with ctx.driver(key):
                r = mk(dom, op["x"]) in S
                want = img(dom, op["x"]) in M.rep
                ctx.check(r is want, key + ["present" if want else "absent"], "%r in set = %r, model %r" % (op["x"], r, want))
        elif name == "len":
            with ctx.driver(key):
                r = len(S)
                ctx.check(r == len(M.rep), key, "len %r, model %d" % (r, len(M.rep)))
        elif name == "reversed":
            want = M.ordered()
            with ctx.driver(key):
                r = [img_of_obj(dom, x) for x in reversed(S)]
                fwd = [img_of_obj(dom, x) for x in S]
                ctx.check(r == fwd[::-1] and (want is None or r == want[::-1]), key, "reversed() = %r, forward %r" % (r, fwd))
        elif name == "copy":
            with ctx.driver(key):
                C = S.copy()
                ok = isinstance(C, SortedSet) and C is not S
                ctx.check(ok, key + ["type"], "copy() returned %r" % (type(C),))
                if ok:
                    _check_state(ctx, dom, C, M, "copy")
                    C.clear()
                    _check_state(ctx, dom, S, M, "copy-cleared")
        elif name in ("getitem", "delitem"):
            want = M.ordered()
            i = op["i"]
            n = len(M.rep)
            in_range = -n <= i < n
            raised, r = False, None
            with ctx.driver(key, expect=(IndexError,)):
                try:
                    if name == "getitem":
                        r = S[i]
                    else:
                        victim = S[i] if in_range else None
                        del S[i]
                        r = victim
                except IndexError:
                    raised = True
            if ctx._failures:
                return
            if not ctx.check(raised == (not in_range), key + ["in-range" if in_range else "out-of-range"],
                             "index %d on %d elements: IndexError %s" % (i, n, "raised" if raised else "not raised")):
                return
            if in_range and not ctx._failures:
                ri = img_of_obj(dom, r)
                if want is not None:
                    if not ctx.check(ri == want[i], key + ["value"], "[%d] is %r, model %r" % (i, ri, want[i])):
                        return
                elif not ctx.check(ri in M.rep, key + ["value"], "[%d] is %r, not a member" % (i, ri)):
                    return
                if name == "delitem":
                    del M.rep[ri]
        elif name in ("union", "intersection", "difference"):
            objs = [_operand_obj(dom, o) for o in op["others"]]
            mods = [_operand_model(dom, o) for o in op["others"]]
            kinds = "other=" + "+".join(o["kind"] for o in op["others"])
            R = M.copy()
            for m in mods:
                if name == "union":
                    for k, v in m.rep.items():
                        R.rep.setdefault(k, v)
                elif name == "intersection":
                    R.rep = dict((k, v) for k, v in R.rep.items() if k in m.rep)
                else:
                    R.rep = dict((k, v) for k, v in R.rep.items() if k not in m.rep)
            with ctx.driver(key + [kinds]):
                res = getattr(S, name)(*objs)
                if ctx.check(isinstance(res, SortedSet), key + ["type"], "%s() returned %r" % (name, type(res))):
                    if _check_state(ctx, dom, res, R, name, kinds):
                        born.append([res, R, "made-by=" + name])
                for o, obj, om in zip(op["others"], objs, mods):
                    if o["kind"] == "sortedset":
                        born.append([obj, om, "operand-of=" + name])
        elif name in ("symmetric_difference", "or", "and", "sub", "xor", "ror", "rand", "rsub", "rxor",
                      "ior", "iand", "isub", "ixor"):
            o = op["other"]
            obj, om = _operand_obj(dom, o), _operand_model(dom, o)
            kinds = "other=" + o["kind"]
            base = _BASE[name]
            a, b = (om, M) if name in ("ror", "rand", "rsub", "rxor") else (M, om)
            R = _Model(dom)
            if base == "or":
                R.rep = dict(a.rep)
                for k, v in b.rep.items():
                    R.rep.setdefault(k, v)
            elif base == "and":
                R.rep = dict((k, v) for k, v in a.rep.items() if k in b.rep)
            elif base == "sub":
                R.rep = dict((k, v) for k, v in a.rep.items() if k not in b.rep)
            elif base == "xor":
                R.rep = dict((k, v) for k, v in a.rep.items() if k not in b.rep)
                for k, v in b.rep.items():
                    if k not in a.rep:
                        R.rep[k] = v
            else:
                raise AssertionError(name)
            with ctx.driver(key + [kinds]):
                if name == "symmetric_difference":
                    res = S.symmetric_difference(obj)
                elif name == "or":
                    res = S | obj
                elif name == "and":
                    res = S & obj
                elif name == "sub":
                    res = S - obj
                elif name == "xor":
                    res = S ^ obj
                elif name == "ror":
                    res = obj | S
                elif name == "rand":
                    res = obj & S
                elif name == "rsub":
                    res = obj - S
                elif name == "rxor":
                    res = obj ^ S
                else:
                    before = S
                    if name == "ior":
                        S |= obj
                    elif name == "iand":
                        S &= obj
                    elif name == "isub":
                        S -= obj
                    else:
                        S ^= obj
                    ctx.check(S is before, key + ["identity"], "in-place operator rebound the set to a new object")
                    res = None
                    M.rep = R.rep
                if res is not None and ctx.check(isinstance(res, SortedSet), key + ["type", kinds],
                                                 "%s returned %r" % (name, type(res))):
                    if _check_state(ctx, dom, res, R, name, kinds):
                        born.append([res, R, "made-by=" + name])
                if o["kind"] == "sortedset":
                    born.append([obj, om, "operand-of=" + name])
        elif name in ("isdisjoint", "issubset", "issuperset", "le", "lt", "ge", "gt", "eq", "ne", "req"):
            o = op["other"]
            obj, om = _operand_obj(dom, o), _operand_model(dom, o)
            kinds = "other=" + o["kind"]
            a, b = M.keys(), om.keys()
            want = {"isdisjoint": not (a & b), "issubset": a <= b, "issuperset": a >= b, "le": a <= b, "lt": a < b,
                    "ge": a >= b, "gt": a > b, "eq": a == b, "ne": a != b, "req": a == b}[name]
            with ctx.driver(key + [kinds]):
                if name == "isdisjoint":
                    r = S.isdisjoint(obj)
                elif name == "issubset":
                    r = S.issubset(obj)
                elif name == "issuperset":
                    r = S.issuperset(obj)
                elif name == "le":
                    r = S <= obj
                elif name == "lt":
                    r = S < obj
                elif name == "ge":
                    r = S >= obj
                elif name == "gt":
                    r = S > obj
                elif name == "eq":
                    r = S == obj
                elif name == "ne":
                    r = S != obj
                else:
                    r = obj == S
                ctx.check(r is want, key + [kinds, "expect=%s" % want], "%s(%r) on %r = %r, model %r" % (
                    name, o["items"], sorted(map(repr, a)), r, want))
        else:
            raise AssertionError("unknown op %r" % name)
        if ctx._failures:
            return
        if not _check_state(ctx, dom, S, M, name):
            return
        # ... and nobody else changed
        everyone = live + born
        for i, (C, Mc, how) in enumerate(everyone):
            if C is S:
                continue
            # name the finding after the younger of the two containers: the one whose making shared the storage
            if not _check_untouched(ctx, dom, C, Mc, how if i > t else everyone[t][2], name):
                return
        if name in _INPLACE and len(live) > 1:
            aliasable += 1
        live.extend(born)
        while len(live) > 6:
            live.pop(1)
    for C, Mc, how in live:
        if not _check_state(ctx, dom, C, Mc, "final"):
            return
    n = len(case["ops"])
    ctx.label("sortedset", "set:dom=%s" % dom)
    if spawned:
        ctx.label("set:spawned-container")
    if aliasable:
        ctx.label("set:in-place-op-with-other-containers-alive")
    if seen_ops & set(_REMOVALS):
        ctx.label("set:removal")
    if seen_ops & set(_BINARY):
        ctx.label("set:binary-op")
    ctx.nontrivial((n >= 5 and bool(seen_ops & set(_REMOVALS)) and bool(seen_ops & set(_BINARY)))
                   or (dom not in HASHABLE and n >= 1))


# ----------------------------------------------------------------------------
# ordered maps
# ----------------------------------------------------------------------------

KTYPES = ("int", "text", "tuple", "list", "set", "map")
K_HASHABLE = ("int", "text", "tuple")


def _i32(n):
    return struct.pack(">i", n)


def enc_key(kt, j):
    """independent CQL encoding (native protocol v3+ collection layout) of a key in JSON form"""
    if kt == "int":
        return _i32(j)
    if kt == "text":
        return j.encode("utf-8")
    if kt in ("list", "set"):
        out = _i32(len(j))
        for x in j:
            out += _i32(4) + _i32(x)
        return out
    if kt == "tuple":
        a, b = j
        bb = b.encode("utf-8")
        return _i32(4) + _i32(a) + _i32(len(bb)) + bb
    if kt == "map":
        out = _i32(len(j))
        for k, v in j:
            out += _i32(4) + _i32(k) + _i32(4) + _i32(v)
        return out
    raise ValueError(kt)


def enc_map(kt, pairs):
    out = _i32(len(pairs))
    for k, v in pairs:
        kb = enc_key(kt, k)
        out += _i32(len(kb)) + kb
        out += _i32(-1) if v is None else _i32(4) + _i32(v)
    return out


def mk_key(kt, j):
    from cassandra.util import SortedSet
    if kt == "tuple":
        return (j[0], j[1])
    if kt == "list":
        return list(j)
    if kt == "set":
        return SortedSet(j)
    if kt == "map":
        d = {}
        for k, v in j:
            d[k] = v
        return d
    return j


def unmk_key(kt, o):
    if kt in ("tuple", "list"):
        return list(o)
    if kt == "set":
        return sorted(o)
    if kt == "map":
        return [[k, v] for k, v in o.items()]
    return o


def cass_key_type(kt):
    from cassandra import cqltypes as T
    i = T.Int32Type
    return {"int": i, "text": T.UTF8Type, "list": T.ListType.apply_parameters([i]), "set": T.SetType.apply_parameters([i]),
            "tuple": T.TupleType.apply_parameters([i, T.UTF8Type]), "map": T.MapType.apply_parameters([i, i])}[kt]


def s_key(kt):
    small = st.integers(-1, 3)
    if kt == "int":
        return st.sampled_from([-1, 0, 1, 2, 3, 2 ** 31 - 1, -2 ** 31])
    if kt == "text":
        return st.sampled_from(["", "a", "b", "ab", "A", "é", "a\x00"])
    if kt == "list":
        return st.lists(small, max_size=2)
    if kt == "set":
        return st.lists(small, max_size=3, unique=True).map(sorted)
    if kt == "tuple":
        return st.tuples(st.integers(0, 2), st.sampled_from(["", "a", "b"])).map(list)
    if kt == "map":
        return st.lists(st.integers(0, 2), max_size=2, unique=True).map(sorted).flatmap(
            lambda ks: st.tuples(*[st.integers(0, 1) for _ in ks]).map(lambda vs: [[k, v] for k, v in zip(ks, vs)]))
    raise ValueError(kt)


def _dedup_pairs(kt, pairs):
    seen, out = set(), []
    for k, v in pairs:
        b = enc_key(kt, k)
        if b not in seen:
            seen.add(b)
            out.append([k, v])
    return out


def _map_strategy(variant, kt):
    k = s_key(kt)
    v = st.one_of(st.none(), st.integers(0, 3))
    pairs = st.lists(st.tuples(k, v).map(list), max_size=5)
    init = pairs.map(lambda p: _dedup_pairs(kt, p)) if variant == "serialized" else pairs
    ops = [
        st.builds(lambda a, b: {"op": "set", "k": a, "v": b}, k, v),
        st.builds(lambda a: {"op": "del", "k": a}, k),
        st.builds(lambda a: {"op": "get", "k": a}, k),
        st.builds(lambda a: {"op": "getd", "k": a}, k),
        st.builds(lambda a: {"op": "contains", "k": a}, k),
        st.just({"op": "popitem"}),
        st.just({"op": "len"}),
        st.builds(lambda kind, p: {"op": "eq", "kind": kind, "pairs": p},
                  st.sampled_from(["same", "omap", "dict"] if kt in K_HASHABLE else ["same", "omap"]),
                  pairs.map(lambda p: _dedup_pairs(kt, p))),
    ]
    ops.append(st.builds(lambda h: {"op": "spawn", "how": h}, st.sampled_from(["ctor", "ctor-of-items", "copy.copy", "deepcopy"])))
    targeted = st.builds(lambda o, t: dict(o, t=t), st.one_of(ops), st.sampled_from([0, 0, 1, 2, 3, 4]))
    return st.builds(lambda proto, i, o: {"variant": variant, "ktype": kt, "proto": proto, "init": i, "ops": o},
                     st.sampled_from([3, 4, 5]), init, st.lists(targeted, max_size=12))


def s_map_case():
    return st.one_of([_map_strategy(v, kt) for v in ("serialized", "serialized", "pickle") for kt in KTYPES])


class _MapModel(object):
    def __init__(self, kt):
        self.kt = kt
        self.items = []          # [kbytes, key_json, value]

    def find(self, j):
        b = enc_key(self.kt, j)
        for i, it in enumerate(self.items):
            if it[0] == b:
                return i
        return -1

    def set(self, j, v):
        i = self.find(j)
        if i >= 0:
            self.items[i] = [self.items[i][0], j, v]
        else:
            self.items.append([enc_key(self.kt, j), j, v])

    def pairs(self):
        return [[it[1], it[2]] for it in self.items]


def _check_map_state(ctx, feats, m, M, after):
    kt = M.kt
    with ctx.driver(["C33.map.iter"] + feats + ["after=%s" % after]):
        keys = [unmk_key(kt, k) for k in m]
        items = [[unmk_key(kt, k), v] for k, v in m.items()]
        values = list(m.values())
        n = len(m)
    if ctx._failures:
        return False
    want = M.pairs()
    ok = (items == want and keys == [p[0] for p in want] and values == [p[1] for p in want] and n == len(want))
    if not ok:
        ctx.fail(["C33.map.state"] + feats + ["after=%s" % after], "items %r (keys %r, len %r), model %r" % (items, keys, n, want))
    return ok


def _new_map(case, pairs, ctx, feats):
    """an ordered map of the case's variant holding `pairs`"""
    from cassandra.util import OrderedMap
    from cassandra import cqltypes as T
    kt = case["ktype"]
    if case["variant"] == "pickle":
        return OrderedMap([(mk_key(kt, k), v) for k, v in pairs])
    mt = T.MapType.apply_parameters([cass_key_type(kt), T.Int32Type])
    return mt.deserialize(enc_map(kt, pairs), case["proto"])


def interpret_map(case, ctx):
    from cassandra.util import OrderedMap, OrderedMapSerializedKey
    kt, variant = case["ktype"], case["variant"]
    feats = [variant, "key=%s" % kt]
    M = _MapModel(kt)
    for k, v in case["init"]:
        M.set(k, v)
    with ctx.driver(["C33.map.new"] + feats):
        m = _new_map(case, case["init"], ctx, feats)
    if ctx._failures:
        return
    want_cls = OrderedMapSerializedKey if variant == "serialized" else OrderedMap
    if not ctx.check(isinstance(m, want_cls), ["C33.map.type"] + feats, "map is a %r" % type(m)):
        return
    if not _check_map_state(ctx, feats, m, M, "init"):
        return
    seen = set()
    overwrite = False
    live = [[m, M, "init"]]
    spawned = aliasable = 0
    for op in case["ops"]:
        name = op["op"]
        seen.add(name)
        key = ["C33.map." + name] + feats
        t = op.get("t", 0) % len(live)
        m, M = live[t][0], live[t][1]
        born = []
        if name == "spawn":
            how = op["how"]
            if how == "ctor" and variant != "pickle":
                how = "copy.copy"        # OrderedMapSerializedKey has no constructor taking a mapping
            with ctx.driver(key + [how]):
                if how == "ctor":
                    c = OrderedMap(m)
                elif how == "ctor-of-items":
                    c = OrderedMap(list(m.items())) if variant == "pickle" else _copy.deepcopy(m)
                elif how == "copy.copy":
                    c = _copy.copy(m)
                elif how == "deepcopy":
                    c = _copy.deepcopy(m)
                else:
                    raise AssertionError(how)
                if ctx.check(isinstance(c, want_cls) and c is not m, key + [how, "type"], "%s gave %r" % (how, type(c))):
                    Mc = _MapModel(kt)
                    Mc.items = [list(it) for it in M.items]
                    if _check_map_state(ctx, feats, c, Mc, "spawn:" + how):
                        born.append([c, Mc, "made-by=" + how])
                        spawned += 1
        elif name == "set":
            if M.find(op["k"]) >= 0:
                overwrite = True
            with ctx.driver(key):
                m[mk_key(kt, op["k"])] = op["v"]
            M.set(op["k"], op["v"])
        elif name in ("del", "get"):
            i = M.find(op["k"])
            raised, r = False, None
            with ctx.driver(key, expect=(KeyError,)):
                try:
                    if name == "del":
                        del m[mk_key(kt, op["k"])]
                    else:
                        r = m[mk_key(kt, op["k"])]
                except KeyError:
                    raised = True
            if ctx._failures:
                return
            if not ctx.check(raised == (i < 0), key + ["present" if i >= 0 else "absent"],
                             "%s %r: KeyError %s, key %s in the model" % (name, op["k"], "raised" if raised else "not raised",
                                                                         "is" if i >= 0 else "is not")):
                return
            if i >= 0:
                if name == "get":
                    ctx.check(r == M.items[i][2] and type(r) is type(M.items[i][2]), key + ["value"],
                              "m[%r] = %r, model %r" % (op["k"], r, M.items[i][2]))
                else:
                    M.items.pop(i)
        elif name == "getd":
            i = M.find(op["k"])
            sentinel = "dflt"
            with ctx.driver(key):
                r = m.get(mk_key(kt, op["k"]), sentinel)
                want = M.items[i][2] if i >= 0 else sentinel
                ctx.check(r == want, key + ["present" if i >= 0 else "absent"], "get(%r) = %r, model %r" % (op["k"], r, want))
        elif name == "contains":
            i = M.find(op["k"])
            with ctx.driver(key):
                r = mk_key(kt, op["k"]) in m
                ctx.check(r is (i >= 0), key + ["present" if i >= 0 else "absent"], "%r in map = %r" % (op["k"], r))
        elif name == "popitem":
            raised, r = False, None
            with ctx.driver(key, expect=(KeyError,)):
                try:
                    r = m.popitem()
                except KeyError:
                    raised = True
            if ctx._failures:
                return
            if not ctx.check(raised == (not M.items), key + ["empty" if not M.items else "nonempty"],
                             "popitem(): KeyError %s on %d items" % ("raised" if raised else "not raised", len(M.items))):
                return
            if not raised:
                last = M.items.pop()
                got = [unmk_key(kt, r[0]), r[1]] if isinstance(r, tuple) and len(r) == 2 else r
                ctx.check(got == [last[1], last[2]], key + ["value"], "popitem() = %r, model (last inserted) %r" % (
                    got, [last[1], last[2]]))
        elif name == "len":
            with ctx.driver(key):
                ctx.check(len(m) == len(M.items), key, "len %d, model %d" % (len(m), len(M.items)))
        elif name == "eq":
            kind = op["kind"]
            pairs = M.pairs() if kind == "same" else op["pairs"]
            mine = M.pairs()
            same_content = (sorted(map(repr, pairs)) == sorted(map(repr, mine)))
            same_order = pairs == mine
            with ctx.driver(key + [kind]):
                if kind == "dict":
                    other = dict((mk_key(kt, k), v) for k, v in pairs)
                    r = (m == other)
                    ctx.check(r is same_content, key + [kind, "expect=%s" % same_content],
                              "map %r == dict %r -> %r" % (mine, pairs, r))
                else:
                    other = _new_map(case, pairs, ctx, feats)
                    r = (m == other)
                    r2 = (m != other)
                    if same_order:
                        ctx.check(r is True and r2 is False, key + [kind, "expect=True"], "maps with equal pairs %r compare == %r, != %r" % (mine, r, r2))
                    elif not same_content:
                        ctx.check(r is False and r2 is True, key + [kind, "expect=False"],
                                  "maps %r and %r compare == %r, != %r" % (mine, pairs, r, r2))
                    else:
                        ctx.label("map:eq-reordered-unjudged")
        else:
            raise AssertionError(name)
        if ctx._failures:
            return
        if not _check_map_state(ctx, feats, m, M, name):
            return
        # every other live map still matches its own model (no storage shared between containers)
        everyone = live + born
        for i, (c, Mc, how) in enumerate(everyone):
            if c is m:
                continue
            # name the finding after the younger of the two containers: the one whose making shared the storage
            how = how if i > t else everyone[t][2]
            # one root cause per way of making the container: exceptions (a half-shared index) and plain
            # differences are the same finding
            try:
                items = [[unmk_key(kt, k), v] for k, v in c.items()]
                n = len(c)
                looked = [c[mk_key(kt, it[1])] for it in Mc.items]
                same = items == Mc.pairs() and n == len(Mc.items) and looked == [it[2] for it in Mc.items]
                seen_state = repr(items)
            except Exception as e:  # noqa
                same, seen_state = False, "%s: %s" % (type(e).__name__, e)
            if not ctx.check(same, ["C33.map.alias", how],
                             "%s: after %s on another map, a map (%s) shows %s but its own model is %r: storage shared between "
                             "containers" % ("/".join(feats), name, how, seen_state, Mc.pairs())):
                return
        if name in ("set", "del", "popitem") and len(live) > 1:
            aliasable += 1
        live.extend(born)
        while len(live) > 5:
            live.pop(1)
    ctx.label("map", "map:%s" % variant, "map:key=%s" % kt)
    if spawned:
        ctx.label("map:spawned-container")
    if aliasable:
        ctx.label("map:mutation-with-other-containers-alive")
    if overwrite:
        ctx.label("map:overwrite")
    if seen & set(["del", "popitem"]):
        ctx.label("map:deletion")
    n = len(case["ops"])
    ctx.nontrivial((n >= 4 and overwrite and bool(seen & set(["del", "popitem"]))) or (kt not in K_HASHABLE and n >= 1))


def parts(tier):
    return [
        hyp_part("sortedset", s_sortedset_case, interpret_sortedset, tier, quick=1400, thorough=8000, quick_shards=2),
        hyp_part("map", s_map_case, interpret_map, tier, quick=800, thorough=6000, quick_shards=2, thorough_shards=8),
    ]
