"""C05 -- incoming frames are reassembled exactly under any TCP chunking (v1-v4 + DSE headers)."""
from hypothesis import strategies as st

from checks import _conn as K
from vlib.harness import EnumPart, hyp_part

PID = "C05"
TITLE = "Incoming frames are reassembled exactly under any TCP chunking"
LEVEL = "exploration"
ENGINE = "proto"
TECHNIQUE = ("property-based testing (Hypothesis) of the real Connection read path against a history model, "
             "metamorphic re-chunking, plus exhaustive enumeration of cut positions for small streams")
RULE = ("A case is 1-8 response frames (header version 1,2: 8-byte header / 3,4,0x41,0x42: 9-byte header; one version per "
        "stream or, rarely, mixed), each a data frame (stream id incl. the int8/int16 extremes, response opcode, any flags "
        "byte, body length from {0,1,2,7..10,4095..4097,8192,12288} or 0..12288 = 3 x in_buffer_size, body content random / "
        "repeating / zero / header-look-alike, handler registered or not = response to a timed-out request) or an EVENT frame "
        "(stream -1, hand-built STATUS_CHANGE / TOPOLOGY_CHANGE / SCHEMA_CHANGE body, watcher registered or not), optionally a "
        "truncated last frame, in one case of four a frame that kills the connection (response whose decoder raises / "
        "undecodable EVENT body / unsupported version byte; usually with more frames behind it, often an EVENT with a "
        "registered watcher), and two cut lists built by construction: every-n-bytes (n=1 for streams up to a few hundred "
        "bytes), cuts at +-2 around every frame start / body start / frame end, cuts strictly inside a chosen header, strictly "
        "inside a chosen body, runs of one-byte reads, absolute offsets.  The bytes are fed to a socket-less Connection exactly "
        "as the reactors do (_iobuf.write + process_io_buffer).  The enumeration part runs every single and double cut of "
        "2-frame streams (quick: versions 2 and 4, body lengths 0..2; thorough: all six versions, all body-length pairs with "
        "total stream length <= 40).  Non-trivial: >= 2 frames and at least one cut strictly inside a frame header and one "
        "strictly inside a body.")
ASSUMPTIONS = [
    "the socket is replaced by direct calls of _iobuf.write(chunk); process_io_buffer() -- the two statements every shipped reactor's handle_read executes; close() follows the reactors' contract",
    "data frames are observed through a recording decoder and callback registered in Connection._requests (the documented per-request hook of send_msg); EVENT frames go through the real ProtocolHandler.decode_message and watchers in _push_watchers",
    "a handler for a re-used stream id is registered from the callback of the previous response on that stream, as ResponseFuture callbacks do",
    "after a frame that makes the connection defunct nothing more may be handed to handlers or watchers, also not frames that arrived in the same read (handlers being failed with ConnectionShutdown is expected and not compared)",
]
LEVEL_TEXT = ("generated search plus exhaustive cut enumeration for the stated small streams; no claim for inputs outside "
              "the generated domain")

VERSIONS = [1, 2, 3, 4, 0x41, 0x42]
_LENS = [0, 1, 2, 7, 8, 9, 10, 17, 18, 4095, 4096, 4097, 8192, 12288]
_EVENT_KINDS = ["STATUS_CHANGE", "TOPOLOGY_CHANGE", "SCHEMA_CHANGE"]


# ---------------------------------------------------------------------------------------
# strategies (cases are plain data)
# ---------------------------------------------------------------------------------------

def _stream_ids(v):
    if v < 3:
        return st.one_of(st.sampled_from([0, 1, 126, 127]), st.integers(0, 127), st.integers(0, 6))
    return st.one_of(st.sampled_from([0, 1, 127, 128, 255, 256, 32767]), st.integers(0, 32767), st.integers(0, 6))


def _event_desc():
    addr = st.one_of(st.binary(min_size=4, max_size=4), st.binary(min_size=16, max_size=16)).map(lambda b: b.hex())
    name = st.text(alphabet="abcXYZ_09é中", min_size=1, max_size=12)
    node = st.fixed_dictionaries({"type": st.just("STATUS_CHANGE"), "change": st.sampled_from(["UP", "DOWN"]),
                                  "addr": addr, "port": st.sampled_from([0, 9042, 65535])})
    topo = st.fixed_dictionaries({"type": st.just("TOPOLOGY_CHANGE"),
                                  "change": st.sampled_from(["NEW_NODE", "REMOVED_NODE", "MOVED_NODE"]),
                                  "addr": addr, "port": st.sampled_from([0, 9042, 65535])})
    schema = st.fixed_dictionaries({"type": st.just("SCHEMA_CHANGE"),
                                    "change": st.sampled_from(["CREATED", "UPDATED", "DROPPED"]),
                                    "keyspace": name, "table": st.one_of(st.just(""), name)})
    return st.one_of(node, topo, schema)


def _data_frame(v, lens):
    return st.fixed_dictionaries({
        "v": st.just(v), "stream": _stream_ids(v), "op": st.sampled_from(K.RESPONSE_OPCODES),
        "flags": st.sampled_from([0, 0, 1, 2, 4, 8, 0x0F, 0xFF]), "len": lens,
        "kind": st.sampled_from(["rand", "rep", "zero", "hdr"]), "seed": st.integers(0, 999),
        "reg": st.sampled_from([True, True, True, True, False])})


def _event_frame(v):
    return st.fixed_dictionaries({"v": st.just(v), "stream": st.sampled_from([-1, -1, -1, -2, -128]),
                                  "event": _event_desc()})


def _frame(v, lens):
    data = _data_frame(v, lens)
    return st.one_of(data, data, data, _event_frame(v))


def _cut_items():
    k = st.integers(0, 31)
    return st.lists(st.one_of(
        st.tuples(st.just("b"), k, st.sampled_from([-2, -1, 0, 1, 2])),
        st.tuples(st.just("h"), k, st.integers(0, 8)),
        st.tuples(st.just("y"), k, st.integers(0, 20000)),
        st.tuples(st.just("run"), k, st.sampled_from([-3, -1, 0, 5]), st.integers(1, 12)),
        st.tuples(st.just("a"), st.integers(0, 120000)),
    ).map(list), min_size=0, max_size=12)


def _cuts(small):
    every = st.sampled_from([0, 1, 1, 2, 3, 7]) if small else st.sampled_from([0, 0, 0, 1021, 4096, 4097])
    return st.fixed_dictionaries({"every": every, "items": _cut_items()})


@st.composite
def s_stream(draw):
    v = draw(st.sampled_from(VERSIONS))
    small = draw(st.booleans())
    mixed = draw(st.integers(0, 9)) == 0
    lens = st.one_of(st.sampled_from(_LENS[:9]), st.integers(0, 40)) if small else \
        st.one_of(st.sampled_from(_LENS), st.integers(0, 300), st.integers(0, 12288))
    n = draw(st.integers(1, 8))
    frames = []
    for _ in range(n):
        fv = draw(st.sampled_from(VERSIONS)) if mixed else v
        frames.append(draw(_frame(fv, lens)))
    watch = draw(st.lists(st.sampled_from(_EVENT_KINDS), unique=True, max_size=3))
    trunc = draw(st.sampled_from([0, 0, 0, 1, 2, 9, 10]))
    # a frame that kills the connection (undecodable response / undecodable event / unsupported
    # version byte), usually followed by more frames: nothing behind it may be delivered
    poison = draw(st.sampled_from([None] * 9 + ["decode", "garbage", "version"]))
    if poison is not None:
        at = draw(st.integers(0, n - 1))
        if poison == "garbage":
            bad = dict(draw(_event_frame(v)), poison=poison)
        else:
            bad = dict(draw(_data_frame(v, lens)), poison=poison, reg=True)
        frames[at] = bad
        if draw(st.booleans()):
            frames.insert(at + 1, draw(_event_frame(v)))
            watch = list(_EVENT_KINDS)
        trunc = 0
    return {"version": v, "frames": frames, "watch": watch, "trunc": trunc,
            "cuts": draw(_cuts(small)), "cuts2": draw(_cuts(small))}


# ---------------------------------------------------------------------------------------
# building the byte stream and the expected history
# ---------------------------------------------------------------------------------------

def _build(case):
    """-> (stream bytes, meta, expected history, watch set, deliver_ends, poison).
    meta[i] = (start, body_start, end); deliver_ends = end offsets of the frames that produce the
    entries of `expected`, in order; poison = None or {"index", "kind", "token", "end"} for the first
    frame that kills the connection (nothing behind it is expected)."""
    watch = set(case.get("watch", []))
    blobs, meta, parts = [], [], []
    pos = 0
    tokens = {}          # stream id -> number of handlers that will ever be registered
    for f in case["frames"]:
        if "event" not in f and f.get("reg", True):
            tokens[f["stream"]] = tokens.get(f["stream"], 0) + 1
    for f in case["frames"]:
        v = f["v"]
        if "event" in f:
            if f.get("poison") == "garbage":
                body, etype, exp = K.garbage_event_body(f["event"]), f["event"]["type"], None
            else:
                body, etype, exp = K.event_body(f["event"], v)
            raw = K.frame(v, 0, f["stream"], K.OP_EVENT, body)
            parts.append((etype, exp, body))
        else:
            body = K.body_bytes(f["kind"], f["len"], f["seed"], v)
            wire_v = 9 if f.get("poison") == "version" else v       # 9: not a protocol version the driver knows
            raw = K.frame(wire_v, f["flags"], f["stream"], f["op"], body)
            parts.append((None, None, body))
        hl = K.frame_header_len(v)
        meta.append((pos, pos + hl, pos + len(raw)))
        blobs.append(raw)
        pos += len(raw)
    data = b"".join(blobs)
    trunc = case.get("trunc", 0)
    if trunc and blobs:
        data = data[:len(data) - min(trunc, len(blobs[-1]))]
    total = len(data)

    expected, deliver_ends, used, poison = [], [], {}, None
    for i, f in enumerate(case["frames"]):
        s0, b0, e0 = meta[i]
        kind = f.get("poison")
        if kind == "version" and s0 < total:
            poison = {"index": i, "kind": kind, "token": None, "end": s0 + 1}
            break
        if e0 > total:
            break               # the incomplete last frame must not be delivered
        etype, exp, body = parts[i]
        if "event" in f:
            if kind == "garbage":
                poison = {"index": i, "kind": kind, "token": None, "end": e0}
                break
            if etype in watch:
                expected.append(("event", etype, _norm_event(exp)))
                deliver_ends.append(e0)
        else:
            s = f["stream"]
            k = used.get(s, 0)
            if k < tokens.get(s, 0):
                used[s] = k + 1
                if kind == "decode":
                    poison = {"index": i, "kind": kind, "token": (s, k), "end": e0}
                    break
                # handler number k of stream s receives it
                expected.append(("resp", s, k, f["v"], s, f["flags"], f["op"], body))
                deliver_ends.append(e0)
    return data, meta, expected, watch, deliver_ends, poison


_norm_event = K.norm_event


def _resolve(case_cuts, total, meta):
    bounds = []
    for (s, b, e) in meta:
        bounds.extend([s, b, e])
    n = len(meta)
    generic = {"every": case_cuts.get("every", 0), "items": []}
    extra = set()
    for it in case_cuts.get("items", []):
        if it[0] == "h" and n:
            s, b, e = meta[it[1] % n]
            extra.add(s + 1 + it[2] % (b - s - 1))
        elif it[0] == "y" and n:
            s, b, e = meta[it[1] % n]
            if e - b >= 2:
                extra.add(b + 1 + it[2] % (e - b - 1))
        else:
            generic["items"].append(it)
    cuts = set(K.resolve_cuts(total, bounds, generic))
    cuts.update(c for c in extra if 0 < c < total)
    return sorted(cuts)


# ---------------------------------------------------------------------------------------
# one run of the real connection
# ---------------------------------------------------------------------------------------

class _Undecodable(Exception):
    pass


def _run(case, data, meta, watch, cuts, deliver_ends, poison, ctx, tag):
    """Feed `data` cut at `cuts`; returns (history, after_defunct, problems).  History entries as in
    `expected` plus ("error", stream, k, ExcName) for handlers that were failed; after_defunct
    lists the responses/events handed over although the connection was already defunct."""
    hist = []
    after_defunct = []
    pos = [0]
    early = []
    conn = K.make_conn(case["version"])
    conn.step_budget = 4 * (len(cuts) + 1 + len(meta)) + 64
    queues = {}
    for f in case["frames"]:
        if "event" not in f and f.get("reg", True):
            queues[f["stream"]] = queues.get(f["stream"], 0) + 1
    nth = {}
    poison_token = poison["token"] if poison else None

    def decoder(version, user_type_map, stream_id, flags, opcode, body, decompressor, result_metadata):
        return ("decoded", version, stream_id, flags, opcode, bytes(body), result_metadata)

    def bad_decoder(*args):
        raise _Undecodable("response body cannot be decoded")

    def register(s):
        k = nth.get(s, 0)
        if k >= queues.get(s, 0):
            return
        nth[s] = k + 1
        conn._requests[s] = (make_cb(s, k), bad_decoder if (s, k) == poison_token else decoder, ("meta", s, k))

    def make_cb(s, k):
        def cb(response):
            try:
                if isinstance(response, tuple) and response and response[0] == "decoded":
                    _, version, stream_id, flags, opcode, body, rm = response
                    entry = ("resp", s, k, version, stream_id, flags, opcode, body)
                    if conn.is_defunct:
                        after_defunct.append(entry)
                    else:
                        hist.append(entry)
                        early.append(pos[0])
                        if rm != ("meta", s, k):
                            hist.append(("bad-result-metadata", s, k, repr(rm)))
                else:
                    hist.append(("error", s, k, type(response).__name__))
                register(s)
            except Exception as e:  # never let the driver swallow a harness problem silently
                hist.append(("harness-exception", repr(e)))
        return cb

    def make_watcher(etype):
        def w(args):
            try:
                entry = ("event", etype, _norm_event(args))
                if conn.is_defunct:
                    after_defunct.append(entry)
                else:
                    hist.append(entry)
                    early.append(pos[0])
            except Exception as e:
                hist.append(("harness-exception", repr(e)))
        return w

    for s in sorted(queues):
        register(s)
    for etype in sorted(watch):
        conn._push_watchers[etype].add(make_watcher(etype))

    late = []

    def after(fed):
        if late or conn.is_defunct:
            return
        due = 0
        for e in deliver_ends:
            if e <= fed:
                due += 1
        got = sum(1 for h in hist if h[0] != "error")
        if got < due:
            late.append((fed, got, due))

    with ctx.driver(["C05.feed", tag]):
        K.feed(conn, data, cuts, on_chunk=after, pos=pos)

    problems = []
    # no delivery before the last byte of the frame was handed over
    for j, fed_at in enumerate(early):
        if j < len(deliver_ends) and fed_at < deliver_ends[j]:
            problems.append((["C05.early"], "delivery %d happened with %d bytes fed, frame ends at %d" % (
                j, fed_at, deliver_ends[j])))
            break
    if late:
        problems.append((["C05.late"], "after %d bytes were fed %d frame(s) had been delivered, %d were complete" % late[0]))
    if poison is not None:
        pass        # the connection is expected to die at the poison frame; judged by the history
    elif conn.is_defunct or conn.is_closed:
        problems.append((["C05.defunct", type(conn.last_error).__name__],
                         "connection defunct/closed after a valid stream: %r" % (conn.last_error,)))
    else:
        complete_end = max([m[2] for m in meta if m[2] <= len(data)] + [0])
        rest = conn._io_buffer.io_buffer.getvalue()
        if rest != data[complete_end:]:
            problems.append((["C05.residue"], "buffer holds %d bytes after the stream was consumed, expected %d" % (
                len(rest), len(data) - complete_end)))
        if complete_end == len(data) and conn._current_frame is not None:
            problems.append((["C05.residue", "current_frame"], "_current_frame still set after the last complete frame"))
    return hist, after_defunct, problems


def _diff_kind(got, exp):
    n = min(len(got), len(exp))
    for i in range(n):
        if got[i] != exp[i]:
            g, e = got[i], exp[i]
            if g[0] != e[0]:
                return "order", i
            if g[0] == "resp" and g[1:3] == e[1:3]:
                return "content", i
            if g[0] == "event" and g[1] == e[1]:
                return "content", i
            return "order", i
    if len(got) < len(exp):
        return "missing", n
    if len(got) > len(exp):
        return "extra", n
    return None, -1


def _short(entry):
    if entry[0] == "resp":
        return entry[:7] + ("body[%d]" % len(entry[7]),)
    return entry


def interpret(case, ctx):
    data, meta, expected, watch, deliver_ends, poison = _build(case)
    total = len(data)
    hdr = "hdr8" if all(f["v"] < 3 for f in case["frames"]) else (
        "hdr9" if all(f["v"] >= 3 for f in case["frames"]) else "mixed")
    cuts = _resolve(case["cuts"], total, meta)
    runs = [("cuts", cuts)]
    if case.get("cuts2") is not None:
        runs.append(("cuts2", _resolve(case["cuts2"], total, meta)))
    histories = []
    for tag, cl in runs:
        hist, after_defunct, problems = _run(case, data, meta, watch, cl, deliver_ends, poison, ctx, tag)
        if after_defunct:
            ctx.fail(["C05.after-defunct", hdr],
                     "[%s] %d response(s)/event(s) were handed to handlers/watchers after the connection had become "
                     "defunct, first: %r" % (tag, len(after_defunct), _short(after_defunct[0])))
        if poison is not None:
            # handlers that were failed when the connection died are not part of the comparison
            hist = [h for h in hist if h[0] != "error"]
        histories.append(hist)
        for key, msg in problems:
            ctx.fail(key + ([hdr] if key[0] in ("C05.early", "C05.late") else []), "[%s] %s" % (tag, msg))
        kind, at = _diff_kind(hist, expected)
        if kind is not None:
            g = _short(hist[at]) if at < len(hist) else None
            e = _short(expected[at]) if at < len(expected) else None
            ctx.fail(["C05.history", kind, hdr],
                     "[%s] delivery history differs from the sent frames at position %d: got %r, expected %r "
                     "(%d delivered, %d expected; %d cuts)" % (tag, at, g, e, len(hist), len(expected), len(cl)))
    if len(histories) == 2 and histories[0] != histories[1]:
        ctx.fail(["C05.metamorphic", hdr], "same frames, two cut lists, different delivery histories (%d vs %d entries)" % (
            len(histories[0]), len(histories[1])))

    # ---- classification
    in_header = in_body = False
    for c in cuts:
        for (s, b, e) in meta:
            if s < c < b:
                in_header = True
            elif b < c < e:
                in_body = True
    n = len(case["frames"])
    ctx.label(hdr, "frames=%s" % (n if n < 3 else "3+"))
    if in_header:
        ctx.label("cut-in-header")
    if in_body:
        ctx.label("cut-in-body")
    if any(c in (s, b, e) for c in cuts for (s, b, e) in meta):
        ctx.label("cut-on-boundary")
    if cuts and len(cuts) == total - 1:
        ctx.label("one-byte-reads")
    if any("event" in f for f in case["frames"]):
        ctx.label("has-event")
    if any("event" not in f and not f.get("reg", True) for f in case["frames"]):
        ctx.label("has-orphan-response")
    if any("event" not in f and f["len"] > 4096 for f in case["frames"]):
        ctx.label("body>in_buffer_size")
    if any("event" not in f and f["len"] == 0 for f in case["frames"]):
        ctx.label("empty-body")
    if case.get("trunc"):
        ctx.label("truncated-tail")
    if poison is not None:
        ctx.label("poison:" + poison["kind"])
        nxt = [c for c in cuts if c >= poison["end"]]
        read_end = nxt[0] if nxt else total
        if any(m[2] <= read_end for m in meta[poison["index"] + 1:]):
            ctx.label("complete-frame-behind-poison-in-same-read")
    streams = [f["stream"] for f in case["frames"] if "event" not in f]
    if len(set(streams)) < len(streams):
        ctx.label("stream-id-reused")
    ctx.nontrivial(n >= 2 and in_header and in_body)


# ---------------------------------------------------------------------------------------
# exhaustive cut enumeration for small two-frame streams
# ---------------------------------------------------------------------------------------

def _enum_chunks(tier):
    if tier == "quick":
        return [{"v": v, "b1": [0, 1, 2], "b2": [0, 1, 2], "limit": 40} for v in (2, 4)]
    out = []
    for v in VERSIONS:
        room = 40 - 2 * K.frame_header_len(v)
        for b1 in range(0, room + 1):
            out.append({"v": v, "b1": [b1], "b2": list(range(0, room - b1 + 1)), "limit": 40})
    return out


def _enum_cases(chunk):
    v = chunk["v"]
    hl = K.frame_header_len(v)
    for b1 in chunk["b1"]:
        for b2 in chunk["b2"]:
            total = 2 * hl + b1 + b2
            if total > chunk["limit"]:
                continue
            frames = [{"v": v, "stream": 1, "op": 8, "flags": 0, "len": b1, "kind": "hdr", "seed": 3, "reg": True},
                      {"v": v, "stream": 127, "op": 0, "flags": 2, "len": b2, "kind": "rand", "seed": 5, "reg": True}]
            base = {"version": v, "frames": frames, "watch": [], "trunc": 0, "cuts2": None}
            for c1 in range(1, total):
                yield dict(base, cuts={"every": 0, "items": [["a", c1]]})
                for c2 in range(c1 + 1, total):
                    yield dict(base, cuts={"every": 0, "items": [["a", c1], ["a", c2]]})


def parts(tier):
    return [
        hyp_part("streams", s_stream, interpret, tier, quick=250, thorough=3000, quick_shards=8, thorough_shards=16),
        EnumPart("two-frame-cuts", _enum_chunks(tier), _enum_cases, interpret),
    ]
