"""C43 -- schema agreement is reported only when all live nodes agree."""
import uuid
from fractions import Fraction

from hypothesis import strategies as st

from checks import _simutil as U
from checks import _simctl as S
from sim import wire
from sim.world import Node
from vlib.harness import hyp_part

import os

# the quick tier runs in one process unless VERIF_JOBS asks for more (the box is shared)
SERIAL = os.environ.get("VERIF_TIER") == "quick" and not os.environ.get("VERIF_JOBS")
PID = "C43"
TITLE = "Schema agreement is reported only when all live nodes agree"
LEVEL = "exploration"
ENGINE = "sim"
TECHNIQUE = ("model-based generation of per-poll schema-version snapshots and host states (Hypothesis) served by a fake node on "
             "the virtual clock to the real ControlConnection.wait_for_schema_agreement and to schema-changing requests "
             "through the real Session; exact-rational reference of the polling loop as oracle")
RULE = ("A case is: 1-4 peers with an initial state each (up / marked down / unknown), a max_schema_agreement_wait, and a list "
        "of 1-6 poll rounds; round k fixes what the k-th poll sees: the local schema version, per peer a version / null / no "
        "row (the local version may be null too, up to nobody reporting any version), optionally a row of a host that is not in the metadata, whether the node stays silent for that poll (client "
        "timeout), and host-state flips applied just before it; the last round repeats.  Two drivers: "
        "ControlConnection.wait_for_schema_agreement() directly, and a CREATE statement answered with a SCHEMA_CHANGE result "
        "(schema_metadata_enabled on/off) whose ResponseFuture.is_schema_agreed is read.  Non-trivial: at least 2 polls, the "
        "first disagreeing, and some peer that is marked down holds a different version in some round.  Distinct by digest.")
ASSUMPTIONS = ["network, clock, executor are simulated (sim/); Cluster, ControlConnection, Session, ResponseFuture, Metadata are real",
               "nodes reporting a null schema version are not counted (they report nothing); a poll in which no live node "
               "reports any version (null local version included) is not agreement: there is no single version",
               "waits are not multiples of the 0.2 s poll interval; where a client timeout ends exactly at the wait budget one "
               "more poll is accepted either way (float rounding of the virtual clock)",
               "host states are set on the Host objects (set_up/set_down/is_up=None) without running the up/down machinery"]

CONTROL = "10.0.0.1"
STRANGER = "10.0.0.9"
STEP = Fraction(1, 5)
CTIMEOUT = Fraction(27, 100)


def ver(i):
    return uuid.UUID(int=100 + i)


def agree(rnd, states, npeers):
    vs = set()
    if rnd["local"] is not None:
        vs.add(rnd["local"])       # a control node that reports no schema version contributes nothing
    for p in range(npeers):
        v = rnd["peers"][p]
        if v in ("absent", None):
            continue
        if states[p] == "down":
            continue
        vs.add(v)
    # the stranger's row is not a known peer: never counted
    return len(vs) == 1


def reference(case, extra_at_boundary):
    """-> (verdict, polls, elapsed Fraction)"""
    wait = Fraction(case["wait"]).limit_denominator(1000)
    states = list(case["states0"])
    rounds = case["rounds"]
    t = Fraction(0)
    k = 0
    boundary = False
    while t < wait or (extra_at_boundary and t == wait and boundary):
        final_extra = not (t < wait)
        r = rounds[min(k, len(rounds) - 1)]
        if k < len(rounds):
            for p, s in r["flip"]:
                if p < case["peers"]:
                    states[p] = s
        k += 1
        if r["silent"]:
            if final_extra:
                break
            dt = min(CTIMEOUT, wait - t)
            boundary = (t + dt == wait)
            t += dt
            continue
        if agree(r, states, case["peers"]):
            return True, k, t
        if final_extra:
            break
        boundary = False
        t += STEP
    return False, k, t


def interpret(case, ctx):
    sim = U.Sim(tape=[], granularity="blocking")
    try:
        with sim:
            _run(case, ctx, sim)
    except U.StepBudgetExceeded:
        ctx.fail(["C43.terminates"], "waiting for schema agreement did not terminate within the step budget")


def _run(case, ctx, sim):
    from cassandra.cluster import EXEC_PROFILE_DEFAULT, ExecutionProfile
    npeers = case["peers"]
    addrs = [CONTROL] + ["10.0.0.%d" % (i + 2) for i in range(npeers)]
    net = sim.net
    nodes = [net.add_node(a, peers_v2=case["peers_v2"]) for a in addrs]
    ctl = nodes[0]
    st8 = {"round": -1, "polls": 0, "armed": False, "schema_queries": 0}
    hosts = {}
    rounds = case["rounds"]

    def set_state(p, s):
        h = hosts.get(addrs[p + 1])
        if h is None:
            return
        if s == "up":
            h.set_up()
        elif s == "down":
            h.set_down()
        else:
            h.is_up = None

    def on_request(node, conn, req):
        if req["op"] != "QUERY":
            return None
        q = req["query"]
        qu = q.upper()
        if "SYSTEM_SCHEMA" in qu or "SYSTEM_VIRTUAL_SCHEMA" in qu or "SYSTEM.SCHEMA_" in qu:
            st8["schema_queries"] += 1
            S.empty_rows(node, conn, req)
            return ("drop",)
        if not st8["armed"]:
            return None
        is_peers_poll = qu.startswith("SELECT") and "SYSTEM.PEERS" in qu and "DATA_CENTER" not in qu and "*" not in qu
        is_local_poll = qu.startswith("SELECT SCHEMA_VERSION FROM SYSTEM.LOCAL")
        if is_peers_poll:
            st8["round"] += 1
            st8["polls"] += 1
            k = st8["round"]
            r = rounds[min(k, len(rounds) - 1)]
            if k < len(rounds):
                for p, s in r["flip"]:
                    if p < npeers:
                        set_state(p, s)
            if r["silent"]:
                return ("drop",)
            rows = []
            for p in range(npeers):
                v = r["peers"][p]
                if v == "absent":
                    continue
                a = addrs[p + 1]
                rows.append({"peer": a, "host_id": nodes[p + 1].host_id, "rpc_address": a, "native_address": a,
                             "native_port": 9042, "peer_port": 7000, "schema_version": None if v is None else ver(v)})
            if r["stranger"] != "absent":
                rows.append({"peer": STRANGER, "host_id": uuid.UUID(int=9), "rpc_address": STRANGER, "native_address": STRANGER,
                             "native_port": 9042, "peer_port": 7000,
                             "schema_version": None if r["stranger"] is None else ver(r["stranger"])})
            if "PEERS_V2" in qu:
                node._rows(conn, req, Node.PEER_V2_COLS, rows, "peers_v2")
            else:
                node._rows(conn, req, Node.PEER_COLS, rows, "peers")
            return ("drop",)
        if is_local_poll:
            k = max(st8["round"], 0)
            r = rounds[min(k, len(rounds) - 1)]
            if r["silent"]:
                return ("drop",)
            node._rows(conn, req, Node.LOCAL_COLS, [dict(node.local_row(), schema_version=(
                None if r["local"] is None else ver(r["local"])))], "local")
            return ("drop",)
        if qu.startswith("CREATE "):
            node.reply(conn, req, "RESULT", wire.result_schema_change(req["version"], "CREATED", "KEYSPACE", "ks1"))
            return ("drop",)
        return None
    ctl.on_request = on_request
    prof = ExecutionProfile(load_balancing_policy=U.fixed_plan_policy(), request_timeout=None)
    schema_meta = case["schema_meta"] if case["mode"] == "request" else False
    cluster = sim.make_cluster([CONTROL], protocol_version=4, max_schema_agreement_wait=case["wait"],
                               control_connection_timeout=float(CTIMEOUT), schema_metadata_enabled=schema_meta,
                               execution_profiles={EXEC_PROFILE_DEFAULT: prof})
    session = None
    with ctx.driver(["C43.setup", "connect"]):
        session = sim.call(cluster.connect, wait_for_all_pools=True)
    if session is None:
        return
    sim.settle()
    for h in cluster.metadata.all_hosts():
        hosts[h.endpoint.address] = h
    if set(hosts) != set(addrs):
        raise AssertionError("harness: topology not discovered: %r" % (sorted(hosts),))
    for p, s in enumerate(case["states0"][:npeers]):
        set_state(p, s)

    st8["armed"] = True
    t0 = sim.world.now
    verdict = None
    fut = None
    if case["mode"] == "direct":
        with ctx.driver(["C43.wait", "raises"]):
            verdict = sim.call(cluster.control_connection.wait_for_schema_agreement)
    else:
        with ctx.driver(["C43.request", "raises"]):
            fut = sim.call(session.execute_async, "CREATE KEYSPACE ks1 WITH replication = {'class': 'SimpleStrategy', 'replication_factor': 1}")
            sim.call(fut.result)
            verdict = fut.is_schema_agreed
    if ctx._failures:
        return
    elapsed = sim.world.now - t0
    st8["armed"] = False
    polls = st8["polls"]

    # ---- reference, independent of the polling interval: what did each poll the driver made see?
    mode = case["mode"]
    feat = [mode] + (["schema_metadata_%s" % ("enabled" if schema_meta else "disabled")] if mode == "request" else [])
    seen = []                      # per poll made: True (agreed) / False (disagreed) / None (no answer)
    states = list(case["states0"])
    for k in range(polls):
        r = rounds[min(k, len(rounds) - 1)]
        if k < len(rounds):
            for p, s in r["flip"]:
                if p < npeers:
                    states[p] = s
        seen.append(None if r["silent"] else agree(r, states, npeers))
        if not r["silent"]:
            if r["local"] is None:
                ctx.label("poll:local-version-null")
            if r["local"] is None and not any(r["peers"][p] not in ("absent", None) and states[p] != "down" for p in range(npeers)):
                ctx.label("poll:no-version-known")
    first_agree = next((k for k, a in enumerate(seen) if a), None)
    wait = case["wait"]
    if verdict not in (True, False):
        ctx.fail(["C43.verdict", "not-a-bool"] + feat, "verdict is %r" % (verdict,))
    elif verdict is True:
        if polls == 0:
            ctx.fail(["C43.verdict", "reported-true-without-polling"] + feat, "agreement reported without asking any node")
        elif first_agree is None:
            ctx.fail(["C43.verdict", "reported-true-without-agreement"] + feat + _why(case),
                     "reported agreement after %d polls; what they saw: %r" % (polls, seen))
        elif first_agree != polls - 1:
            ctx.fail(["C43.polls", "polled-past-agreement"] + feat, "poll %d saw agreement but %d polls were made" % (first_agree, polls))
    else:
        if first_agree is not None:
            note = [] if (mode == "request" and not schema_meta) else _why(case)
            # (request mode with schema metadata off: one root cause whatever the history)
            ctx.fail(["C43.verdict", "agreed-but-reported-false"] + feat + note,
                     "poll %d of %d saw a single schema version over the live nodes but the verdict is False (%.3f s)" % (
                         first_agree, polls, elapsed))
        elif elapsed < wait - 1e-5:
            ctx.fail(["C43.gave-up-early"] + feat + (["after-silent-round"] if None in seen else []),
                     "returned False after %.4f s and %d polls, max_schema_agreement_wait is %s" % (elapsed, polls, wait))
        elif elapsed > wait + 1.0:
            ctx.fail(["C43.kept-waiting"] + feat, "returned False after %.4f s, max_schema_agreement_wait is %s" % (elapsed, wait))
        elif polls < 1:
            ctx.fail(["C43.polls", "none"] + feat, "no poll was made")
    ex = reference(case, False)
    if not ctx._failures and verdict in (True, False) and not (ex[0] == verdict and ex[1] == polls):
        ctx.label("interval-differs-from-0.2s-model")
    sim.call(cluster.shutdown)
    for nm, e in sim.world.actor_errors:
        ctx.fail(["C43.thread-error", type(e).__name__], "virtual thread %s died with %r" % (nm, e))
        break
    ctx.label("mode=" + mode, "verdict=%s" % verdict, "polls=%d" % min(polls, 7), "peers=%d" % npeers)
    if any(r["silent"] for r in rounds[:max(polls, 1)]):
        ctx.label("silent-round")
    if mode == "request":
        ctx.label("schema_meta=%s" % schema_meta)
    states = list(case["states0"])
    down_differs = False
    for k, r in enumerate(rounds[:max(polls, 1)]):
        for p, s in r["flip"]:
            if p < npeers:
                states[p] = s
        for p in range(npeers):
            if states[p] == "down" and r["peers"][p] not in ("absent", None, r["local"]):
                down_differs = True
    first_disagrees = not rounds[0]["silent"] and not agree(rounds[0], _states_at(case, 0), npeers)
    ctx.nontrivial(polls >= 2 and first_disagrees and down_differs)


def _states_at(case, k):
    states = list(case["states0"])
    for r in case["rounds"][:k + 1]:
        for p, s in r["flip"]:
            if p < case["peers"]:
                states[p] = s
    return states


def _why(case):
    feats = set()
    for r in case["rounds"]:
        if r["stranger"] != "absent":
            feats.add("unknown-host-row")
        if any(v is None for v in r["peers"][:case["peers"]]):
            feats.add("null-version")
        if r["silent"]:
            feats.add("silent-round")
    sts = set(case["states0"][:case["peers"]]) | set(s for r in case["rounds"] for p, s in r["flip"] if p < case["peers"])
    for s in sorted(sts - {"up"}):
        feats.add("state:" + s)
    return sorted(feats)


# ------------------------------------------------------------------ generation
s_version = st.sampled_from([0, 0, 0, 1, 2])
s_state = st.sampled_from(["up", "up", "down", "down", "unknown"])


@st.composite
def s_round(draw, first):
    local = draw(s_version)
    other = (local + 1 + draw(st.integers(0, 1))) % 3
    same = [local, local, local, local] if not first else [local, local]
    peers = [draw(st.sampled_from(same + [other, other, None, "absent"])) for _ in range(4)]
    shape = draw(st.sampled_from(["plain"] * 6 + ["local-null", "nobody-reports"]))
    if shape == "local-null":
        local = None               # e.g. a control node that is still starting: only the peers report
    elif shape == "nobody-reports":
        # no participating node reports a version: null everywhere (peers that do report are made 'down' by the caller)
        local = None
        peers = [draw(st.sampled_from([None, None, "absent"])) for _ in range(4)]
    return {"local": local, "peers": peers,
            "stranger": draw(st.sampled_from(["absent", "absent", "absent", 1, 2, None])),
            "silent": draw(st.integers(0, 7)) == 0,
            "flip": draw(st.lists(st.tuples(st.integers(0, 3), s_state), max_size=1 if first else 2))}


@st.composite
def s_case(draw):
    n = draw(st.integers(1, 6))
    case = {"peers": draw(st.integers(1, 4)), "states0": [draw(s_state) for _ in range(4)],
            "wait": draw(st.sampled_from([0.3, 0.5, 0.7, 1.1])),
            "rounds": [draw(s_round(i == 0)) for i in range(n)],
            "mode": draw(st.sampled_from(["direct", "direct", "request"])),
            "schema_meta": draw(st.booleans()), "peers_v2": draw(st.booleans())}
    if draw(st.booleans()):
        # steer towards the interesting region: a peer that is marked down holds another version while a live peer
        # disagrees in the first round (and possibly catches up later)
        npeers = case["peers"]
        d = draw(st.integers(0, npeers - 1))
        r0 = case["rounds"][0]
        if r0["local"] is None:
            r0["local"] = 0
        other = (r0["local"] + 1) % 3
        case["states0"][d] = "down"
        r0["peers"][d] = other
        r0["silent"] = False
        r0["flip"] = [f for f in r0["flip"] if f[0] != d]
        if npeers >= 2:
            u = (d + 1 + draw(st.integers(0, npeers - 2))) % npeers
            case["states0"][u] = draw(st.sampled_from(["up", "unknown"]))
            r0["peers"][u] = other
            r0["flip"] = [f for f in r0["flip"] if f[0] != u]
            if len(case["rounds"]) == 1:
                case["rounds"].append(draw(s_round(False)))
        else:
            r0["local"], r0["peers"][d] = r0["local"], other
    elif draw(st.integers(0, 3)) == 0:
        # nobody reports a version in the first k rounds (null local version; peers null, absent or marked down with
        # whatever version), then the generated rounds follow
        npeers = case["peers"]
        k = draw(st.integers(1, 2))
        for j in range(k):
            peers = []
            for p in range(4):
                if p < npeers and case["states0"][p] == "down":
                    peers.append(draw(st.sampled_from([None, 0, 1, 2])))
                else:
                    peers.append(draw(st.sampled_from([None, None, "absent"])))
            case["rounds"].insert(j, {"local": None, "peers": peers, "stranger": draw(st.sampled_from(["absent", 1, None])),
                                      "silent": False, "flip": []})
        case["rounds"] = case["rounds"][:6]
    return case


def parts(tier):
    return [hyp_part("rounds", s_case, interpret, tier, quick=120, thorough=1500, quick_shards=8, thorough_shards=16)]
