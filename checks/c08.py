"""C08 -- partition tokens equal those of Cassandra's partitioners."""
from itertools import combinations, product

from hypothesis import strategies as st

from spec import murmur3 as ref
from vlib.harness import EnumPart, HarnessError, hyp_part

PID = "C08"
TITLE = "Partition tokens equal those of Cassandra's partitioners"
LEVEL = "exploration"
ENGINE = "models"
TECHNIQUE = ("exhaustive enumeration of a tail/body byte-class product plus property-based testing (Hypothesis) "
             "against an independent Java-semantics transcription of Cassandra's partitioners")
RULE = ("Keys are byte strings given as hex.  Part tail-classes enumerates every length 0..64 (quick tier: 0..47 and 64): the tail (length%16 bytes) takes "
        "every assignment of the byte classes {00,01,7f,80,ff} for tails of <=6 bytes, and for longer tails every pair of tail "
        "positions x 25 class pairs x 3 background fills {00,41,ff}; the body is a fixed non-repeating pattern.  Part body-words "
        "enumerates 1-4 blocks (quick tier: 1-3) whose 8-byte little-endian words take the classes {0,1,7f..,80..,ff..} (all assignments for <=4 words, "
        "all pairs of words otherwise) x tails of 0,1,8,9,15 bytes.  Part random draws keys of 0..4096 bytes (lengths weighted to "
        "block boundaries +-1) and str keys for the MD5 partitioner.  Part minlong substitutes a stub hash returning boundary longs "
        "(a pre-image of Long.MIN_VALUE is infeasible to find) and checks the MIN->MAX mapping through Murmur3Token.from_key. "
        "Every key is hashed by Murmur3Token.from_key/hash_fn, cassandra.murmur3._murmur3, MD5Token.from_key and BytesToken.from_key "
        "and compared with spec.murmur3.  Non-trivial: length%16 != 0 with a tail byte >= 0x80, or length >= 32 (>= 2 body blocks), "
        "or (minlong part) a stubbed hash equal to Long.MIN_VALUE / Long.MAX_VALUE.")
ASSUMPTIONS = [
    "the reference spec/murmur3.py is a transcription of org.apache.cassandra.utils.MurmurHash.hash3_x64_128 / Murmur3Partitioner.normalize / "
    "RandomPartitioner (BigInteger(md5).abs()) pinned by the Cassandra-derived vectors of tests/unit/test_metadata.py; hashlib.md5 is trusted",
    "no compiled cmurmur3 is present in the tree, so cassandra.metadata uses the pure-Python _murmur3 (C07 covers the compiled differential)",
    "the empty key is compared on the hash function only: Cassandra rejects empty partition keys and its partitioners return the MINIMUM sentinel for them, "
    "which no storable key maps to",
    "the MIN_LONG mapping is exercised with a substituted hash function because no pre-image of -2**63 is known",
]

CLASSES = (0x00, 0x01, 0x7f, 0x80, 0xff)
FILLS = (0x00, 0x41, 0xff)
WORDS = (b"\x00" * 8, b"\x01" + b"\x00" * 7, b"\xff" * 7 + b"\x7f", b"\x00" * 7 + b"\x80", b"\xff" * 8)

try:
    ref.self_test()
except AssertionError as _e:  # pragma: no cover
    raise HarnessError(str(_e))


def _body(n):
    return bytes(((i * 37 + 11) ^ (i >> 3)) & 0xff for i in range(n))


# ---------------------------------------------------------------------------------------------
# enumeration: tails
# ---------------------------------------------------------------------------------------------

def tail_chunks(tier):
    # one chunk per length.  quick: 0..47 and 64 (0-2 body blocks x every tail size, and the 4-block key);
    # thorough: every length 0..64
    if tier == "quick":
        return [{"len": n} for n in list(range(0, 48)) + [64]]
    return [{"len": n} for n in range(0, 65)]


def tail_cases(chunk):
    n = chunk["len"]
    t = n % 16
    body = _body(n - t)
    if t <= 6:
        for combo in product(CLASSES, repeat=t):
            yield {"key": (body + bytes(combo)).hex()}
    else:
        seen = set()
        for fill in FILLS:
            for i, j in combinations(range(t), 2):
                for a, b in product(CLASSES, repeat=2):
                    tail = bytearray([fill] * t)
                    tail[i], tail[j] = a, b
                    tb = bytes(tail)
                    if tb in seen:
                        continue
                    seen.add(tb)
                    yield {"key": (body + tb).hex()}


def word_chunks(tier):
    return [{"blocks": b, "tail": t} for b in ((1, 2, 3) if tier == "quick" else (1, 2, 3, 4)) for t in (0, 1, 8, 9, 15)]


def word_cases(chunk):
    nw = chunk["blocks"] * 2
    tail = bytes([0x80, 0x01, 0xff, 0x7f, 0x00, 0x9c, 0x33, 0xfe, 0x81, 0x10, 0xe0, 0x7e, 0xaa, 0x55, 0xf0][:chunk["tail"]])
    if nw <= 4:
        for combo in product(range(5), repeat=nw):
            yield {"key": (b"".join(WORDS[c] for c in combo) + tail).hex()}
    else:
        seen = set()
        for fill in (0, 4, 2):
            for i, j in combinations(range(nw), 2):
                for a, b in product(range(5), repeat=2):
                    ws = [fill] * nw
                    ws[i], ws[j] = a, b
                    ws = tuple(ws)
                    if ws in seen:
                        continue
                    seen.add(ws)
                    yield {"key": (b"".join(WORDS[c] for c in ws) + tail).hex()}


# ---------------------------------------------------------------------------------------------
# oracle
# ---------------------------------------------------------------------------------------------

def _features(key):
    t = len(key) % 16
    tail = key[len(key) - t:] if t else b""
    if not t:
        tf = "no-tail"
    elif any(b >= 0x80 for b in tail):
        tf = "tail-has-byte>=0x80"
    else:
        tf = "tail-bytes<0x80"
    bf = "no-body" if len(key) < 16 else "body"
    return t, tf, bf


def _check_key(key, ctx):
    import cassandra.metadata as M
    import cassandra.murmur3 as MM
    t, tf, bf = _features(key)
    want = ref.murmur3_hash(key)
    got = _none = object()
    with ctx.driver(["C08.murmur3.hash", tf, bf]):
        got = MM._murmur3(key)
    if got is not _none:
        ctx.check(type(got) is int and got == want, ["C08.murmur3.hash", tf, bf],
                  "_murmur3(%s) = %r, Cassandra's hash3_x64_128 first half = %d" % (key.hex(), got, want))
    got2 = _none
    with ctx.driver(["C08.murmur3.hash", tf, bf]):
        got2 = MM.murmur3(key)
    if got2 is not _none:
        ctx.check(int(got2) == want, ["C08.murmur3.hash", tf, bf], "cassandra.murmur3.murmur3(%s) = %r, expected %d" % (key.hex(), got2, want))

    want_tok = ref.murmur3_token(key)       # for b'' this is the hash (0): see ASSUMPTIONS
    tok = hv = _none
    with ctx.driver(["C08.murmur3.token", tf, bf]):
        hv = M.Murmur3Token.hash_fn(key)
        tok = M.Murmur3Token.from_key(key)
    if tok is not _none:
        ctx.check(isinstance(tok, M.Murmur3Token) and tok.value == want_tok and hv == want_tok, ["C08.murmur3.token", tf, bf],
                  "Murmur3Token.from_key(%s).value = %r (hash_fn %r), Murmur3Partitioner token = %d" % (key.hex(), getattr(tok, "value", tok), hv, want_tok))
        ctx.check(-2 ** 63 < want_tok <= 2 ** 63 - 1, ["C08.reference.range"], "reference token out of range")

    want_md5 = ref.random_token(key)
    import hashlib
    neg = "digest-negative" if hashlib.md5(key).digest()[0] & 0x80 else "digest-positive"
    tok = _none
    with ctx.driver(["C08.md5.token", neg]):
        tok = M.MD5Token.from_key(key)
    if tok is not _none:
        ctx.check(isinstance(tok, M.MD5Token) and tok.value == want_md5, ["C08.md5.token", neg],
                  "MD5Token.from_key(%s).value = %r, RandomPartitioner token = %d" % (key.hex(), getattr(tok, "value", tok), want_md5))

    tok = _none
    with ctx.driver(["C08.bytes.token"]):
        tok = M.BytesToken.from_key(key)
    if tok is not _none:
        ctx.check(isinstance(tok, M.BytesToken) and type(tok.value) is bytes and tok.value == ref.byte_ordered_token(key),
                  ["C08.bytes.token"], "BytesToken.from_key(%s).value = %r" % (key.hex(), getattr(tok, "value", tok)))

    ctx.label("tail=%d" % t, tf, "blocks=%s" % (len(key) // 16 if len(key) < 64 else ">=4"), neg)
    ctx.nontrivial((t and tf == "tail-has-byte>=0x80") or len(key) >= 32)


def interpret_key(case, ctx):
    _check_key(bytes.fromhex(case["key"]), ctx)


def interpret_str(case, ctx):
    import cassandra.metadata as M
    s = case["text"]
    want = ref.random_token(s.encode("utf-8"))
    import hashlib
    neg = "digest-negative" if hashlib.md5(s.encode("utf-8")).digest()[0] & 0x80 else "digest-positive"
    got = _none = object()
    with ctx.driver(["C08.md5.str", neg]):
        got = M.MD5Token.from_key(s).value
    if got is not _none:
        ctx.check(got == want, ["C08.md5.str", neg], "MD5Token.from_key(%r).value = %r, expected %d" % (s, got, want))
    nonascii = any(ord(c) > 127 for c in s)
    ctx.label("str", "str:non-ascii" if nonascii else "str:ascii", neg)
    ctx.nontrivial(nonascii or neg == "digest-negative")


def interpret_minlong(case, ctx):
    """Murmur3Token.hash_fn maps Long.MIN_VALUE to Long.MAX_VALUE (stubbed hash)."""
    import cassandra.metadata as M
    h = int(case["hash"])
    key = bytes.fromhex(case["key"])
    want = ref.normalize(h)
    saved = M.murmur3
    seen = []

    def stub(k):
        seen.append(bytes(k))
        return h

    M.murmur3 = stub
    try:
        feat = "hash=MIN_LONG" if h == ref.LONG_MIN else "hash!=MIN_LONG"
        got = _none = object()
        with ctx.driver(["C08.murmur3.minlong", feat]):
            got_h = M.Murmur3Token.hash_fn(key)
            got = M.Murmur3Token.from_key(key).value
    finally:
        M.murmur3 = saved
    if got is not _none:
        ctx.check(got == want and got_h == want, ["C08.murmur3.minlong", feat],
                  "hash %d -> token %r (hash_fn %r), Murmur3Partitioner.normalize gives %d" % (h, got, got_h, want))
        ctx.check(seen and all(s == key for s in seen), ["C08.murmur3.minlong.input"], "hash function was handed %r instead of the key" % (seen[:1],))
    ctx.label("minlong", feat)
    ctx.nontrivial(h in (ref.LONG_MIN, ref.LONG_MAX))


# ---------------------------------------------------------------------------------------------
# strategies
# ---------------------------------------------------------------------------------------------

def s_random():
    lengths = st.one_of(
        st.integers(0, 80),
        st.integers(0, 80),
        st.builds(lambda b, d: max(0, 16 * b + d), st.integers(0, 24), st.integers(-1, 1)),
        st.builds(lambda b, d: max(0, 16 * b + d), st.integers(0, 256), st.integers(-1, 1)),
        st.integers(0, 4096),
    )
    byte = st.one_of(st.sampled_from(CLASSES), st.integers(0, 255))

    @st.composite
    def key(draw):
        n = draw(lengths)
        mode = draw(st.integers(0, 3))
        if mode == 0 or n > 96:
            data = draw(st.binary(min_size=n, max_size=n))
            if n:
                # force interesting bytes into the tail / block edges
                t = n % 16
                ba = bytearray(data)
                for pos in draw(st.lists(st.integers(max(0, n - max(t, 1)), n - 1), max_size=4)):
                    ba[pos] = draw(st.sampled_from(CLASSES))
                data = bytes(ba)
        else:
            data = bytes(draw(st.lists(byte, min_size=n, max_size=n)))
        return {"key": data.hex()}

    return key()


def s_str():
    return st.fixed_dictionaries({"text": st.text(max_size=40)})


def s_minlong():
    return st.fixed_dictionaries({
        "hash": st.one_of(st.sampled_from([-2 ** 63, -2 ** 63 + 1, 2 ** 63 - 1, 2 ** 63 - 2, 0, -1, 1]),
                          st.integers(-2 ** 63, 2 ** 63 - 1)),
        "key": st.binary(max_size=40).map(bytes.hex),
    })


def parts(tier):
    return [
        EnumPart("tail-classes", tail_chunks(tier), tail_cases, interpret_key),
        EnumPart("body-words", word_chunks(tier), word_cases, interpret_key),
        hyp_part("random", s_random, interpret_key, tier, quick=1500, thorough=12000, quick_shards=2, thorough_shards=16),
        hyp_part("md5-str", s_str, interpret_str, tier, quick=500, thorough=10000, thorough_shards=2),
        hyp_part("minlong", s_minlong, interpret_minlong, tier, quick=300, thorough=3000, thorough_shards=1),
    ]
