"""C17 -- hosts are tried in query-plan order and exhaustion is reported."""
import itertools
import os

from hypothesis import strategies as st

from checks import _simfut as F
from checks import _simutil as U
from vlib.harness import EnumPart, hyp_part

SERIAL = os.environ.get("VERIF_TIER") == "quick"   # heavily loaded machine: forked pool is slower than one process
PID = "C17"
TITLE = "Hosts are tried in query-plan order and exhaustion is reported"
LEVEL = "exploration"
ENGINE = "sim"
TECHNIQUE = ("exhaustive enumeration of per-host pool states along small query plans plus Hypothesis-generated plans "
             "(permutations, sub-plans, explicit host) over the real Session/ResponseFuture/HostConnection on a deterministic "
             "simulated network; a reference walk of the plan predicts the hosts that receive a frame, the outcome and the "
             "contents of NoHostAvailable.errors; paged requests repeat the walk for every further page fetch (started through "
             "the future, the ResultSet or plain iteration) with pool states that changed between the pages")
RULE = ("A case is a plan over 1-4 fake nodes (a fixed load-balancing plan in any order, possibly a sub-plan, or an explicit "
        "host= target) and one state per plan host out of 8: pool missing from the session, pool shut down, every stream id "
        "taken (busy), connection closed by the server so that the send fails, healthy answering an error followed by "
        "RETRY_NEXT_HOST / RETRY / RETHROW, healthy.  Enumerated exhaustively for plan length <= 3 (quick) / <= 4 (thorough).  "
        "Oracle: the sequence of hosts that received a frame, the outcome (rows / the server's error / NoHostAvailable only "
        "after the whole plan was walked) and the key set and reason classes of NoHostAvailable.errors equal the reference "
        "walk.  A second family keeps several attempts of one execution in flight on different plan hosts (1-3 speculative "
        "executions over 2-4 healthy hosts) and answers a chosen in-flight host with a retryable server error + RETRY / "
        "RETRY_NEXT_HOST / RETHROW / IGNORE or with rows: RETRY must re-send to the host that answered, RETRY_NEXT_HOST to the "
        "next plan host not yet used, and NoHostAvailable.errors must blame the hosts that answered.  "
        "A third family makes the request paged: the first page is answered with a paging state (by construction: hosts "
        "before the answering one are skipped or say next-host) and 1-3 further pages are fetched via "
        "ResponseFuture.start_fetching_next_page, ResultSet.fetch_next_page or iteration past the page; before each fetch any "
        "still usable plan host may change to any of the 8 states (unusable pools stay unusable).  Every page fetch is a "
        "request of its own and must again walk the policy's plan from the start -- or try ONLY the explicit host= target, "
        "failing with NoHostAvailable naming just the target when its pool is unusable by then; the policy's plan lists the "
        "target last, so any routing by the policy shows as a frame on another host.  Same frame-order / outcome / "
        "errors oracle per page (finding keys carry page=next); enumerated for a targeted 2-node request over all 8 "
        "second-page target states x 3 ways of fetching.  "
        "Non-trivial: on some page at least 2 plan hosts were visited and at least one was not healthy, or a further page of "
        "a host-targeted request was fetched while the policy's plan offered at least one other host.  Distinct by case digest.")
ASSUMPTIONS = ["network, clock, executor and event loop are simulated (sim/); Cluster, Session, pools, connections, "
               "ResponseFuture are the real classes",
               "pool states are installed directly (session._pools.pop, pool.shutdown(), held filler requests on a connection "
               "class with max_in_flight=3, server-side close of the pool's idle connection)",
               "the plan is a fixed list: membership changes caused by the failing sends do not alter it",
               "between pages a pool the harness made unusable (missing / shut down / busy / failed send) stays unusable; for a "
               "pool whose connection failed under an earlier page either ConnectionShutdown or ConnectionException is accepted "
               "as the recorded reason (the session has shut the pool down or removed it by then)",
               "the fake server answers every page with one row and a fresh paging state until the generated number of pages "
               "is reached; the paging state echoed by the driver is not judged here",
               "nodes whose pool is missing / shut down / failing stay unreachable, so the session's pool maintenance "
               "(update_created_pools after a host is marked down) cannot renew them during the request"]

STATES = ["missing", "shutdown", "busy", "failsend", "err_next", "err_retry", "err_rethrow", "ok"]
SKIP_REASON = {"missing": "ConnectionException", "shutdown": "ConnectionException", "busy": "NoConnectionsAvailable",
               "failsend": "ConnectionShutdown"}
KINDS = ["unavailable", "overloaded", "read_timeout", "server_error"]


# --------------------------------------------------------------------------- reference walk
def model(states, kinds):
    """-> frames (plan positions in order), errors {position: reason class name}, decisions, outcome"""
    frames, errors, decisions = [], {}, []
    for i, s in enumerate(states):
        if s in SKIP_REASON:
            errors[i] = SKIP_REASON[s]
            continue
        frames.append(i)
        if s == "ok":
            return frames, errors, decisions, ("result", None)
        exc = F.ERRORS[kinds[i]][1]
        if s == "err_rethrow":
            decisions.append(["rethrow", None])
            return frames, errors, decisions, ("error", exc)
        if s == "err_retry":
            decisions.append(["retry", None])
            frames.append(i)
            return frames, errors, decisions, ("result", None)
        decisions.append(["next_host", None])
        errors[i] = exc
    return frames, errors, decisions, ("nha", None)


def interpret(case, ctx):
    sim = U.Sim(tape=case.get("tape", []), granularity=case.get("gran", "blocking"))
    try:
        with sim:
            _run(case, ctx, sim)
    except U.StepBudgetExceeded:
        ctx.stats.inconclusive += 1
        ctx.label("inconclusive:step-budget")


STICKY = ("missing", "shutdown", "busy", "failsend")   # pool states this harness cannot undo between pages
VIAS = ["future", "resultset", "iterate"]


def page_states(prev, drawn):
    """states of the next page fetch: a pool that is already unusable stays so, every other position takes the
    drawn state ("same" = unchanged)"""
    return [q if (q in STICKY or d == "same") else d for q, d in zip(prev, drawn)]


def _run(case, ctx, sim):
    from cassandra import ConsistencyLevel  # noqa: F401
    from cassandra.cluster import ExecutionProfile, NoHostAvailable
    from cassandra.query import SimpleStatement
    net = sim.net
    plan = case["plan"]                 # node indexes in plan order
    states = list(case["states"])       # state per plan position (first page)
    pages = case.get("pages", [])       # later page fetches: {"states": [...], "via": ...}
    m = case["nodes"]
    kinds = [KINDS[(i + case.get("kind_shift", 0)) % len(KINDS)] for i in range(len(plan))]
    by_host = case["mode"] == "host"
    all_states = [states]
    for pg in pages:
        all_states.append(page_states(all_states[-1], pg["states"]))
    decisions = []                      # extended page by page; the scripted policy reads it when consulted
    rlog = []
    addrs = F.addrs(m)
    # with an explicit target the load-balancing plan must not matter: it lists the target last
    lbp_order = [addrs[i] for i in (reversed(plan) if by_host else plan)]
    prof = ExecutionProfile(load_balancing_policy=U.fixed_plan_policy(order=lbp_order),
                            retry_policy=F.scripted_policy(decisions, rlog), request_timeout=None)
    cap = 2
    warm = case.get("warm", 0)
    # warm > 0: few stream ids per connection (3) and `warm` earlier requests per host, so that the
    # request under test goes out on every possible stream id, id 0 included (with the default 300 ids
    # id 0 only comes round every 300th request)
    any_busy = any("busy" in ss for ss in all_states)
    cluster, session, nodes = F.build(sim, m, prof, max_in_flight=(cap + 1) if (any_busy or warm) else None,
                                      contact=plan[0])
    for _w in range(warm):
        for i in plan:
            h = F.host_of(cluster, addrs[i])
            if h is not None and session._pools.get(h) is not None:
                # a request to one healthy host must succeed whatever stream id it travels on
                with ctx.driver(["C17.warmup", "healthy-host"]):
                    sim.call(session.execute, SimpleStatement("SELECT w FROM warm"), host=h)
    if ctx._failures:
        return
    pos_of = dict((addrs[i], p) for p, i in enumerate(plan))
    got = []            # plan position (or "off-plan:<addr>") of every user frame of the current page, in order
    count = {}
    cur = {"page": 0, "states": states}

    def user(node, conn, req):
        if not F.is_user(req) or conn.is_control_connection:
            return None
        p = pos_of.get(node.address)
        got.append(p if p is not None else "off-plan:%s" % node.address)
        k = count.get(node.address, 0)
        count[node.address] = k + 1
        s = cur["states"][p] if p is not None else "ok"
        if s in ("err_next", "err_rethrow") or (s == "err_retry" and k == 0):
            U.answer(node, conn, req, kinds[p])
        else:
            more = cur["page"] < len(pages)
            U.answer(node, conn, req, "rows", paging_state=(b"ps%d" % (cur["page"] + 1)) if more else None)
        return ("drop",)

    for nd in nodes:
        nd.on_request = F.chain(F.hold_fillers, user)

    def install(p, s):
        i = plan[p]
        host = F.host_of(cluster, addrs[i])
        pool = session._pools.get(host)
        if pool is None:
            raise RuntimeError("no pool for %s" % addrs[i])
        if s == "missing":
            session._pools.pop(host)
            sim.call(pool.shutdown)
        elif s == "shutdown":
            sim.call(pool.shutdown)
        elif s == "busy":
            F.make_busy(sim, session, cluster, nodes[i], cap)
        elif s == "failsend":
            net.server_close(pool._connection)
        if s in ("missing", "shutdown", "failsend"):
            # the node is unreachable from now on: whenever a host is marked down (e.g. after the failing
            # send) Session.on_down ends in update_created_pools(), which would otherwise renew the pools
            # this case removed or shut down while a busy pool makes the request wait
            nodes[i].up = False

    # ---- install the pool states
    for p in range(len(plan)):
        install(p, states[p])
    sim.settle()

    stmt = SimpleStatement(F.USER_Q)
    kw = {"host": F.host_of(cluster, addrs[plan[0]])} if by_host else {}
    fut = None
    decisions.extend(model(states[:1] if by_host else states, kinds)[2])
    with ctx.driver(["C17.execute_async"]):
        fut = sim.call(session.execute_async, stmt, **kw)
    if fut is None:
        return
    sim.settle()
    # a busy pool makes borrow_connection wait 2 virtual seconds (on the client thread or a retry task)
    sim.advance(2.0 * states.count("busy") + 0.5)

    nontrivial = False
    fetched = 0
    rs_box = [None]
    outcome_m = None
    for j in range(len(all_states)):
        cur_states = all_states[j]
        eff_states = cur_states[:1] if by_host else cur_states
        pfeat = [] if j == 0 else ["page=next"]
        if j > 0:
            # ---- the next page of the same request: pool states may have changed in between
            via = pages[j - 1]["via"]
            if not fut.has_more_pages:
                ctx.fail(["C17.page", "no-more-pages"], "page %d was answered with a paging state but has_more_pages is false" % j)
                return
            prev = all_states[j - 1]
            for p in range(len(plan)):
                if cur_states[p] != prev[p] and cur_states[p] in STICKY:
                    install(p, cur_states[p])
            sim.settle()
            del got[:]
            count.clear()
            cur["page"], cur["states"] = j, cur_states
            raised = []
            rs = rs_box[0]

            def fetch():
                try:
                    if via == "future":
                        fut.start_fetching_next_page()
                    elif via == "resultset":
                        rs.fetch_next_page()
                    else:
                        it = iter(rs)
                        for _ in range(len(rs.current_rows) + 1):
                            next(it)
                except Exception as e:  # noqa
                    raised.append(e)
            sim.call(fetch)
            sim.settle()
            sim.advance(2.0 * cur_states.count("busy") + 0.5)
            if raised and not (via != "future" and raised[0] is fut._final_exception):
                ctx.fail(["C17.page", "fetch-raises", "via=%s" % via, F.exc_name(raised[0])],
                         "fetching page %d via %s raised %r" % (j + 1, via, raised[0]))
                return
            fetched += 1
            ctx.label("page-fetch:via=%s" % via, "page-fetch:mode=%s" % case["mode"])
            if cur_states != prev:
                ctx.label("page-fetch:pool-states-changed")
            if by_host and cur_states[0] in SKIP_REASON:
                ctx.label("page-fetch:target-unusable")
        frames_m, errors_m, decs, outcome_m = model(eff_states, kinds)
        res = []

        def get():
            try:
                r = fut.result()
                rs_box[0] = r
                res.append(("result", [tuple(x) for x in (r.current_rows if pages else r)]))
            except Exception as e:  # noqa
                res.append(("error", e))
        if not F.done(fut):
            ctx.fail(["C17.outcome", "incomplete"] + pfeat,
                     "the future has no outcome; frames went to plan positions %r" % (got,))
            return
        sim.call(get)
        kind, val = res[0]
        # a pool whose connection failed under an earlier page is by now shut down or removed: either reason
        reasons = dict((p, (r,) if not (j > 0 and r == "ConnectionShutdown") else (r, "ConnectionException"))
                       for p, r in errors_m.items())

        feat = "first-deviation=%s" % next(((cur_states[p] if p < len(eff_states) else "non-target") if isinstance(p, int) else "off-plan" for p, q in
                                            itertools.zip_longest(got, frames_m) if p != q and p is not None), "missing-frame")
        if got != frames_m:
            ctx.fail(["C17.order", "mode=%s" % case["mode"], feat] + pfeat,
                     "page %d: frames went to plan positions %r, expected %r (states %r, plan %r)" % (
                         j + 1, got, frames_m, eff_states, plan))
        elif outcome_m[0] == "result":
            if kind != "result" or val != [(1, "x")]:
                ctx.fail(["C17.outcome", "expected=rows", "got=%s" % (kind if kind == "result" else F.exc_name(val))] + pfeat,
                         "expected the rows of position %d, got %r (states %r)" % (frames_m[-1], val, eff_states))
        elif outcome_m[0] == "error":
            if kind != "error" or F.exc_name(val) != outcome_m[1]:
                ctx.fail(["C17.outcome", "expected=%s" % outcome_m[1], "got=%s" % (kind if kind == "result" else F.exc_name(val))] + pfeat,
                         "expected %s, got %r (states %r)" % (outcome_m[1], val, eff_states))
        else:
            if kind != "error" or not isinstance(val, NoHostAvailable):
                ctx.fail(["C17.exhaustion", "not-reported", "got=%s" % (kind if kind == "result" else F.exc_name(val))] + pfeat,
                         "the plan is exhausted (states %r) but the outcome is %r" % (eff_states, val))
            else:
                errs = {}
                for h, e in val.errors.items():
                    a = getattr(getattr(h, "endpoint", None), "address", h)
                    errs[pos_of.get(a, "off-plan:%s" % (a,))] = F.exc_name(e)
                if set(errs) != set(errors_m):
                    missing = sorted(set(errors_m) - set(errs), key=str)
                    extra = sorted(set(errs) - set(errors_m), key=str)
                    ctx.fail(["C17.exhaustion", "errors-keys"] +
                             (["missing=%s" % eff_states[missing[0]]] if missing else ["extra"]) + pfeat,
                             "NoHostAvailable.errors has entries for positions %r, expected %r (states %r)" % (
                                 sorted(errs, key=str), sorted(errors_m), eff_states))
                else:
                    for p in sorted(errors_m):
                        if errs[p] not in reasons[p]:
                            ctx.fail(["C17.exhaustion", "reason", "state=%s" % eff_states[p], "got=%s" % errs[p]] + pfeat,
                                     "NoHostAvailable.errors[position %d] is %s, expected %s (states %r)" % (
                                         p, errs[p], errors_m[p], eff_states))
                            break
        visited = len(errors_m) + len(set(frames_m) - set(errors_m))
        if visited >= 2 and any(s != "ok" for s in eff_states[:visited]):
            nontrivial = True
        if j > 0 and by_host and len(plan) >= 2:
            nontrivial = True     # the policy's plan offers other hosts first; only the target may be tried
        if j == 0:
            ctx.label("mode=%s" % case["mode"], "len=%d" % len(plan), "outcome=%s" % outcome_m[0])
        else:
            ctx.label("page-fetch:outcome=%s" % outcome_m[0])
        for s in set(eff_states):
            ctx.label("state:%s" % s)
        if ctx._failures or outcome_m[0] != "result" or kind != "result":
            break
        if j + 1 < len(all_states):
            nxt = all_states[j + 1]
            decisions.extend(model(nxt[:1] if by_host else nxt, kinds)[2])
    if pages:
        ctx.label("paged", "pages-fetched=%d" % fetched)
    ctx.nontrivial(nontrivial)


# --------------------------------------------------------------------------- speculative executions in flight
def interpret_spec(case, ctx):
    sim = U.Sim(tape=case.get("tape", []), granularity=case.get("gran", "blocking"))
    try:
        with sim:
            _run_spec(case, ctx, sim)
    except U.StepBudgetExceeded:
        ctx.stats.inconclusive += 1
        ctx.label("inconclusive:step-budget")


def _run_spec(case, ctx, sim):
    """Several attempts of one execution are in flight on different plan hosts (speculative executions); the
    steps answer a chosen in-flight host with a retryable server error + a retry decision, or with rows.
    Reference: RETRY re-sends to the host that ANSWERED, RETRY_NEXT_HOST goes to the next plan host nobody
    was sent to yet (NoHostAvailable when there is none), every error is filed under the host that answered."""
    from cassandra.cluster import ExecutionProfile, NoHostAvailable
    from cassandra.policies import ConstantSpeculativeExecutionPolicy
    from cassandra.query import SimpleStatement
    net = sim.net
    n, k = case["nodes"], min(case["spec"], case["nodes"] - 1)
    steps = case["steps"]
    decisions = [[st_[2], None] for st_ in steps if st_[1] != "rows"]
    rlog = []
    prof = ExecutionProfile(load_balancing_policy=U.fixed_plan_policy(), retry_policy=F.scripted_policy(decisions, rlog),
                            request_timeout=None,
                            speculative_execution_policy=ConstantSpeculativeExecutionPolicy(case["delay"], k))
    warm = case.get("warm", 0)
    cluster, session, nodes = F.build(sim, n, prof, max_in_flight=4)
    with ctx.driver(["C17.spec.warmup"]):
        F.warm_up(sim, session, cluster, nodes, warm)
    if ctx._failures:
        return
    index = dict((nd.address, i) for i, nd in enumerate(nodes))
    got = []

    def user(node, conn, req):
        if not F.is_user(req) or conn.is_control_connection:
            return None
        got.append(index[node.address])
        return ("hold",)
    for nd in nodes:
        nd.on_request = user
    outs = []
    session.add_request_init_listener(lambda f: outs.append(F.Outcome(sim, f)))
    fut = None
    with ctx.driver(["C17.spec.execute_async"]):
        fut = sim.call(session.execute_async, SimpleStatement(F.USER_Q, is_idempotent=True))
    if fut is None:
        return
    sim.settle()
    sim.advance(case["delay"] * k + 0.05)
    sim.settle()
    if got != list(range(k + 1)):
        ctx.fail(["C17.spec.order", "initial-attempts"],
                 "first attempt + %d speculative executions went to hosts %r, expected plan order %r" % (k, got, list(range(k + 1))))
        return
    in_flight = list(range(k + 1))
    next_plan = k + 1
    errored = {}
    outcome = None
    used = 0
    earlier_answered_first = False
    for (rank, answer, decision) in steps:
        if outcome is not None or not in_flight:
            break
        h = in_flight[rank % len(in_flight)]
        if h != in_flight[-1] and answer != "rows":
            earlier_answered_first = True
        held = [(nd, c, r) for (nd, c, r) in U.all_held(net) if index[nd.address] == h]
        if not held:
            ctx.fail(["C17.spec.harness", "no-held-request"], "host %d should hold a request (in flight %r, frames %r)" % (h, in_flight, got))
            return
        before = len(got)
        nd, c, r = held[0]
        kind = answer if answer == "rows" else KINDS[(h + case.get("kind_shift", 0)) % len(KINDS)]
        U.release(net, nd, c, r, kind)
        used += 1
        sim.settle()
        sim.advance(0.01)
        sim.settle()
        in_flight.remove(h)
        want_new = []
        if answer == "rows":
            outcome = ("result", [(1, "x")])
        else:
            errored[h] = F.ERRORS[kind][1]
            if decision == "retry":
                want_new = [h]
                in_flight.append(h)
            elif decision == "next_host":
                if next_plan < n:
                    want_new = [next_plan]
                    in_flight.append(next_plan)
                    next_plan += 1
                else:
                    outcome = ("nha", dict(errored))
            elif decision == "rethrow":
                outcome = ("error", F.ERRORS[kind][1])
            else:
                outcome = ("result", [])
        new = got[before:]
        if new != want_new:
            ctx.fail(["C17.spec.order", "decision=%s" % (decision if answer != "rows" else "rows"),
                      "answered=%s" % ("earlier-attempt" if h != got[before - 1] else "latest-attempt")],
                     "host %d answered %s (decision %s) while attempts were in flight on %r: new frames went to %r, expected %r "
                     "(all frames %r)" % (h, kind, decision, sorted(set(in_flight) | {h}), new, want_new, got))
            return
    # ---- outcome
    if outcome is not None:
        if not F.done(fut) or not outs or not outs[0].events:
            ctx.fail(["C17.spec.outcome", "incomplete", "expected=%s" % outcome[0]], "expected %r but the future has no outcome; frames %r" % (outcome, got))
        else:
            _t, kind, val = outs[0].events[0]
            if outcome[0] == "result":
                rows = [tuple(x) for x in (val or [])] if kind == "ok" else None
                if rows != outcome[1]:
                    ctx.fail(["C17.spec.outcome", "expected=rows", "got=%s" % ("rows" if kind == "ok" else F.exc_name(val))],
                             "expected rows %r, got %r" % (outcome[1], val))
            elif outcome[0] == "error":
                if kind != "err" or F.exc_name(val) != outcome[1]:
                    ctx.fail(["C17.spec.outcome", "expected=%s" % outcome[1], "got=%s" % ("rows" if kind == "ok" else F.exc_name(val))],
                             "expected %s, got %r" % (outcome[1], val))
            else:
                if kind != "err" or not isinstance(val, NoHostAvailable):
                    ctx.fail(["C17.spec.exhaustion", "not-reported", "got=%s" % ("rows" if kind == "ok" else F.exc_name(val))],
                             "plan exhausted by RETRY_NEXT_HOST (errors so far %r) but the outcome is %r" % (errored, val))
                else:
                    errs = dict((index.get(getattr(getattr(hh, "endpoint", None), "address", hh), str(hh)), F.exc_name(e))
                                for hh, e in val.errors.items())
                    if errs != outcome[1]:
                        ctx.fail(["C17.spec.exhaustion", "errors"],
                                 "NoHostAvailable.errors blames %r, the hosts that answered with errors are %r" % (errs, outcome[1]))
    elif F.done(fut):
        ctx.fail(["C17.spec.outcome", "premature"], "the future completed (%r) although no answer decided it; frames %r" % (
            outs[0].events[:1] if outs else None, got))
    # drain what is still held
    for _ in range(12):
        held = U.all_held(net)
        if not held:
            break
        U.release(net, held[0][0], held[0][1], held[0][2], "rows")
        sim.settle()
    ctx.label("speculative", "spec=%d" % k, "steps-used=%d" % used, "spec-outcome=%s" % (outcome[0] if outcome else "open"))
    if earlier_answered_first:
        ctx.label("earlier-attempt-answered-with-error")
    ctx.nontrivial(used >= 1 and k >= 1)


def s_spec_case(gran):
    step = st.tuples(st.integers(0, 3),
                     st.sampled_from(["error", "error", "error", "rows"]),
                     st.sampled_from(["retry", "retry", "next_host", "next_host", "rethrow", "ignore"])).map(list)
    return st.fixed_dictionaries({
        "nodes": st.sampled_from([2, 3, 3, 4]),
        "spec": st.sampled_from([1, 1, 2, 3]),
        "delay": st.sampled_from([0.0, 0.02]),
        "steps": st.lists(step, min_size=1, max_size=5),
        "kind_shift": st.integers(0, 3),
        "warm": st.sampled_from([0, 1, 2, 3]),
        "tape": st.lists(st.integers(0, 3), max_size=30 if gran == "locks" else 6),
        "gran": st.just(gran),
    })



# --------------------------------------------------------------------------- enumeration
def _chunks(tier):
    out = []
    if tier == "quick":
        for n in (1, 2):
            for order in ("asc", "desc"):
                out.append({"n": n, "order": order, "first": None})
        for first in STATES:
            out.append({"n": 3, "order": "asc", "first": first})
    else:
        for n in (1, 2):
            for order in ("asc", "desc"):
                out.append({"n": n, "order": order, "first": None})
        for perm in itertools.permutations(range(3)):
            for first in STATES:
                out.append({"n": 3, "order": list(perm), "first": first})
        for first in STATES:
            for second in STATES:
                out.append({"n": 4, "order": "asc", "first": first, "second": second})
    return out


def _cases(chunk):
    n = chunk["n"]
    order = chunk["order"]
    plan = list(range(n)) if order == "asc" else (list(reversed(range(n))) if order == "desc" else list(order))
    fixed = [chunk[k] for k in ("first", "second") if chunk.get(k) is not None]
    for rest in itertools.product(STATES, repeat=n - len(fixed)):
        sts = fixed + list(rest)
        yield {"nodes": n, "plan": plan, "states": sts, "mode": "lbp", "kind_shift": 0,
               "tape": [], "gran": "blocking", "warm": sum(STATES.index(x) for x in sts) % 3}
    if n == 2 and order == "asc":
        for s in STATES:
            for target in (0, 1):
                yield {"nodes": 2, "plan": [target, 1 - target], "states": [s, "ok"], "mode": "host", "kind_shift": 1,
                       "tape": [], "gran": "blocking", "warm": (STATES.index(s) + target) % 3}
        # a targeted request that is paged: every state of the target at the second page fetch, every way of fetching
        for s1 in ("ok", "err_retry"):
            for s2 in STATES:
                for vi, via in enumerate(VIAS):
                    target = (STATES.index(s2) + vi) % 2
                    yield {"nodes": 2, "plan": [target, 1 - target], "states": [s1, "ok"], "mode": "host", "kind_shift": 1,
                           "pages": [{"states": [s2, "same"], "via": via}],
                           "tape": [], "gran": "blocking", "warm": (STATES.index(s2) + vi) % 3}


def s_case(gran, paged=None):
    """paged=None: about a third of the cases fetch 1-3 further pages; True: all of them do"""
    def build(draw):
        m = draw(st.integers(1, 4))
        k = draw(st.integers(1, m))
        plan = draw(st.permutations(list(range(m))))[:k]
        weighted = STATES + ["err_next", "busy", "failsend", "missing"]
        mode = draw(st.sampled_from(["lbp", "lbp", "lbp", "host"] if not paged else ["lbp", "host"]))
        is_paged = draw(st.sampled_from([False, False, True])) if paged is None else paged
        case = {"nodes": m, "plan": list(plan), "mode": mode}
        if not is_paged:
            case["states"] = [draw(st.sampled_from(weighted)) for _ in range(k)]
        else:
            # the first page must be answered with rows: hosts before the answering one are skipped or say
            # "next host", the answering one is healthy (possibly after one same-host retry)
            succ = 0 if mode == "host" else draw(st.integers(0, k - 1))
            case["states"] = ([draw(st.sampled_from(["missing", "shutdown", "busy", "failsend", "err_next"])) for _ in range(succ)] +
                              [draw(st.sampled_from(["ok", "ok", "err_retry"]))] +
                              [draw(st.sampled_from(weighted)) for _ in range(k - succ - 1)])
            later = weighted + ["same"] * 6
            case["pages"] = [{"states": [draw(st.sampled_from(later)) for _ in range(k)], "via": draw(st.sampled_from(VIAS))}
                             for _ in range(draw(st.sampled_from([1, 1, 2, 3])))]
        case.update({"kind_shift": draw(st.integers(0, 3)),
                     "warm": draw(st.sampled_from([0, 1, 1, 2])),
                     "tape": draw(st.lists(st.integers(0, 3), max_size=30 if gran == "locks" else 6)), "gran": gran})
        return case
    return st.composite(build)()


def parts(tier):
    return [
        EnumPart("plans", _chunks(tier), _cases, interpret),
        hyp_part("generated", lambda: s_case("blocking"), interpret, tier, quick=120, thorough=1500,
                 quick_shards=1, thorough_shards=8),
        hyp_part("locks", lambda: s_case("locks"), interpret, tier, quick=40, thorough=500,
                 quick_shards=1, thorough_shards=4),
        hyp_part("paged", lambda: s_case("blocking", paged=True), interpret, tier, quick=80, thorough=1500,
                 quick_shards=1, thorough_shards=6),
        hyp_part("speculative", lambda: s_spec_case("blocking"), interpret_spec, tier, quick=150, thorough=1500,
                 quick_shards=1, thorough_shards=6),
        hyp_part("speculative-locks", lambda: s_spec_case("locks"), interpret_spec, tier, quick=30, thorough=400,
                 quick_shards=1, thorough_shards=2),
    ]
