"""C42 -- node-list refreshes make cluster metadata mirror the system tables."""
import uuid

from hypothesis import strategies as st

from checks import _simutil as U
from checks import _simctl as S
from vlib.harness import hyp_part

import os

# the quick tier runs in one process unless VERIF_JOBS asks for more (the box is shared)
SERIAL = os.environ.get("VERIF_TIER") == "quick" and not os.environ.get("VERIF_JOBS")
PID = "C42"
TITLE = "Node-list refreshes make cluster metadata mirror the system tables"
LEVEL = "exploration"
ENGINE = "sim"
TECHNIQUE = ("model-based generation of sequences of system.local / system.peers(_v2) snapshots (Hypothesis), served by a fake "
             "control node to the real Cluster/ControlConnection/Metadata on the simulated network; set-theoretic reference "
             "on the latest snapshot + notification log as oracle")
RULE = ("A case is 2-5 snapshots over a control node and up to 5 peers.  Per snapshot every peer is absent, valid, or invalid "
        "(no host_id / no data_center / no rack / no or empty tokens / no address at all); rows may miss rpc_address or carry "
        "0.0.0.0 (the peer column is the address then), be duplicated under another peer key, or name the control node's own "
        "address; datacenter, rack and token sets of peers and of the control node change between snapshots; system.peers or "
        "system.peers_v2; token metadata on/off.  The first snapshot is what Cluster.connect() sees, every later one is "
        "followed by Cluster.refresh_nodes().  Observed after each: Metadata.all_hosts() with datacenter/rack, the "
        "HostStateListener log (on_add/on_remove), the load-balancing policy log (on_down/on_up with the location seen at the "
        "call), Metadata.token_map (token -> owner, ring).  Non-trivial: some step adds a host, removes a host and sees an "
        "invalid row.  Distinct by case digest.")
ASSUMPTIONS = ["network, clock, executor are simulated (sim/); Cluster, ControlConnection, Metadata, TokenMap, pools are real",
               "every peer address is reachable (pools to new hosts succeed), so on_add notifications are not deferred",
               "a snapshot always has a system.local row with partitioner and tokens; tokens are unique across hosts",
               "with token metadata disabled the driver does not select the tokens column: rows are not judged on tokens"]

CONTROL = "10.0.0.1"
PEERS = ["10.0.0.%d" % i for i in range(2, 7)]
DCS = ["dc1", "dc2"]
RACKS = ["r1", "r2"]


def tokens_of(idx, variant):
    base = (idx + 1) * 1000
    return {0: [str(base), str(-base)], 1: [str(base + 500)], 2: [str(base), str(-base), str(base + 7)]}[variant]


def hid(addr, salt=0):
    return uuid.UUID(int=(int(addr.split(".")[-1]) << 8) + salt + 1)


def build_rows(snap):
    """-> (local_row, peer_rows) as served by the control node"""
    loc = snap["local"]
    local = {"key": "local", "cluster_name": "simcluster", "data_center": DCS[loc["dc"]], "rack": RACKS[loc["rack"]],
             "host_id": hid(CONTROL), "partitioner": "org.apache.cassandra.dht.Murmur3Partitioner",
             "release_version": "4.0.0", "schema_version": uuid.UUID(int=1), "tokens": tokens_of(0, loc["tok"]),
             "rpc_address": CONTROL, "broadcast_address": CONTROL, "listen_address": CONTROL}
    rows = []
    for r in snap["rows"]:
        addr = PEERS[r["peer"]] if r["peer"] >= 0 else CONTROL
        key = addr if not r["alias"] else "10.0.9.%d" % (r["peer"] + 2)
        row = {"peer": key, "data_center": DCS[r["dc"]], "rack": RACKS[r["rack"]], "host_id": hid(addr, 1 if r["alias"] else 0),
               "release_version": "4.0.0", "schema_version": uuid.UUID(int=1),
               "tokens": tokens_of(r["peer"] + 1, r["tok"]), "rpc_address": addr}
        if r["rpc"] == "null" and not r["alias"]:
            row["rpc_address"] = None
        elif r["rpc"] == "any" and not r["alias"]:
            row["rpc_address"] = "0.0.0.0"
        bad = r["bad"]
        if bad == "host_id":
            row["host_id"] = None
        elif bad == "dc":
            row["data_center"] = None
        elif bad == "rack":
            row["rack"] = None
        elif bad == "tokens-null":
            row["tokens"] = None
        elif bad == "tokens-empty":
            row["tokens"] = []
        elif bad == "address":
            row["rpc_address"] = None
            row["peer"] = None
        rows.append(row)
    return local, rows


def reference(snap, token_meta):
    """hosts the metadata must hold after a refresh on this snapshot: addr -> (dc, rack, tokens)"""
    loc = snap["local"]
    want = {CONTROL: (DCS[loc["dc"]], RACKS[loc["rack"]], tokens_of(0, loc["tok"]))}
    maybe = {}
    invalid = 0
    for r in snap["rows"]:
        addr = PEERS[r["peer"]] if r["peer"] >= 0 else CONTROL
        bad = r["bad"]
        val = (DCS[r["dc"]], RACKS[r["rack"]], tokens_of(r["peer"] + 1, r["tok"]))
        if bad in ("tokens-null", "tokens-empty") and not token_meta:
            # the statement ignores rows without tokens; with token metadata off the driver usually does not even select
            # the column (but does on the first connect through system.peers): either outcome is accepted
            invalid += 1
            if addr not in want:
                maybe.setdefault(addr, val)
            continue
        if bad is not None:
            invalid += 1
            continue
        if addr in want:
            continue            # duplicate endpoint (or the control node's own address): the row is not a distinct peer
        want[addr] = val
    for a in want:
        maybe.pop(a, None)
    return want, maybe, invalid


def interpret(case, ctx):
    sim = U.Sim(tape=[], granularity="blocking")
    try:
        with sim:
            _run(case, ctx, sim)
    except U.StepBudgetExceeded:
        ctx.stats.inconclusive += 1
        ctx.label("inconclusive:step-budget")


def _run(case, ctx, sim):
    from cassandra.cluster import EXEC_PROFILE_DEFAULT, ExecutionProfile
    token_meta = case["token_meta"]
    net = sim.net
    ctl = net.add_node(CONTROL, peers_v2=case["peers_v2"])
    for a in PEERS:
        net.add_node(a)
    llog, plog = [], []
    lbp = S.recording_lbp(plog)
    cluster = sim.make_cluster([CONTROL], protocol_version=4, token_metadata_enabled=token_meta,
                               execution_profiles={EXEC_PROFILE_DEFAULT: ExecutionProfile(load_balancing_policy=lbp)})
    cluster.register_listener(S.RecordingListener(llog))
    prev = None
    nt = False
    stale_seen = False
    for i, snap in enumerate(case["snaps"]):
        ctl.local_row_override, ctl.peer_rows_override = build_rows(snap)
        l0, p0 = len(llog), len(plog)
        if i == 0:
            with ctx.driver(["C42.connect"]):
                sim.call(cluster.connect, wait_for_all_pools=True)
        else:
            with ctx.driver(["C42.refresh", "raises-on"]):
                sim.call(cluster.refresh_nodes, case["force"] and i == len(case["snaps"]) - 1)
        if ctx._failures:
            return
        sim.settle()
        want, maybe, invalid = reference(snap, token_meta)
        hosts = dict((h.endpoint.address, h) for h in cluster.metadata.all_hosts())
        got = set(hosts)
        for a, v in maybe.items():
            if a in got:
                want[a] = v
        step = "connect" if i == 0 else "refresh"
        # ---- 1. the set of known hosts
        if got != set(want):
            extra, missing = sorted(got - set(want)), sorted(set(want) - got)
            why = _why(snap, extra, missing, token_meta)
            ctx.fail(["C42.hosts", step, "extra" if extra else "missing"] + why,
                     "step %d: metadata holds %r, the system tables name %r (extra %r, missing %r)" % (
                         i, sorted(got), sorted(want), extra, missing))
            return
        # ---- 2. location
        for a, (dc, rack, _t) in sorted(want.items()):
            h = hosts[a]
            if (h.datacenter, h.rack) != (dc, rack):
                ctx.fail(["C42.location", "control" if a == CONTROL else "peer", step],
                         "step %d: host %s is in %s/%s, the system tables say %s/%s" % (i, a, h.datacenter, h.rack, dc, rack))
        # ---- 3. notifications
        ev = llog[l0:]
        before = set(prev) if prev is not None else set()
        adds = sorted(a for (k, a) in ev if k == "add")
        rems = sorted(a for (k, a) in ev if k == "remove")
        if adds != sorted(set(want) - before):
            ctx.fail(["C42.notify", "on_add", step, _count_kind(adds, sorted(set(want) - before))],
                     "step %d: on_add for %r, newly seen hosts %r" % (i, adds, sorted(set(want) - before)))
        if rems != sorted(before - set(want)):
            ctx.fail(["C42.notify", "on_remove", step, _count_kind(rems, sorted(before - set(want)))],
                     "step %d: on_remove for %r, vanished hosts %r" % (i, rems, sorted(before - set(want))))
        # ---- 4. relocation reaches the load-balancing policy
        if prev is not None:
            for a in sorted(set(want) & before):
                old, new = prev[a][:2], want[a][:2]
                mine = [(k, dc, rack) for (k, aa, dc, rack) in plog[p0:] if aa == a and k in ("up", "down")]
                if old != new:
                    # (one policy instance shared by several profiles is told once per profile)
                    k = len(mine) // 2
                    if not mine or len(mine) % 2 or mine != [("down",) + old] * k + [("up",) + new] * k:
                        ctx.fail(["C42.relocation", "control" if a == CONTROL else "peer", "policy-not-told" if not mine else "sequence"],
                                 "step %d: %s moved %r -> %r; policy saw %r" % (i, a, old, new, mine))
                elif mine:
                    ctx.fail(["C42.relocation", "spurious"], "step %d: %s did not move but the policy saw %r" % (i, a, mine))
        # ---- 5. token map
        if token_meta:
            tm = cluster.metadata.token_map
            exp_owner = {}
            for a, (_dc, _rack, toks) in want.items():
                for t in toks:
                    exp_owner[int(t)] = a
            if tm is None:
                ctx.fail(["C42.tokenmap", "absent"], "step %d: no token map although partitioner and tokens are known" % i)
            else:
                got_owner = dict((t.value, h.endpoint.address) for t, h in tm.token_to_host_owner.items())
                ring = [t.value for t in tm.ring]
                if got_owner != exp_owner or ring != sorted(exp_owner):
                    changes = _changes(prev, want)
                    stale = prev is not None and got_owner == _owner(prev)
                    trigger = [c for c in changes if c in ("membership-changed", "peer-relocated", "initial")]
                    what = [c for c in changes if c.endswith("tokens-changed")]
                    feat = (["only-tokens-changed"] if what and not trigger else (trigger + what))
                    if case["force"] and i == len(case["snaps"]) - 1:
                        feat.append("forced")
                    ctx.fail(["C42.tokenmap", "stale" if stale else "wrong"] + feat,
                             "step %d: token map owners %r, system tables %r (changes since the previous snapshot: %s)" % (
                                 i, sorted(got_owner.items()), sorted(exp_owner.items()), changes))
                    stale_seen = True
                # owners must be the Host objects the metadata holds
                for t, h in tm.token_to_host_owner.items():
                    if hosts.get(h.endpoint.address) is not h:
                        ctx.fail(["C42.tokenmap", "foreign-host-object"], "step %d: token %r owned by a Host that is not in the metadata" % (i, t.value))
                        break
        if prev is not None and (set(want) - before) and (before - set(want)) and invalid:
            nt = True
        prev = want
        if ctx._failures:
            break
    sim.call(cluster.shutdown)
    for nm, e in sim.world.actor_errors:
        ctx.fail(["C42.thread-error", type(e).__name__], "virtual thread %s died with %r" % (nm, e))
        break
    ctx.label("snaps=%d" % len(case["snaps"]), "v2" if case["peers_v2"] else "v1", "tokens" if token_meta else "no-tokens")
    kinds = set(r["bad"] for s in case["snaps"] for r in s["rows"] if r["bad"])
    for k in sorted(kinds):
        ctx.label("bad:" + k)
    if any(r["alias"] for s in case["snaps"] for r in s["rows"]):
        ctx.label("duplicate-endpoint")
    if any(r["peer"] < 0 for s in case["snaps"] for r in s["rows"]):
        ctx.label("peer=control")
    ctx.nontrivial(nt)


def _owner(want):
    out = {}
    for a, (_dc, _rack, toks) in want.items():
        for t in toks:
            out[int(t)] = a
    return out


def _changes(prev, want):
    if prev is None:
        return ["initial"]
    out = []
    if set(prev) != set(want):
        out.append("membership-changed")
    else:
        out.append("membership-same")
    both = set(prev) & set(want)
    if any(prev[a][:2] != want[a][:2] for a in both if a != CONTROL):
        out.append("peer-relocated")
    if CONTROL in both and prev[CONTROL][:2] != want[CONTROL][:2]:
        out.append("control-relocated")
    if any(prev[a][2] != want[a][2] for a in both if a != CONTROL):
        out.append("peer-tokens-changed")
    if prev[CONTROL][2] != want[CONTROL][2]:
        out.append("control-tokens-changed")
    return out


def _count_kind(got, want):
    if len(got) > len(set(got)):
        return "twice"
    if set(got) - set(want):
        return "unexpected"
    if set(want) - set(got):
        return "missed"
    return "other"


def _why(snap, extra, missing, token_meta):
    feats = set()
    for r in snap["rows"]:
        addr = PEERS[r["peer"]] if r["peer"] >= 0 else CONTROL
        if addr in extra or addr in missing:
            if r["bad"]:
                feats.add("bad:" + r["bad"])
            if r["alias"]:
                feats.add("alias")
            if r["rpc"] != "set":
                feats.add("rpc:" + r["rpc"])
    return sorted(feats) or ["plain"]


# ------------------------------------------------------------------ generation
BAD = ["host_id", "dc", "rack", "tokens-null", "tokens-empty", "address"]


@st.composite
def s_snapshot(draw, prev):
    rows = []
    for p in range(5):
        state = draw(st.sampled_from(["absent", "valid", "valid", "valid", "bad"]))
        if prev is not None and draw(st.integers(0, 2)) == 0:
            # keep what the previous snapshot had for this peer (stable membership is the common case)
            rows.extend(dict(r) for r in prev["rows"] if r["peer"] == p and not r["alias"])
            continue
        if state == "absent":
            continue
        r = {"peer": p, "alias": False, "dc": draw(st.integers(0, 1)), "rack": draw(st.integers(0, 1)),
             "tok": draw(st.sampled_from([0, 0, 1, 2])), "rpc": draw(st.sampled_from(["set", "set", "set", "null", "any"])),
             "bad": draw(st.sampled_from(BAD)) if state == "bad" else None}
        rows.append(r)
        if draw(st.integers(0, 7)) == 0:
            d = dict(r, alias=True, rpc="set", bad=draw(st.sampled_from([None, None, "host_id"])))
            rows.append(d)
    if draw(st.integers(0, 5)) == 0:
        rows.append({"peer": -1, "alias": False, "dc": draw(st.integers(0, 1)), "rack": 0, "tok": 1, "rpc": "set", "bad": None})
    rows = draw(st.permutations(rows))
    if prev is None:
        local = {"dc": draw(st.integers(0, 1)), "rack": draw(st.integers(0, 1)), "tok": draw(st.sampled_from([0, 1, 2]))}
    else:
        local = dict(prev["local"])
        if draw(st.integers(0, 3)) == 0:
            local["dc"] = draw(st.integers(0, 1))
            local["rack"] = draw(st.integers(0, 1))
        if draw(st.integers(0, 3)) == 0:
            local["tok"] = draw(st.sampled_from([0, 1, 2]))
    return {"local": local, "rows": list(rows)}


@st.composite
def s_case(draw):
    n = draw(st.integers(2, 5))
    snaps = []
    prev = None
    for _ in range(n):
        prev = draw(s_snapshot(prev))
        snaps.append(prev)
    return {"snaps": snaps, "peers_v2": draw(st.booleans()), "token_meta": draw(st.sampled_from([True, True, True, False])),
            "force": draw(st.sampled_from([False, False, False, True]))}


def parts(tier):
    return [hyp_part("snapshots", s_case, interpret, tier, quick=90, thorough=1500, quick_shards=8, thorough_shards=16)]
