"""C14 -- every request completes exactly once."""
from hypothesis import strategies as st

from checks import _simutil as U
from vlib.harness import hyp_part

PID = "C14"
TITLE = "Every request completes exactly once"
LEVEL = "exploration"
ENGINE = "sim"
TECHNIQUE = "model-based generation of event histories (Hypothesis) over the real Cluster/Session/ResponseFuture on a deterministic simulated network; history invariant as oracle"
RULE = ("A case is a history: 1-3 fake nodes that hold every user request, one statement executed through the real "
        "Session.execute_async with 0-3 speculative executions, a scripted retry policy, an optional client timeout, "
        "and a generated list of events (answer the i-th held request with rows/void/one of 9 server errors/connection "
        "close/reset, advance the virtual clock, register another callback pair, register a CHAINING pair (its handlers, "
        "when they run, attach a further pair -- add_callbacks, or add_callback/add_errback alone -- to the same future from "
        "inside the delivery of the outcome, to depth 1-2; the pair registered right after execute_async may chain too), "
        "answer a held request while another client thread attaches a pair (the tape places the registration before, "
        "inside or after the delivery), call result() from a client thread, "
        "fetch the next page when the result has more pages -- a page fetch is an execution of its own), "
        "plus a schedule tape.  After the events every still-held request is answered, or -- drain mode silent, with a "
        "timeout -- none is and time passes beyond the timeout, which alone must complete the request (speculative "
        "policies asking for more attempts than the plan has hosts included).  Non-trivial: at least 2 requests of this execution reached a server (speculative execution or "
        "retry) and at least 2 responses were delivered.  Every attached function is owed exactly one invocation per outcome "
        "(a lone callback/errback attached by a chaining handler: one if the outcome is of its kind, none otherwise), "
        "including functions attached while the outcome is being delivered and on every later page; at most 24 pairs per case.  "
        "Distinct by case digest.")
ASSUMPTIONS = ["network, clock, executor and event loop are simulated (sim/); Cluster, Session, pools, connections, "
               "ResponseFuture, policies are the real classes",
               "handlers run where the driver runs them (event-loop actor, or the attaching thread when the outcome is already "
               "there); a handler that attaches a further function to its own future is ordinary documented use "
               "(add_callback: 'if the final result has already been seen ... the callback will be called immediately'); "
               "handlers never raise and never block",
               "pre-emption only at blocking operations (quick) / additionally at every lock operation and clock read (thorough)"]

ANSWERS = ["rows", "rows", "rows_more", "void"] + U.ERROR_KINDS + ["close", "reset"]


def s_case(gran):
    ev = st.one_of(
        st.tuples(st.just("answer"), st.integers(0, 5), st.sampled_from(ANSWERS)),
        st.tuples(st.just("answer"), st.integers(0, 5), st.sampled_from(ANSWERS)),
        st.tuples(st.just("advance"), st.sampled_from([0.01, 0.05, 0.06, 0.2, 0.5, 1.0])),
        st.tuples(st.just("add_cb")),
        # a pair whose handlers, when they run, attach a further pair to the same future (callback chaining):
        # with add_callbacks ("pair") or with add_callback / add_errback alone ("same" side as the running handler);
        # depth 2: the attached pair chains once more
        st.tuples(st.just("add_chain"), st.sampled_from(["pair", "same"]), st.sampled_from([1, 1, 2])),
        # another client thread attaches a pair WHILE the i-th held request is being answered (the schedule tape
        # decides where in the delivery the registration lands)
        st.tuples(st.just("answer_add"), st.integers(0, 5), st.sampled_from(ANSWERS)),
        st.tuples(st.just("result")),
        st.tuples(st.just("next_page")),
    )
    dec = st.tuples(st.sampled_from(["retry", "retry", "next_host", "rethrow", "ignore"]),
                    st.sampled_from([None, "ONE", "QUORUM"]))
    return st.fixed_dictionaries({
        "hosts": st.integers(1, 3),
        "spec": st.sampled_from([0, 1, 1, 2, 3]),
        "spec_delay": st.sampled_from([0.0, 0.05]),
        "idempotent": st.sampled_from([True, True, True, False]),
        "timeout": st.sampled_from([None, None, 0.3, 0.3, 1.0]),
        # either free decisions, or a run of retries (the chain then ends with the policy's RETHROW / IGNORE)
        "decisions": st.one_of(st.lists(dec, max_size=4),
                               st.tuples(st.lists(st.tuples(st.sampled_from(["retry", "retry", "next_host"]),
                                                            st.sampled_from([None, "ONE"])), min_size=1, max_size=3),
                                         st.lists(st.tuples(st.sampled_from(["rethrow", "ignore"]), st.just(None)),
                                                  max_size=1)).map(lambda t: t[0] + t[1])),
        "events": st.builds(lambda warm, evs: warm + evs,
                            st.sampled_from([[], [("advance", 0.06)], [("advance", 0.06), ("advance", 0.06)],
                                             [("advance", 0.06), ("advance", 0.06), ("advance", 0.06)],
                                             # a page, then a page fetch that fails, then the fetch is tried again
                                             [("answer", 0, "rows_more"), ("next_page",), ("answer", 0, "invalid"),
                                              ("next_page",), ("answer", 0, "rows")],
                                             [("answer", 0, "rows_more"), ("next_page",), ("answer", 0, "unauthorized"),
                                              ("next_page",)],
                                             # a chain of retryable errors: every attempt fails
                                             [("answer", 0, "unavailable"), ("answer", 0, "overloaded"),
                                              ("answer", 0, "read_timeout")],
                                             [("answer", 0, "write_timeout"), ("answer", 0, "bootstrapping"),
                                              ("answer", 0, "server_error"), ("answer", 0, "unavailable")]]),
                            st.lists(ev, min_size=1, max_size=12)),
        "tape": st.lists(st.integers(0, 3), max_size=30 if gran == "locks" else 8),
        "gran": st.just(gran),
        "mif": st.sampled_from([None, 3, 4]),
        # what happens to requests still unanswered after the events: answered, or (with a timeout) never
        "drain": st.sampled_from(["answer", "answer", "silent"]),
        # the pair registered right after execute_async: plain, or chaining (how, depth) as in the add_chain event
        "p0_chain": st.sampled_from([None, None, None, ["pair", 1], ["same", 1], ["pair", 2], ["same", 2]]),
    })


MAX_PAIRS = 24     # chained pairs attach a new pair on every page; bound the growth


class _Pair(U.CallbackPair):
    """a (callback, errback) pair that may, from inside its handlers, attach a further pair to the same future.
    sides: which of the two functions are registered; origin: how it was attached (finding-key feature)"""

    def __init__(self, name, env, sides=("cb", "eb"), chain=None, origin="plain"):
        U.CallbackPair.__init__(self, name)
        self.env, self.sides, self.chain, self.origin = env, tuple(sides), chain, origin
        self.kids = 0

    def on_result(self, result):
        self.cb.append(result)
        self._chain("cb")

    def on_error(self, exc):
        self.eb.append(exc)
        self._chain("eb")

    def attach(self, fut):
        if self.sides == ("cb", "eb"):
            fut.add_callbacks(self.on_result, self.on_error)
        elif self.sides == ("cb",):
            fut.add_callback(self.on_result)
        else:
            fut.add_errback(self.on_error)

    def _chain(self, side):
        env = self.env
        if not self.chain or len(env["pairs"]) >= MAX_PAIRS or self.total > 1:
            return
        how, depth = self.chain
        self.kids += 1
        kid = _Pair("%s.%d" % (self.name, self.kids), env, sides=("cb", "eb") if how == "pair" else (side,),
                    chain=[how, depth - 1] if depth > 1 else None, origin="attached-during-delivery")
        env["pairs"].append(kid)
        env["chained"] += 1
        try:
            kid.attach(env["fut"])
        except Exception as e:  # noqa -- reported by the interpreter (must not vanish in the event loop)
            env["attach_errors"].append(e)


def interpret(case, ctx):
    sim = U.Sim(tape=case["tape"], granularity=case["gran"])
    try:
        with sim:
            _run(case, ctx, sim)
    except U.StepBudgetExceeded:
        ctx.stats.inconclusive += 1
        ctx.label("inconclusive:step-budget")


def _run(case, ctx, sim):
    from cassandra.cluster import EXEC_PROFILE_DEFAULT, ExecutionProfile
    from cassandra.policies import ConstantSpeculativeExecutionPolicy
    from cassandra.query import SimpleStatement
    net = sim.net
    addrs = ["10.0.0.%d" % (i + 1) for i in range(case["hosts"])]
    for a in addrs:
        net.add_node(a).on_request = U.hold_user_queries()
    rlog = []
    prof = ExecutionProfile(load_balancing_policy=U.fixed_plan_policy(),
                            retry_policy=U.scripted_retry_policy(case["decisions"], rlog),
                            request_timeout=case["timeout"],
                            speculative_execution_policy=ConstantSpeculativeExecutionPolicy(case["spec_delay"], case["spec"])
                            if case["spec"] else None)
    cc = net.connection_class()
    if case.get("mif"):
        # few stream ids per connection, so that attempts also travel on stream id 0 and ids are reused
        cc.max_in_flight = case["mif"]
    cluster = sim.make_cluster(addrs[:1], execution_profiles={EXEC_PROFILE_DEFAULT: prof}, connection_class=cc)
    session = sim.call(cluster.connect, wait_for_all_pools=True)
    sim.settle()
    stmt = SimpleStatement("SELECT k FROM t", is_idempotent=case["idempotent"])

    env = {"pairs": [], "fut": None, "chained": 0, "raced": 0, "attach_errors": []}
    pairs = env["pairs"]
    pairs.append(_Pair("p0", env, chain=case.get("p0_chain"),
                       origin="chaining" if case.get("p0_chain") else "plain"))
    results = []      # outcomes of blocking result() calls
    fut = env["fut"] = sim.call(session.execute_async, stmt)
    pairs[0].attach(fut)
    sent_marker = len(net.requests)

    def my_requests():
        return [r for (_n, _c, r) in net.requests if r["op"] == "QUERY" and r.get("query") == "SELECT k FROM t"]

    def blocking_result():
        try:
            rs = fut.result()
            results.append(("ok", rs))
        except Exception as e:  # noqa
            results.append(("err", e))

    delivered = 0
    pages = [0]

    def check_counts(where):
        for e in env["attach_errors"]:
            ctx.fail(["C14.add_callbacks", "inside-handler", "raises", type(e).__name__],
                     "%s: attaching a callback from inside a handler of the same future raised %r" % (where, e))
            return False
        for p in pairs:
            if p.total > 1:
                kinds = ("both" if p.cb and p.eb else ("callback-twice" if p.cb else "errback-twice"))
                ctx.fail(["C14.once", kinds] + ([p.origin] if p.origin in ("attached-during-delivery",
                                                                            "attached-concurrently") else []),
                         "%s: callback pair %s (%s, sides %s) invoked %d times (results %d, errors %d: %r)" % (
                             where, p.name, p.origin, "+".join(p.sides), p.total, len(p.cb), len(p.eb),
                             [type(e).__name__ for e in p.eb]))
                return False
        return True

    def missing():
        """pairs that were not invoked exactly as often as the outcome of the complete page demands: a pair with both
        functions once; a lone callback (errback) attached by a chaining handler once if the outcome is a result
        (an error), else not at all.  The outcome kind is what p0 (both functions) saw."""
        side = "cb" if pairs[0].cb else "eb"
        return [p for p in pairs if p.total != (1 if side in p.sides else 0)]

    def release_one(ev):
        held = U.all_held(net)
        if not held:
            return False
        node, conn, req = held[ev[1] % len(held)]
        if ev[2] == "rows_more":
            U.release(net, node, conn, req, "rows", paging_state=b"ps%d" % delivered)
        else:
            U.release(net, node, conn, req, ev[2])
        return True

    def racing_attach(p):
        try:
            p.attach(fut)
        except Exception as e:  # noqa
            env["attach_errors"].append(e)

    ok = True
    for ev in case["events"]:
        if ev[0] == "answer":
            if not release_one(ev):
                continue
            delivered += 1
        elif ev[0] == "answer_add":
            if len(pairs) < MAX_PAIRS:
                p = _Pair("r%d" % len(pairs), env, origin="attached-concurrently")
                pairs.append(p)
                env["raced"] += 1
                sim.spawn(racing_attach, p)
            if release_one(ev):
                delivered += 1
        elif ev[0] == "next_page":
            # a page fetch is an execution of its own: exactly one more outcome per registered pair
            # (also after a page fetch that FAILED: the paging state of the last delivered page is still
            # there and the application may try that page again)
            if fut._event.is_set() and fut.has_more_pages:
                for p in missing():
                    ctx.fail(["C14.delivered", "never-called"],
                             "page complete but callback pair %s (%s, sides %s) was invoked %d times" % (
                                 p.name, p.origin, "+".join(p.sides), p.total))
                for p in pairs:
                    del p.cb[:]
                    del p.eb[:]
                del results[:]
                pages[0] += 1
                with ctx.driver(["C14.next_page"]):
                    sim.call(fut.start_fetching_next_page)
        elif ev[0] == "advance":
            sim.advance(ev[1])
        elif ev[0] in ("add_cb", "add_chain"):
            if len(pairs) >= MAX_PAIRS:
                continue
            chain = [ev[1], ev[2]] if ev[0] == "add_chain" else None
            p = _Pair("p%d" % len(pairs), env, chain=chain, origin="chaining" if chain else "plain")
            pairs.append(p)
            with ctx.driver(["C14.add_callbacks"]):
                p.attach(fut)
        elif ev[0] == "result":
            sim.spawn(blocking_result)
        sim.settle()
        ok = check_counts("after event %r" % (ev,))
        if not ok:
            break

    silent = case.get("drain") == "silent" and case["timeout"] is not None
    if ok:
        # drain: every request the driver sent for this execution gets answered -- or, with a client timeout and
        # servers that stay silent, time passes beyond the timeout: that alone must complete the request
        for _ in range(0 if silent else 40):
            sim.settle()
            held = U.all_held(net)
            if not held:
                break
            node, conn, req = held[0]
            U.release(net, node, conn, req, "rows")
            delivered += 1
        sim.settle()
        if case["timeout"] is not None:
            sim.advance(case["timeout"] + 0.5)
        else:
            sim.advance(0.5)
        sim.settle()
        ok = check_counts("after drain")

    n_sent = len(my_requests())
    done = fut._event.is_set()
    if ok:
        if silent and not done:
            ctx.fail(["C14.completes", "silent-servers", "spec=%s" % bool(case["spec"] and case["idempotent"])],
                     "the client timeout of %s s passed (virtual clock, +0.5 s) with %d request(s) unanswered, but no callback "
                     "or errback ran and result() would block: %d attempts were sent to %d host(s), %d speculative "
                     "executions configured" % (case["timeout"], len(U.all_held(net)), n_sent, case["hosts"], case["spec"]))
        elif not U.all_held(net) and not done:
            ctx.fail(["C14.completes"], "all %d requests answered/failed and time passed, but the future has no outcome" % n_sent)
        elif done:
            for p in missing():
                ctx.fail(["C14.delivered", "never-called"],
                         "future is complete but callback pair %s (%s, sides %s) was invoked %d times" % (
                             p.name, p.origin, "+".join(p.sides), p.total))
                break
            kinds = set("cb" if p.cb else "eb" for p in pairs if p.total == 1)
            if len(kinds) > 1:
                ctx.fail(["C14.consistent", "pairs-disagree"], "some pairs saw a result and others an error")
            # result() agrees with the callbacks
            sim.spawn(blocking_result)
            sim.settle()
            want = "ok" if pairs[0].cb else "err"
            for kind, val in results:
                if kind != want and len(kinds) == 1:
                    ctx.fail(["C14.result", "disagrees"],
                             "result() reported %s but callbacks reported %s" % (kind, want))
                    break
            if not results:
                ctx.fail(["C14.result", "blocked"], "result() did not return although the future is complete")
    sim.call(cluster.shutdown)
    for name, e in sim.world.actor_errors:
        ctx.fail(["C14.thread-error", type(e).__name__], "virtual thread %s died with %r" % (name, e))
        break
    ctx.label("sent=%d" % min(n_sent, 4), "spec=%d" % case["spec"], "timeout" if case["timeout"] else "no-timeout",
              "done" if done else "not-done")
    if rlog:
        ctx.label("retry-consulted")
    if pages[0]:
        ctx.label("page-fetches>0")
    if silent:
        ctx.label("silent-drain")
        if case["spec"] and case["idempotent"] and case["spec"] >= case["hosts"]:
            ctx.label("silent-drain:more-speculative-attempts-than-hosts")
    if env["chained"]:
        ctx.label("chained:pair-attached-from-inside-a-handler",
                  "chained:on-%s" % ("error" if any(p.eb for p in pairs if p.origin == "attached-during-delivery")
                                     else "result"))
        if any(p.origin == "attached-during-delivery" and p.kids for p in pairs):
            ctx.label("chained:depth>=2")
        if pages[0]:
            ctx.label("chained:across-page-fetches")
    elif any(p.chain for p in pairs):
        ctx.label("chained:configured-but-no-outcome-reached-it")
    if env["raced"]:
        ctx.label("raced:pair-attached-by-another-thread-during-an-answer")
    if any(p.eb for p in pairs):
        ctx.label("outcome:error")
    elif any(p.cb for p in pairs):
        ctx.label("outcome:result")
    ctx.nontrivial(n_sent >= 2 and delivered >= 2)


def parts(tier):
    return [
        hyp_part("blocking", lambda: s_case("blocking"), interpret, tier, quick=120, thorough=1500,
                 quick_shards=6, thorough_shards=12),
        hyp_part("locks", lambda: s_case("locks"), interpret, tier, quick=40, thorough=700,
                 quick_shards=2, thorough_shards=4),
    ]
