"""C07 -- compiled extensions behave exactly like the pure-Python driver.

Build differential (engine E6).  build/cybuild.py compiles the CURRENT tree ($VERIF_REPO) in a scratch
copy; a persistent worker process per shard imports that compiled tree and evaluates the very same
request as this (Hypothesis) process evaluates on the pure tree; the two answers are compared through
a canonical type-tagged form.  `python -m checks.c07 --worker` is the worker side of this file.
"""
from __future__ import annotations

import datetime
import decimal
import ipaddress
import json
import logging
import os
import struct
import subprocess
import sys
import traceback
import uuid

THOROUGH_SCALE = 1.0
PID = "C07"
TITLE = "Compiled extensions behave exactly like the pure-Python driver"
LEVEL = "exploration"
ENGINE = "cybuild"
TECHNIQUE = ("differential property-based testing (Hypothesis): the same generated request is evaluated by the "
             "pure-Python tree in this process and by a freshly compiled copy of the same tree in a worker process")
RULE = ("murmur3: 1-8 keys per case, lengths 0..80 and up to 4 KiB with every tail size, bytes drawn from "
        "{00,01,7f,80,ff} and random; non-trivial = a key with length%16!=0 whose tail has a byte >= 0x80, or length >= 32. "
        "rows: RESULT/rows bodies written by the independent spec encoders (spec.proto, spec.values): 1-5 columns of "
        "generated type trees (all 21 scalars, list/set/map/tuple/UDT/vector/frozen/reversed, nesting <= 3), 0-5 rows, "
        "null and zero-length cells, protocol v1-v6 + DSE v1/v2, metadata flag combinations (global spec, paging state, "
        "no-metadata + result_metadata, new metadata id, continuous page), optional trace id / warnings / payload, UDT "
        "mapped classes; decoded by pure _ProtocolHandler here and by _ProtocolHandler, cython_protocol_handler(ListParser()) "
        "and (LazyParser()) in the compiled tree; non-trivial = at least one row and a column that is a collection/tuple/UDT, "
        "a timestamp/decimal/varint/date/time/duration/inet/uuid scalar, or a null/empty cell. "
        "thorough adds, against the fully compiled tree (cqltypes, util, protocol, ... as binary wheels ship them): "
        "value-level from_binary/to_binary for generated (type, value, version), util helpers (datetime_from_timestamp, "
        "Date, Time, uuid helpers, SortedSet / OrderedMap operation scripts, Version ordering) and encode_message bytes of "
        "generated request messages; non-trivial there = nested type / boundary operand / message with parameters.")
ASSUMPTIONS = [
    "both builds come from the current $VERIF_REPO tree; the compiled one is built with this machine's gcc, Cython 3.3 and "
    "the interpreter's default flags (debug info dropped), not taken from a published wheel",
    "setup.py is replayed, not executed (it needs the network): cmurmur3 + cassandra/*.pyx (quick) plus the nine "
    "cythonized .py modules (thorough); libev wrapper and numpy parser are not built (no ev.h, no numpy) and are outside the statement",
    "an input that one build decodes and the other refuses is a difference; an input both refuse is not (classes/messages of "
    "the two refusals are not compared); cell bytes come from spec.values.encode (independent of the driver)",
    "a worker that dies on a request (e.g. segfault in compiled code) is reported as a violation of that request",
]
LEVEL_TEXT = ("generated search over well-formed inputs: finds differences between the builds, does not prove their absence")

HOME = os.environ.get("VERIF_HOME") or os.path.dirname(os.path.dirname(os.path.abspath(__file__)))
_SIDE = "pure"            # "compiled" inside the worker


# =====================================================================================================
# shared by both processes: canonical tagging and request evaluation
# =====================================================================================================

class _Mapped(object):
    """a user-registered class for a UDT (Cluster.register_user_type): built with field names as kwargs"""

    def __init__(self, **kw):
        self.fields = kw


def _exc(e):
    """["exc", class name, structural reason]: the reason is only ever used as a feature of a finding key"""
    msg = ""
    if not isinstance(e, (KeyError, IndexError, AttributeError)):      # their messages are data, not structure
        msg = str(e)
        # keep only the innermost reason (after the 'Failed decoding result column "x" of type T: ' prefix)
        if ": " in msg:
            msg = msg.rsplit(": ", 1)[1]
        import re
        msg = re.sub(r"'[^']*'|\"[^\"]*\"|[^A-Za-z ]", " ", msg)
        msg = " ".join(msg.split()[:6])[:48]
    return ["exc", type(e).__name__, msg]


def tag(o, _d=0):
    """canonical JSON-able, type-tagged form; equal forms <=> same Python objects for the purposes of C07"""
    from cassandra import cqltypes, util
    if o is None:
        return None
    if _d > 40:
        return ["deep"]
    t = type(o)
    if t is bool:
        return ["b", o]
    if t is int:
        return ["i", str(o)]
    if t is float:
        return ["f", struct.pack(">d", o).hex()]
    if t is str:
        return ["s", o]
    if t is bytes:
        return ["y", o.hex()]
    if t is bytearray:
        return ["Y", bytes(o).hex()]
    if t is decimal.Decimal:
        return ["D", repr(tuple(o.as_tuple()))]
    if t is uuid.UUID:
        return ["U", o.hex]
    if t is datetime.datetime:
        return ["dt", o.isoformat(), repr(o.tzinfo)]
    if t is datetime.date:
        return ["date", o.isoformat()]
    if t is datetime.time:
        return ["time", o.isoformat(), repr(o.tzinfo)]
    if t is datetime.timedelta:
        return ["td", o.days, o.seconds, o.microseconds]
    if t is util.Date:
        return ["Date", o.days_from_epoch]
    if t is util.Time:
        return ["Time", str(o.nanosecond_time)]
    if t is util.Duration:
        return ["Dur", str(o.months), str(o.days), str(o.nanoseconds)]
    if t is list:
        return ["l", [tag(x, _d + 1) for x in o]]
    if t is tuple:
        return ["t", [tag(x, _d + 1) for x in o]]
    if isinstance(o, tuple) and hasattr(t, "_fields"):
        return ["nt", t.__name__, ",".join(t._fields), [tag(x, _d + 1) for x in o]]
    if t is util.SortedSet:
        return ["SS", [tag(x, _d + 1) for x in o]]
    if t is util.OrderedMapSerializedKey or t is util.OrderedMap:
        return ["OMSK" if t is util.OrderedMapSerializedKey else "OM",
                [[tag(k, _d + 1), tag(v, _d + 1)] for k, v in o.items()]]
    if t is dict:
        return ["d", [[tag(k, _d + 1), tag(v, _d + 1)] for k, v in o.items()]]
    if t in (set, frozenset):
        return ["set" if t is set else "fset", sorted((tag(x, _d + 1) for x in o), key=json.dumps)]
    if t in (ipaddress.IPv4Address, ipaddress.IPv6Address):
        return ["ip", str(o)]
    if t is cqltypes.EmptyValue:
        return ["EMPTY"]
    if t is _Mapped or t.__name__ == "_Mapped":
        return ["mapped", [[k, tag(v, _d + 1)] for k, v in o.fields.items()]]
    if isinstance(o, type):
        if issubclass(o, cqltypes._CassandraType):
            return ["type", o.cql_parameterized_type(), o.cass_parameterized_type(full=True)]
        return ["class", o.__name__]
    if isinstance(o, BaseException) and not hasattr(o, "opcode"):
        return _exc(o)
    if hasattr(o, "__dict__"):
        name = t.__name__
        if name == "FastResultMessage":
            name = "ResultMessage"
        return ["obj", name, dict((k, tag(v, _d + 1)) for k, v in sorted(vars(o).items()))]
    return ["repr", t.__name__, repr(o)]


def _guard(fn, *a):
    try:
        return tag(fn(*a))
    except Exception as e:  # the driver's answer *is* the exception class
        return _exc(e)


_HANDLERS = {}


def _handlers():
    if not _HANDLERS:
        from cassandra import protocol as P
        _HANDLERS["plain"] = P._ProtocolHandler
        if _SIDE == "compiled":
            from cassandra.obj_parser import LazyParser, ListParser
            _HANDLERS["list"] = P.cython_protocol_handler(ListParser())
            _HANDLERS["lazy"] = P.cython_protocol_handler(LazyParser())
    return _HANDLERS


def ev_murmur3(req):
    from cassandra.metadata import Murmur3Token
    if _SIDE == "compiled":
        from cassandra.cmurmur3 import murmur3 as h
    else:
        from cassandra.murmur3 import _murmur3 as h
    out = []
    for hx in req["keys"]:
        k = bytes.fromhex(hx)
        out.append([_guard(h, k), _guard(lambda: Murmur3Token.from_key(k).value)])
    return {"hash": out}


def ev_decode(req):
    pv = req["pv"]
    body = bytes.fromhex(req["body"])
    meta_body = bytes.fromhex(req["meta_body"]) if req.get("meta_body") else None
    utm = {}
    for ks, name in req.get("mapped") or []:
        utm.setdefault(ks, {})[name] = _Mapped
    out = {}
    for hname, handler in _handlers().items():
        def run():
            md = None
            if meta_body is not None:
                m0 = handler.decode_message(pv, utm, 0, 0, req["opcode"], meta_body, None, None)
                md = m0.column_metadata
            msg = handler.decode_message(pv, utm, req["stream"], req["flags"], req["opcode"], body, None, md)
            rows = getattr(msg, "parsed_rows", None)
            if rows is not None and not isinstance(rows, list):
                msg.parsed_rows = list(rows)          # LazyParser: materialise
            return msg
        out[hname] = _guard(run)
    return out


def ev_value(req):
    from checks import _drv
    from spec import values as V
    tree, pv = req["tree"], req["pv"]
    out = {}
    try:
        typ = _drv.build_type(tree, via=req["via"])
    except Exception as e:
        return {"type": _exc(e)}
    out["type"] = tag(typ)
    if req.get("bytes") is not None:
        raw = bytes.fromhex(req["bytes"])
        try:
            obj = typ.from_binary(raw, pv)
            out["des"] = tag(obj)
            out["des_ser"] = _guard(typ.to_binary, obj, pv)
        except Exception as e:
            out["des"] = _exc(e)
    try:
        obj = _drv.to_driver(tree, req["value"], style=req["style"])
    except Exception as e:      # the glue could not build this style for this tree: same on both sides
        out["ser"] = ["glue", type(e).__name__]
    else:
        out["ser"] = _guard(typ.to_binary, obj, pv)
    return out


def _scalar(x):
    """operands of the container scripts: ints, strs, lists (-> tuples) and {"hex": ...} (-> bytes)"""
    if isinstance(x, dict):
        return bytes.fromhex(x["hex"])
    if isinstance(x, list):
        return tuple(_scalar(y) for y in x)
    return x


def ev_util(req):
    from cassandra import util
    op = req["op2"]
    out = {}
    if op == "dft":
        out["dt"] = _guard(util.datetime_from_timestamp, req["ts"])
        if isinstance(req["ts"], int):
            out["utc"] = _guard(util.utc_datetime_from_ms_timestamp, req["ts"])
    elif op == "ms":
        try:
            dt = datetime.datetime(*req["dt"])
        except Exception as e:
            return {"glue": type(e).__name__}
        out["ms"] = _guard(util.ms_timestamp_from_datetime, dt)
    elif op == "date":
        def run():
            d = util.Date(req["arg"])
            return [d.days_from_epoch, d.seconds, str(d), repr(d), _guard(d.date), hash(d) == hash(util.Date(d.days_from_epoch)),
                    d == util.Date(d.days_from_epoch), d < util.Date(0)]
        out["date"] = _guard(run)
    elif op == "time":
        def run():
            t = util.Time(req["arg"])
            return [t.nanosecond_time, t.hour, t.minute, t.second, t.nanosecond, str(t), repr(t), _guard(t.time),
                    t == util.Time(t.nanosecond_time), t < util.Time(43200 * 10 ** 9)]
        out["time"] = _guard(run)
    elif op == "uuid":
        def run():
            u = util.uuid_from_time(req["t"], req["node"], req["clock"])
            return [u, util.unix_time_from_uuid1(u), util.datetime_from_uuid1(u),
                    util.min_uuid_from_time(req["t"]), util.max_uuid_from_time(req["t"])]
        out["uuid"] = _guard(run)
    elif op == "duration":
        def run():
            d = util.Duration(*req["arg"])
            return [str(d), repr(d), d == util.Duration(*req["arg"])]
        out["dur"] = _guard(run)
    elif op == "version":
        def run():
            a, b = util.Version(req["a"]), util.Version(req["b"])
            return [str(a), repr(a), a == b, a < b, a > b, a <= b, a.major, a.minor, a.patch, a.build, a.prerelease]
        out["version"] = _guard(run)
        out["version_hash"] = _guard(lambda: hash(util.Version(req["a"])) == hash(util.Version(req["a"])))
    elif op == "sset":
        trace = []
        try:
            s = util.SortedSet(_scalar(req["init"]))
        except Exception as e:
            return {"init": _exc(e)}
        for step in req["script"]:
            name, arg = step[0], _scalar(step[1]) if len(step) > 1 else None

            def run():
                if name == "add":
                    return s.add(arg)
                if name == "remove":
                    return s.remove(arg)
                if name == "pop":
                    return s.pop()
                if name == "contains":
                    return arg in s
                if name == "index":
                    return s[arg]
                if name == "del":
                    del s[arg]
                    return None
                if name == "update":
                    return s.update(arg)
                if name in ("union", "intersection", "difference", "symmetric_difference"):
                    return getattr(s, name)(util.SortedSet(arg) if step[2] else set(arg))
                if name in ("issubset", "issuperset", "isdisjoint"):
                    return getattr(s, name)(util.SortedSet(arg) if step[2] else set(arg))
                if name in ("or", "and", "sub", "xor"):
                    import operator
                    return getattr(operator, name + "_" if name in ("or", "and") else name)(
                        s, util.SortedSet(arg) if step[2] else set(arg))
                if name == "eq":
                    other = util.SortedSet(arg) if step[2] else set(arg)
                    return [s == other, s != other, s <= other, s < other, s >= other, s > other]
                if name == "misc":
                    return [len(s), list(reversed(s)), repr(s), s.copy() == s]
                raise ValueError(name)
            trace.append([_guard(run), tag(s)])
        out["trace"] = trace
    elif op == "omap":
        trace = []
        try:
            m = util.OrderedMap((_scalar(k), _scalar(v)) for k, v in req["init"])
        except Exception as e:
            return {"init": _exc(e)}
        for step in req["script"]:
            name = step[0]
            arg = _scalar(step[1]) if len(step) > 1 else None

            def run():
                if name == "insert":
                    return m._insert(arg, _scalar(step[2]))
                if name == "get":
                    return m[arg]
                if name == "getd":
                    return m.get(arg, "dflt")
                if name == "contains":
                    return arg in m
                if name == "del":
                    del m[arg]
                    return None
                if name == "popitem":
                    return m.popitem()
                if name == "eq":
                    pairs = [(_scalar(k), _scalar(v)) for k, v in step[1]]
                    return [m == util.OrderedMap(pairs), m == dict(pairs)]
                if name == "misc":
                    return [len(m), list(m.keys()), list(m.values()), repr(m), str(m)]
                raise ValueError(name)
            trace.append([_guard(run), tag(m)])
        out["trace"] = trace
    else:
        raise ValueError(op)
    return out


def _build_message(d):
    from cassandra import protocol as P
    from cassandra.query import _UNSET_VALUE  # noqa
    k = d["kind"]

    def params(ps):
        if ps is None:
            return None
        return [(_UNSET_VALUE if p == "unset" else None if p is None else bytes.fromhex(p)) for p in ps]

    cpo = None
    if d.get("cpo"):
        from cassandra.cluster import ContinuousPagingOptions
        c = d["cpo"]
        cpo = ContinuousPagingOptions(page_unit=c[0], max_pages=c[1], max_pages_per_second=c[2], max_queue_size=c[3])
    if k == "query":
        m = P.QueryMessage(d["query"], d["cl"], d.get("serial"), d.get("fetch"), _hexn(d.get("paging")), d.get("ts"),
                           cpo, d.get("ks"))
        m.query_params = params(d.get("params"))
    elif k == "execute":
        m = P.ExecuteMessage(bytes.fromhex(d["id"]), params(d.get("params")), d["cl"], d.get("serial"), d.get("fetch"),
                             _hexn(d.get("paging")), d.get("ts"), d.get("skip_meta", False), cpo, _hexn(d.get("rmid")))
    elif k == "batch":
        qs = [((q[0], bytes.fromhex(q[1])) if q[0] else (q[0], q[1]), params(q[2])) for q in d["queries"]]
        qs = [(a[0], a[1], b) for a, b in qs]
        from cassandra.query import BatchType
        m = P.BatchMessage(getattr(BatchType, d["btype"]), qs, d["cl"], d.get("serial"), d.get("ts"), d.get("ks"))
    elif k == "prepare":
        m = P.PrepareMessage(d["query"], d.get("ks"))
    elif k == "startup":
        m = P.StartupMessage(d["cqlversion"], dict(d["options"]))
    elif k == "register":
        m = P.RegisterMessage(d["events"])
    elif k == "options":
        m = P.OptionsMessage()
    elif k == "auth":
        m = P.AuthResponseMessage(_hexn(d["token"]))
    elif k == "credentials":
        m = P.CredentialsMessage(dict(d["creds"]))
    elif k == "revise":
        m = P.ReviseRequestMessage(d["optype"], d["opid"], d.get("next", 0))
    else:
        raise ValueError(k)
    m.tracing = bool(d.get("tracing"))
    if d.get("payload") is not None:
        m.custom_payload = dict((a, bytes.fromhex(b)) for a, b in d["payload"])
    return m


def _hexn(x):
    return None if x is None else bytes.fromhex(x)


def ev_encode(req):
    from cassandra import protocol as P

    def run():
        m = _build_message(req["msg"])
        return P._ProtocolHandler.encode_message(m, req["stream"], req["pv"], None, req.get("beta", False))
    return {"bytes": _guard(run)}


_EVAL = {"murmur3": ev_murmur3, "decode": ev_decode, "value": ev_value, "util": ev_util, "encode": ev_encode}


def evaluate(req):
    return _EVAL[req["op"]](req)


# =====================================================================================================
# worker process
# =====================================================================================================

def _quiet_logging():
    lg = logging.getLogger("cassandra")
    lg.addHandler(logging.NullHandler())
    lg.propagate = False


def _worker_main(mode, root):
    global _SIDE
    _SIDE = "compiled"
    out = os.fdopen(os.dup(1), "w")
    os.dup2(2, 1)                      # nothing but our JSON lines may reach the pipe
    sys.stdout = sys.stderr
    hello = {"hello": False}
    try:
        _quiet_logging()
        import cassandra
        from cassandra import cqltypes, cython_deps, metadata, protocol, util  # noqa
        import cassandra.cmurmur3  # noqa
        from cassandra import deserializers, obj_parser, row_parser  # noqa
        hello = {"hello": True, "file": os.path.realpath(cassandra.__file__), "have_cython": cython_deps.HAVE_CYTHON,
                 "so": dict((m.__name__.split(".")[-1], m.__file__.endswith(".so"))
                            for m in (cqltypes, metadata, protocol, util, deserializers, obj_parser, row_parser,
                                      cassandra.cmurmur3)),
                 "murmur3_fn": metadata.murmur3.__module__ if hasattr(metadata.murmur3, "__module__") else "?"}
    except BaseException:
        hello["error"] = traceback.format_exc()
    out.write(json.dumps(hello) + "\n")
    out.flush()
    if not hello["hello"]:
        return 3
    for line in sys.stdin:
        line = line.strip()
        if not line:
            continue
        try:
            res = {"ok": evaluate(json.loads(line))}
        except BaseException:
            res = {"error": traceback.format_exc()}
        out.write(json.dumps(res) + "\n")
        out.flush()
    return 0


# =====================================================================================================
# Hypothesis side
# =====================================================================================================

class WorkerDied(Exception):
    def __init__(self, rc):
        Exception.__init__(self, "worker exited rc=%r" % (rc,))
        self.rc = rc


class _Worker(object):
    def __init__(self, mode):
        from build import cybuild
        from vlib.harness import HarnessError
        self.mode = mode
        roots = cybuild.ensure(mode)
        self.root = roots[mode]
        env = dict(os.environ)
        deps = os.path.join(HOME, ".deps")
        env["PYTHONPATH"] = os.pathsep.join([self.root, HOME, os.path.join(HOME, "shims")] +
                                            ([deps] if os.path.isdir(deps) else []))
        env.update(PYTHONHASHSEED="0", TZ="UTC", PYTHONDONTWRITEBYTECODE="1")
        self.errpath = os.path.join(os.path.dirname(self.root), "worker-%s-%d.err" % (mode, os.getpid()))
        self.proc = subprocess.Popen([sys.executable, "-W", "ignore", "-m", "checks.c07", "--worker", mode, self.root],
                                     stdin=subprocess.PIPE, stdout=subprocess.PIPE, stderr=open(self.errpath, "w"),
                                     env=env, cwd=HOME, text=True, bufsize=1)
        line = self.proc.stdout.readline()
        try:
            hello = json.loads(line)
        except ValueError:
            hello = {"hello": False, "error": "no hello line (%r); stderr: %s" % (line[:200], self._err())}
        if not hello.get("hello"):
            raise HarnessError("compiled-tree worker failed to start (%s): %s" % (mode, hello.get("error")))
        want = os.path.realpath(os.path.join(self.root, "cassandra"))
        if os.path.dirname(hello["file"]) != want:
            raise HarnessError("worker imported cassandra from %s, expected %s" % (hello["file"], want))
        so = hello["so"]
        must = ["deserializers", "obj_parser", "row_parser", "cmurmur3"] + (
            ["cqltypes", "metadata", "protocol", "util"] if mode == "full" else [])
        mustnot = [] if mode == "full" else ["cqltypes", "metadata", "protocol", "util"]
        if not hello["have_cython"] or not all(so[m] for m in must) or any(so[m] for m in mustnot):
            raise HarnessError("worker tree %s is not the %s build: %r" % (self.root, mode, hello))
        self.hello = hello

    def _err(self):
        try:
            with open(self.errpath) as f:
                return f.read()[-1500:]
        except OSError:
            return ""

    def call(self, req):
        from vlib.harness import HarnessError
        try:
            self.proc.stdin.write(json.dumps(req) + "\n")
            self.proc.stdin.flush()
            line = self.proc.stdout.readline()
        except (BrokenPipeError, OSError):
            line = ""
        if not line:
            rc = self.proc.wait()
            raise WorkerDied(rc)
        res = json.loads(line)
        if "error" in res:
            raise HarnessError("worker-side harness error:\n%s" % res["error"])
        return res["ok"]

    def close(self):
        try:
            self.proc.stdin.close()
            self.proc.wait(timeout=5)
        except Exception:
            self.proc.kill()


_WORKERS = {}


def _worker(mode):
    key = (os.getpid(), mode)
    w = _WORKERS.get(key)
    if w is None or w.proc.poll() is not None:
        w = _WORKERS[key] = _Worker(mode)
    return w


def _is_tagged(x):
    return isinstance(x, list) and len(x) > 0 and isinstance(x[0], str)


def first_diff(a, b, path=(), na=None, nb=None):
    """-> None or (path, node_a, node_b): innermost tagged nodes around the first difference.
    Two ["exc", class, message] nodes agree; an exception against a value does not."""
    if _is_tagged(a) and _is_tagged(b):
        if a[0] != b[0]:
            return path, a, b
        if a[0] == "exc":
            # both builds refuse the input: neither "decodes to objects", the statement is silent on the
            # class of the refusal (the compiled parsers wrap theirs in DriverException)
            return None
        na, nb = a, b
    if type(a) is not type(b):
        return path, (na if na is not None else a), (nb if nb is not None else b)
    if isinstance(a, list):
        if len(a) != len(b):
            return path + ("len",), (na if na is not None else a), (nb if nb is not None else b)
        for i, (x, y) in enumerate(zip(a, b)):
            d = first_diff(x, y, path + (i,), na, nb)
            if d:
                return d
        return None
    if isinstance(a, dict):
        if sorted(a) != sorted(b):
            return path + ("keys",), (na if na is not None else a), (nb if nb is not None else b)
        for k in sorted(a):
            d = first_diff(a[k], b[k], path + (k,), na, nb)
            if d:
                return d
        return None
    return None if a == b else (path, (na if na is not None else a), (nb if nb is not None else b))


def _feature(na, nb):
    ta = na[0] if _is_tagged(na) else type(na).__name__
    tb = nb[0] if _is_tagged(nb) else type(nb).__name__
    if ta == "exc" or tb == "exc":
        e = na if ta == "exc" else nb
        other = tb if ta == "exc" else ta
        side = "pure-raises" if ta == "exc" else "compiled-raises"
        return [side, e[1], e[2]]
    if ta != tb:
        return ["shape", "%s/%s" % (ta, tb)]
    return ["value", ta]


def _show(x, n=300):
    s = json.dumps(x)
    return s if len(s) <= n else s[:n] + "..."


def differential(ctx, sub, mode, req, pairs, describe=None, group=None, group_name="cython"):
    """Evaluate req on both trees; `pairs` maps a compiled-side result name to the pure-side name it must equal.
    `describe(path, name)` may return extra key features (e.g. the column type).  Returns the pure result."""
    mine = evaluate(req)
    try:
        theirs = _worker(mode).call(req)
    except WorkerDied as e:
        ctx.fail([sub, "worker-died", "rc=%s" % e.rc],
                 "the compiled tree killed its process on this request (rc=%s)" % e.rc)
        return mine
    found = []
    for cname, pname in pairs:
        if cname not in theirs and pname not in mine:
            continue
        d = first_diff(mine.get(pname), theirs.get(cname))
        if d is None:
            continue
        path, na, nb = d
        extra = describe(path, cname) if describe else []
        found.append((cname, pname, list(extra) + _feature(na, nb), path, na, nb))
    # the two Cython row parsers share the deserializers: one root cause, one finding
    for cname, pname, feat, path, na, nb in found:
        names = [c for c, _p, f, _a, _b, _c in found if f == feat]
        if names[0] != cname:
            continue
        if len(pairs) == 1:
            subname = sub
        elif set(names) >= set(group or ()) and cname in (group or ()):
            subname = sub + "." + group_name
        else:
            subname = sub + "." + cname
        ctx.fail([subname] + feat, "pure[%s] != compiled[%s] at %s: pure %s, compiled %s" % (
            pname, "+".join(names), "/".join(map(str, path)), _show(na), _show(nb)))
    return mine


# ----------------------------------------------------------------------------------------------------
# part: murmur3
# ----------------------------------------------------------------------------------------------------

def s_murmur3():
    from hypothesis import strategies as st
    special = st.sampled_from([0x00, 0x01, 0x7f, 0x80, 0xff])
    byte = st.one_of(special, st.integers(0, 255), st.integers(128, 255))
    length = st.one_of(st.integers(0, 80), st.integers(0, 80), st.integers(0, 80), st.integers(81, 300),
                       st.sampled_from([127, 128, 129, 255, 256, 1023, 4095, 4096]))

    @st.composite
    def key(draw):
        n = draw(length)
        mode = draw(st.sampled_from(["fill", "random", "tail"]))
        if mode == "fill" or n > 200:
            b = bytes([draw(byte)]) * n
            if n and draw(st.booleans()):
                # distinct last block
                tail = bytes(draw(st.lists(byte, min_size=min(n, 16), max_size=min(n, 16))))
                b = b[:n - len(tail)] + tail
        elif mode == "tail":
            body = bytes([draw(byte)]) * (n - n % 16)
            b = body + bytes(draw(st.lists(st.integers(128, 255), min_size=n % 16, max_size=n % 16)))
        else:
            b = bytes(draw(st.lists(byte, min_size=n, max_size=n)))
        return b.hex()
    return st.fixed_dictionaries({"keys": st.lists(key(), min_size=1, max_size=8)})


def interpret_murmur3(case, ctx):
    req = {"op": "murmur3", "keys": case["keys"]}
    nt = False
    for hx in case["keys"]:
        k = bytes.fromhex(hx)
        r = len(k) % 16
        hi_tail = r and any(c >= 0x80 for c in k[len(k) - r:])
        ctx.label("m3:tail%d" % r if r else "m3:tail0")
        if hi_tail:
            ctx.label("m3:tail>=0x80")
        if len(k) >= 32:
            ctx.label("m3:len>=32")
        nt = nt or bool(hi_tail) or len(k) >= 32

    def describe(path, name):
        # path = (key index, 0 raw | 1 token, ...)
        k = bytes.fromhex(case["keys"][path[0]]) if path and isinstance(path[0], int) else b""
        r = len(k) % 16
        return ["raw" if len(path) > 1 and path[1] == 0 else "token", "tail=%d" % r,
                "tail>=0x80" if r and any(c >= 0x80 for c in k[len(k) - r:]) else "tail<0x80"]
    differential(ctx, "C07.murmur3", _mode(), req, [("hash", "hash")], describe)
    ctx.nontrivial(nt)


# ----------------------------------------------------------------------------------------------------
# part: rows
# ----------------------------------------------------------------------------------------------------

_INTERESTING_SCALARS = frozenset(["timestamp", "decimal", "varint", "date", "time", "duration", "inet", "uuid",
                                  "timeuuid", "float", "double"])
_PVS = [3, 4, 4, 5, 5, 6, 0x41, 0x42, 1, 2]


def wire_tree(tree):
    """spec.values type tree -> spec.proto type tree (what a server puts in RESULT metadata):
    frozen<> vanishes; vector / reversed travel as custom types named by their Cassandra class string"""
    from spec import values as V
    t = tree["t"]
    if t == "frozen":
        return wire_tree(tree["of"])
    if t in ("vector", "reversed"):
        return {"t": "custom", "cls": V.cass_name(tree)}
    if t in ("list", "set"):
        return {"t": t, "of": wire_tree(tree["of"])}
    if t == "map":
        return {"t": "map", "k": wire_tree(tree["k"]), "v": wire_tree(tree["v"])}
    if t == "tuple":
        return {"t": "tuple", "of": [wire_tree(x) for x in tree["of"]]}
    if t == "udt":
        return {"t": "udt", "ks": tree["ks"], "name": tree["name"],
                "fields": [[n, wire_tree(ft)] for n, ft in tree["fields"]]}
    return {"t": t}


def _udts(tree, acc):
    from spec import values as V
    if tree["t"] == "udt":
        acc.append([tree["ks"], tree["name"]])
    for c in V.children(tree):
        _udts(c, acc)
    return acc


def s_rows(max_depth=3):
    from hypothesis import strategies as st
    from spec import values as V
    trees = V.type_trees(max_depth=max_depth)
    names = st.sampled_from(["a", "b", "c", "col", "Col", "a b", "class", "été", "x" * 40, "k", "v"])

    @st.composite
    def build(draw):
        pv = draw(st.sampled_from(_PVS))
        ncols = draw(st.sampled_from([1, 1, 2, 2, 3, 5]))
        cols = []
        same_table = draw(st.booleans())
        for i in range(ncols):
            cols.append({"ks": "ks" if same_table else draw(st.sampled_from(["ks", "ks1", "system"])),
                         "table": "t" if same_table else draw(st.sampled_from(["t", "t2"])),
                         "name": draw(names) + (str(i) if draw(st.booleans()) else ""),
                         "tree": draw(trees)})
        nrows = draw(st.sampled_from([0, 1, 1, 2, 2, 3, 5, 5]))
        rows = []
        for _ in range(nrows):
            row = []
            for c in cols:
                kind = draw(st.sampled_from("vvvvvvvvvne"))
                if kind == "n":
                    row.append(None)
                elif kind == "e":
                    row.append(V.EMPTY)
                else:
                    row.append(draw(V.value_for(c["tree"], nulls=pv >= 3, short_udts=True)))
            rows.append(row)
        opts = {
            "global_spec": draw(st.sampled_from([None, None, False])),
            "paging_state": draw(st.sampled_from([None, None, "", "00ff10"])) if pv >= 2 else None,
            "no_metadata": draw(st.sampled_from([False, False, False, True])),
            "new_metadata_id": draw(st.sampled_from([None, None, "a1b2"])) if pv in (5, 6, 0x42) else None,
            "continuous_page": draw(st.sampled_from([None, None, 1, 7])) if pv in (0x41, 0x42) else None,
            "last_page": draw(st.booleans()),
            "trace": draw(st.sampled_from([False, False, True])),
            "warnings": draw(st.sampled_from([None, None, ["w1", "second warning"]])) if pv >= 4 else None,
            "payload": draw(st.sampled_from([None, None, [["k", "00"], ["k2", ""]]])) if pv >= 4 else None,
            "map_udts": draw(st.sampled_from([False, False, True])),
            "stream": draw(st.sampled_from([0, 1, 127, 128, 32767, -1])) if pv >= 3 else draw(st.sampled_from([0, 1, 127, -1])),
        }
        if opts["no_metadata"]:
            # (the driver stops reading the metadata block at the NO_METADATA flag, so these never co-occur usefully)
            opts["new_metadata_id"] = None
            opts["continuous_page"] = None
        return {"pv": pv, "cols": cols, "rows": rows, "opts": opts}
    return build()


def _rows_frames(case):
    """-> (flags, opcode, body bytes, meta_body bytes|None) written by the independent spec encoders"""
    import uuid as _uuid

    from spec import proto as SP
    from spec import values as V
    pv, o = case["pv"], case["opts"]
    columns = [(c["ks"], c["table"], c["name"], wire_tree(c["tree"])) for c in case["cols"]]
    cells = []
    for row in case["rows"]:
        out = []
        for c, v in zip(case["cols"], row):
            if v is None:
                out.append(None)
            elif v == V.EMPTY:
                out.append(b"")
            else:
                out.append(V.encode(c["tree"], v, pv))
        cells.append(out)
    md = {"global_spec": o["global_spec"]}
    if o.get("paging_state") is not None:
        md["paging_state"] = bytes.fromhex(o["paging_state"])
    if o.get("new_metadata_id") is not None:
        md["new_metadata_id"] = bytes.fromhex(o["new_metadata_id"])
    if o.get("continuous_page") is not None:
        md["continuous_page"] = o["continuous_page"]
        md["last_page"] = bool(o.get("last_page"))
    meta_body = None
    if o.get("no_metadata"):
        _, meta_body = SP.encode_response_body(SP.encode_rows_result(columns, [], pv, global_spec=o["global_spec"]), pv)
        md["no_metadata"] = True
        md["column_count"] = len(columns)
    desc = SP.encode_rows_result(columns, cells, pv, **md)
    frame = SP.encode_response(desc, pv, o["stream"],
                               trace_id=_uuid.UUID(int=0x1234567890abcdef1234567890abcdef) if o.get("trace") else None,
                               warnings=o.get("warnings"),
                               custom_payload=[(k, bytes.fromhex(v)) for k, v in o["payload"]] if o.get("payload") else None)
    hs = 8 if pv < 3 else 9
    return frame[1], frame[hs - 5], frame[hs:], meta_body


def _label_tree(tree, ctx, seen):
    from spec import values as V
    t = tree["t"]
    seen.add(t)
    for c in V.children(tree):
        _label_tree(c, ctx, seen)


def _has_inner_null(v):
    if isinstance(v, list):
        return any(x is None or _has_inner_null(x) for x in v)
    return False


def interpret_rows(case, ctx):
    from spec import values as V
    from vlib.harness import HarnessError
    pv = case["pv"]
    try:
        flags, opcode, body, meta_body = _rows_frames(case)
    except (V.SpecError, ValueError) as e:
        raise HarnessError("rows generator produced a case the spec encoder rejects: %r" % (e,))
    mapped = []
    if case["opts"].get("map_udts"):
        for c in case["cols"]:
            _udts(c["tree"], mapped)
    req = {"op": "decode", "pv": pv, "flags": flags, "opcode": opcode, "stream": case["opts"]["stream"],
           "body": body.hex(), "meta_body": meta_body.hex() if meta_body is not None else None, "mapped": mapped}

    seen = set()
    for c in case["cols"]:
        _label_tree(c["tree"], ctx, seen)
    for t in sorted(seen):
        ctx.label("rows:type:" + t)
    ctx.label("rows:v%d" % pv, "rows:n=%d" % min(len(case["rows"]), 3))
    nulls = any(v is None for r in case["rows"] for v in r)
    empties = any(v == V.EMPTY for r in case["rows"] for v in r)
    inner = any(_has_inner_null(v) for r in case["rows"] for v in r)
    if nulls:
        ctx.label("rows:null-cell")
    if empties:
        ctx.label("rows:empty-cell")
    if inner:
        ctx.label("rows:null-inside")
    if meta_body is not None:
        ctx.label("rows:no-metadata")
    if mapped:
        ctx.label("rows:mapped-udt")

    def describe(path, name):
        # path inside ["obj", "ResultMessage", {attrs}]: (2, "parsed_rows", 1, row, 1, col, ...)
        feats = []
        if len(path) >= 2 and path[0] == 2:
            feats.append(str(path[1]))
            if path[1] == "parsed_rows" and len(path) >= 6 and isinstance(path[5], int) and path[5] < len(case["cols"]):
                r = path[3]
                if isinstance(r, int) and r < len(case["rows"]):
                    v = case["rows"][r][path[5]]
                    if v == V.EMPTY:
                        feats.append("empty-cell")
                    elif _has_inner_null(v):
                        feats.append("null-inside")
        return feats

    mode = _mode()
    mine = differential(ctx, "C07.rows", mode, req, [("plain", "plain"), ("list", "plain"), ("lazy", "plain")], describe,
                        group=("list", "lazy"))
    if _is_tagged(mine.get("plain")) and mine["plain"][0] == "exc":
        ctx.label("rows:pure-raises:" + mine["plain"][1])
    composite = seen & {"list", "set", "map", "tuple", "udt", "vector"}
    ctx.nontrivial(bool(case["rows"]) and bool(composite or (seen & _INTERESTING_SCALARS) or nulls or empties))


# ----------------------------------------------------------------------------------------------------
# parts of the thorough tier (fully compiled tree)
# ----------------------------------------------------------------------------------------------------

def s_values():
    from hypothesis import strategies as st
    from spec import values as V
    return st.builds(lambda tv, pv, style, via: {"tree": tv[0], "value": tv[1], "pv": pv, "style": style, "via": via},
                     V.typed_values(max_depth=3, short_udts=True), st.sampled_from(_PVS),
                     st.sampled_from([0, 0, 1, 2]), st.sampled_from(["direct", "string"]))


def interpret_values(case, ctx):
    from spec import values as V
    tree, pv = case["tree"], case["pv"]
    value = case["value"]
    if pv < 3 and _has_inner_null([value]):
        # v1/v2 top-level collections cannot carry nulls; keep the case well-formed
        ctx.label("values:skipped-v2-null")
        return
    try:
        raw = V.encode(tree, value, pv)
    except V.SpecError:
        raw = None
    req = {"op": "value", "tree": tree, "pv": pv, "via": case["via"], "style": case["style"], "value": value,
           "bytes": raw.hex() if raw is not None else None}
    core = V.core(tree)

    def describe(path, name):
        f = [core["t"]]
        if _has_inner_null([value]):
            f.append("null-inside")
        return f
    differential(ctx, "C07.values", "full", req,
                 [("type", "type"), ("des", "des"), ("des_ser", "des_ser"), ("ser", "ser")],
                 lambda path, name: describe(path, name))
    ctx.label("values:" + core["t"], "values:style%d" % case["style"])
    ctx.nontrivial(V.depth(tree) >= 1 or core["t"] in _INTERESTING_SCALARS)


def s_util():
    from hypothesis import strategies as st
    big = st.one_of(st.integers(-2 ** 63, 2 ** 63 - 1), st.integers(-10 ** 12, 10 ** 12),
                    st.sampled_from([0, -1, 1, 2 ** 31, -2 ** 31, 2 ** 32, 253402300799, -62135596800, 253402300800]))
    ts = st.one_of(st.integers(-62135596800, 253402300799),
                   st.floats(-62135596800.0, 253402300799.0, allow_nan=False),
                   st.integers(-62135596800000, 253402300799999).map(lambda ms: ms / 1000.0), big,
                   st.floats(allow_nan=True, allow_infinity=True))
    dft = st.builds(lambda x: {"op2": "dft", "ts": x}, ts)
    ms = st.builds(lambda y, mo, d, h, mi, s, us: {"op2": "ms", "dt": [y, mo, d, h, mi, s, us]},
                   st.sampled_from([1, 2, 1600, 1969, 1970, 1971, 2024, 2262, 9999]) | st.integers(1, 9999),
                   st.integers(1, 12), st.integers(1, 28), st.integers(0, 23), st.integers(0, 59), st.integers(0, 59),
                   st.sampled_from([0, 1, 499, 500, 501, 999, 1000, 999499, 999500, 999999]) | st.integers(0, 999999))
    date = st.builds(lambda a: {"op2": "date", "arg": a},
                     st.one_of(st.integers(-2 ** 31, 2 ** 31 - 1), st.integers(-719162, 2932896),
                               st.sampled_from([-719163, -719162, 2932896, 2932897, 0, -1, 2 ** 31, -2 ** 31 - 1]),
                               st.sampled_from(["1970-01-01", "0001-01-01", "9999-12-31", "2024-02-29", "2023-02-29",
                                                "10000-01-01", "1-1-1", "", "abc"])))
    nanos = st.one_of(st.integers(0, 86399999999999), st.sampled_from([0, 1, 999, 1000, 86399999999999, 86400000000000, -1,
                                                                       3600 * 10 ** 9, 59999999999]),
                      st.integers(0, 86399999).map(lambda ms: ms * 1000000),
                      st.sampled_from(["00:00:00", "23:59:59.999999999", "12:34:56.789", "1:2:3", "24:00:00", "x",
                                       "12:00:00.0000000001"]))
    time = st.builds(lambda a: {"op2": "time", "arg": a}, nanos)
    uu = st.builds(lambda t, n, c: {"op2": "uuid", "t": t, "node": n, "clock": c},
                   st.one_of(st.integers(0, 2 ** 33), st.floats(0, 1e10, allow_nan=False),
                             st.sampled_from([0, 1, 0.001, 1e-7, 12219292800, -12219292800, -1])),
                   # (node / clock_seq None would make the driver draw random ones: not a function of the case)
                   st.sampled_from([0, 1, 0x0123456789ab, 2 ** 48 - 1, 2 ** 48]), st.sampled_from([0, 1, 0x3fff, 0x4000]))
    dur = st.builds(lambda m, d, n: {"op2": "duration", "arg": [m, d, n]},
                    st.integers(-2 ** 31, 2 ** 31 - 1) | st.sampled_from([0, 1, -1, 12, 13]),
                    st.integers(-2 ** 31, 2 ** 31 - 1) | st.sampled_from([0, 1, -1]),
                    st.integers(-2 ** 63, 2 ** 63 - 1) | st.sampled_from([0, 1, -1, 10 ** 9, 3600 * 10 ** 9, 999, 1000]))
    vers = st.sampled_from(["1", "1.2", "1.2.3", "1.2.3.4", "3.11.4", "4.0.0-SNAPSHOT", "4.0-beta1", "4.0.0-rc1",
                            "4.0.0.1-SNAPSHOT", "6.8.0", "6.8.0.1", "10.0.0", "4.0.0-alpha1", "2.1", "a.b", "", "1..2",
                            "4.0.0-beta2", "5.0-rc1-SNAPSHOT", "3.0.0.1035"])
    version = st.builds(lambda a, b: {"op2": "version", "a": a, "b": b}, vers, vers)

    el_int = st.integers(-3, 6)
    el_str = st.sampled_from(["", "a", "b", "ab", "B", "é", "z"])
    el_tup = st.tuples(st.integers(0, 2), st.sampled_from(["a", "b"])).map(list)
    el_b = st.sampled_from(["", "00", "ff", "7f80"]).map(lambda h: {"hex": h})

    def sset_for(el):
        coll = st.lists(el, max_size=5)
        flag = st.booleans()
        step = st.one_of(
            st.tuples(st.sampled_from(["add", "remove", "contains"]), el).map(list),
            st.tuples(st.just("pop")).map(list), st.tuples(st.just("misc")).map(list),
            st.tuples(st.sampled_from(["index", "del"]), st.integers(-3, 5)).map(list),
            st.tuples(st.just("update"), coll).map(list),
            st.tuples(st.sampled_from(["union", "intersection", "difference", "symmetric_difference", "issubset",
                                       "issuperset", "isdisjoint", "or", "and", "sub", "xor", "eq"]), coll, flag).map(list))
        return st.builds(lambda init, script: {"op2": "sset", "init": init, "script": script},
                         coll, st.lists(step, min_size=1, max_size=8))
    sset = st.one_of(sset_for(el_int), sset_for(el_str), sset_for(el_tup), sset_for(el_b),
                     sset_for(st.one_of(el_int, el_str)))      # mixed, unorderable operands -> the non-sortable fallback

    def omap_for(k, v):
        pairs = st.lists(st.tuples(k, v).map(list), max_size=4)
        step = st.one_of(
            st.tuples(st.just("insert"), k, v).map(list),
            st.tuples(st.sampled_from(["get", "getd", "contains", "del"]), k).map(list),
            st.tuples(st.sampled_from(["popitem", "misc"])).map(list),
            st.tuples(st.just("eq"), pairs).map(list))
        return st.builds(lambda init, script: {"op2": "omap", "init": init, "script": script},
                         pairs, st.lists(step, min_size=1, max_size=8))
    omap = st.one_of(omap_for(el_int, el_str), omap_for(el_tup, el_int), omap_for(el_b, el_int),
                     omap_for(st.lists(el_int, max_size=2).map(lambda x: x), el_str))
    kinds = {"dft": dft, "ms": ms, "date": date, "time": time, "uuid": uu, "duration": dur, "version": version,
             "sset": sset, "omap": omap}
    return st.sampled_from(["dft", "dft", "dft", "ms", "date", "date", "time", "time", "uuid", "duration", "version",
                            "sset", "sset", "sset", "omap", "omap"]).flatmap(lambda k: kinds[k])


def interpret_util(case, ctx):
    req = dict(case, op="util")
    differential(ctx, "C07.util", "full", req,
                 [(k, k) for k in ("dt", "utc", "ms", "date", "time", "uuid", "dur", "version", "version_hash", "init", "trace",
                                  "glue")],
                 lambda path, name: [case["op2"]])
    ctx.label("util:" + case["op2"])
    ctx.nontrivial(True)


def s_encode():
    from hypothesis import strategies as st
    cl = st.sampled_from([0, 1, 2, 4, 6, 8, 9, 10])
    serial = st.sampled_from([None, None, 8, 9])
    hexs = st.sampled_from(["", "00", "ff00", "0102030405060708", "80" * 70])
    param = st.one_of(st.none(), hexs, hexs, st.just("unset"))
    params = st.one_of(st.none(), st.lists(param, max_size=4))
    ts = st.sampled_from([None, None, 0, 1, -1, 2 ** 63 - 1, -2 ** 63, 1700000000000000])
    fetch = st.sampled_from([None, None, 1, 5000, 2 ** 31 - 1])
    paging = st.sampled_from([None, None, "", "00ff"])
    ks = st.sampled_from([None, None, "ks", "", "K s"])
    text = st.sampled_from(["SELECT * FROM t", "", "é\U0001F600", "x" * 300])
    cpo = st.sampled_from([None, None, None, [1, 0, 0, 4], [0, 3, 10, 8]])
    payload = st.sampled_from([None, None, [["a", "00"]], [["k", ""], ["é", "ff"]]])
    common = {"tracing": st.booleans(), "payload": payload}
    q = st.fixed_dictionaries(dict(common, kind=st.just("query"), query=text, cl=cl, serial=serial, fetch=fetch, paging=paging,
                                   ts=ts, ks=ks, params=params, cpo=cpo))
    e = st.fixed_dictionaries(dict(common, kind=st.just("execute"), id=hexs, cl=cl, serial=serial, fetch=fetch, paging=paging,
                                   ts=ts, params=st.lists(param, max_size=4), cpo=cpo, skip_meta=st.booleans(),
                                   rmid=st.sampled_from(["", "abcd"])))
    bq = st.one_of(st.tuples(st.just(True), hexs, st.lists(param, max_size=3)).map(list),
                   st.tuples(st.just(False), text, st.lists(param, max_size=3)).map(list))
    b = st.fixed_dictionaries(dict(common, kind=st.just("batch"), btype=st.sampled_from(["LOGGED", "UNLOGGED", "COUNTER"]),
                                   queries=st.lists(bq, max_size=3), cl=cl, serial=serial, ts=ts, ks=ks))
    p = st.fixed_dictionaries(dict(common, kind=st.just("prepare"), query=text, ks=ks))
    s = st.fixed_dictionaries(dict(common, kind=st.just("startup"), cqlversion=st.sampled_from(["3.0.0", "3.4.5"]),
                                   options=st.sampled_from([[], [["COMPRESSION", "lz4"]],
                                                            [["DRIVER_NAME", "x"], ["NO_COMPACT", "true"]]])))
    r = st.fixed_dictionaries(dict(common, kind=st.just("register"),
                                   events=st.lists(st.sampled_from(["TOPOLOGY_CHANGE", "STATUS_CHANGE", "SCHEMA_CHANGE"]), max_size=3)))
    o = st.fixed_dictionaries(dict(common, kind=st.just("options")))
    a = st.fixed_dictionaries(dict(common, kind=st.just("auth"), token=st.sampled_from(["", "00706173"])))
    c = st.fixed_dictionaries(dict(common, kind=st.just("credentials"),
                                   creds=st.sampled_from([[], [["username", "u"], ["password", "p"]]])))
    rv = st.fixed_dictionaries(dict(common, kind=st.just("revise"), optype=st.sampled_from([1, 2, 3]),
                                    opid=st.sampled_from([0, 1, 32767]), next=st.sampled_from([0, 1, 10])))
    msg = st.one_of(q, q, e, e, b, b, p, s, r, o, a, c, rv)
    return st.fixed_dictionaries({"msg": msg, "pv": st.sampled_from([1, 2, 3, 4, 5, 6, 0x41, 0x42]),
                                  "stream": st.sampled_from([0, 1, 127, 128, 32767, -1]), "beta": st.booleans()})


def interpret_encode(case, ctx):
    req = dict(case, op="encode")
    differential(ctx, "C07.encode", "full", req, [("bytes", "bytes")], lambda path, name: [case["msg"]["kind"]])
    ctx.label("encode:" + case["msg"]["kind"], "encode:v%d" % case["pv"])
    m = case["msg"]
    ctx.nontrivial(bool(m.get("params") or m.get("queries") or m.get("payload") or m.get("options")
                        or m.get("events") or m.get("creds") or m.get("ks") or m.get("token")))


# ----------------------------------------------------------------------------------------------------

def _mode():
    """which compiled tree the murmur3/rows parts talk to: the pyx-only build, as specified for the quick tier;
    in a thorough run both parts exist twice (pyx-only tree and fully compiled tree)"""
    return _MODE[0]


_MODE = ["pyx"]


def _with_mode(mode, fn):
    def interpret(case, ctx):
        saved = _MODE[0]
        _MODE[0] = mode
        try:
            if "cybuild" not in ctx.stats.extra:
                from build import cybuild
                t = cybuild.build_times()
                ctx.stats.extra["cybuild"] = ", ".join(
                    "%s: %s" % (m, "products restored from the content-addressed cache" if v == 0.0 else "built in %.0f s" % v)
                    for m, v in sorted(t.items())) or "built by another process of this run"
            return fn(case, ctx)
        finally:
            _MODE[0] = saved
    return interpret


def parts(tier):
    from vlib.harness import hyp_part
    _quiet_logging()
    if os.environ.get("VERIF_TIER") == tier:
        # build once, in the ./run parent, before the shard workers are forked
        from build import cybuild
        cybuild.ensure("pyx" if tier == "quick" else "full")
    ps = [
        hyp_part("murmur3", s_murmur3, _with_mode("pyx", interpret_murmur3), tier, quick=350, thorough=4000,
                 quick_shards=3, thorough_shards=4),
        hyp_part("rows", s_rows, _with_mode("pyx", interpret_rows), tier, quick=600, thorough=4000,
                 quick_shards=5, thorough_shards=8),
    ]
    if tier == "thorough":
        ps += [
            hyp_part("rows-full", s_rows, _with_mode("full", interpret_rows), tier, quick=0, thorough=4000, thorough_shards=8),
            hyp_part("murmur3-full", s_murmur3, _with_mode("full", interpret_murmur3), tier, quick=0, thorough=2000,
                     thorough_shards=2),
            hyp_part("values", s_values, interpret_values, tier, quick=0, thorough=3000, thorough_shards=12),
            hyp_part("util", s_util, interpret_util, tier, quick=0, thorough=3000, thorough_shards=6),
            hyp_part("encode", s_encode, interpret_encode, tier, quick=0, thorough=3000, thorough_shards=4),
        ]
    return ps


if __name__ == "__main__":
    if len(sys.argv) >= 4 and sys.argv[1] == "--worker":
        sys.exit(_worker_main(sys.argv[2], sys.argv[3]))
    sys.stderr.write("usage: python -m checks.c07 --worker <pyx|full> <root>\n")
    sys.exit(2)
