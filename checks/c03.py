"""C03 -- request frames conform to the native protocol specification."""
import os

from hypothesis import strategies as st

# imported once in the parent process (workers are forked): cassandra.cluster alone costs ~3 s
import cassandra.cluster  # noqa: F401
import cassandra.protocol  # noqa: F401
import cassandra.query  # noqa: F401

from spec import proto
from vlib.harness import hyp_part

THOROUGH_SCALE = 2.0
PID = "C03"
TITLE = "Request frames conform to the native protocol specification"
LEVEL = "exploration"
# the quick tier is ~25 s of single-core work; forking a pool costs more (copy-on-write of the imported driver) than it saves
SERIAL = os.environ.get("VERIF_TIER") == "quick"
ENGINE = "proto"
TECHNIQUE = ("property-based testing (Hypothesis): driver encoder against an independent strict specification "
             "parser (spec/proto.py), field-by-field comparison, plus must-reject probes")
RULE = ("A case is (message kind, protocol version in {1,2,3,4,5,6,0x41,0x42}, stream id, tracing, custom payload, "
        "compressor on/off, allow_beta, option record).  The option record is drawn by construction from what "
        "Session._create_response_future / Session.prepare / Connection can put into the message at that version "
        "(no fetch size / serial CL / paging state on v1, timestamp only on v3+, keyspace only where the keyspace flag "
        "exists, UNSET values only on v4+, continuous paging only on DSE, CREDENTIALS only on v1, AUTH_RESPONSE/BATCH "
        "on v2+, REVISE_REQUEST on DSE) with boundary-weighted integers/strings/bytes; the 'reject' part adds exactly "
        "one feature the version cannot carry (keyspace, custom payload, continuous paging, v1 serial CL / page size / "
        "paging state, serial CL on a v2 BATCH).  The bytes of encode_message are parsed by spec.proto.decode_request and every requested field "
        "is compared.  Non-trivial: at least two optional fields present, or a must-reject case, or a "
        "version-dependent layout (4-byte flags on v5/v6/DSE, v1 QUERY/EXECUTE layout, v2 BATCH without flags).")
ASSUMPTIONS = [
    "spec/proto.py is the oracle: written from native_protocol_v1..v5.spec and the DSE_V1/DSE_V2 additions, shares no code with cassandra.protocol",
    "the compressor is a fake (prefix + body); the real lz4/snappy codecs are not installed and are not the subject of this property",
    "client timestamps are drawn from [0, 2^63) (the spec forbids negative ones from v4 on; the session only sends them on v3+)",
    "header flag 0x10 (USE_BETA) is accepted on every version (v3/v4 specs: unused flags are ignored) and compared with allow_beta",
    "skip-metadata (flag 0x02) is not an option of the statement: the parser accepts it, the check does not compare it",
]
LEVEL_TEXT = ("Generated-input search against an independent strict parser; a green run means every generated frame "
              "decoded to exactly the requested fields and every must-reject probe raised, not a proof for all inputs.")

VERSIONS = [1, 2, 3, 4, 5, 6, 0x41, 0x42]
_PREFIX = b"\xc0MP!"
_KNOWN_DEVIATIONS = ("v1-query-flags-byte",)


def _compress(b):
    return _PREFIX + b


def _decompress(b):
    if not b.startswith(_PREFIX):
        raise proto.SpecError("bad-compressed-body", "body", "compression flag set but the body was not produced by the compressor")
    return b[len(_PREFIX):]


def _vclass(v):
    return {1: "v1", 2: "v2", 3: "v3", 4: "v4", 5: "v5", 6: "v6", 0x41: "dse1", 0x42: "dse2"}[v]


# ---------------------------------------------------------------------------------------------
# strategies (case descriptions only)
# ---------------------------------------------------------------------------------------------

_text = st.one_of(st.sampled_from(["", "ks", "SELECT * FROM t WHERE k = ?", "é中", "\U0001f600q", "a" * 300]),
                  st.text(max_size=24))
_name = st.one_of(st.sampled_from(["ks", "Ks1", "é中x", "k" * 48]), st.text(min_size=1, max_size=12))
_hex = st.binary(max_size=20).map(bytes.hex)
_hex1 = st.binary(min_size=1, max_size=24).map(bytes.hex)
_cl = st.integers(0, 10)
_serial = st.sampled_from([None, None, 8, 9])
_i32pos = st.one_of(st.sampled_from([1, 2, 100, 5000, 65535, 65536, 2 ** 31 - 1]), st.integers(1, 2 ** 31 - 1))
_i32nn = st.one_of(st.sampled_from([0, 1, 7, 255, 256, 2 ** 31 - 1]), st.integers(0, 2 ** 31 - 1))
_ts = st.one_of(st.sampled_from([0, 1, 255, 2 ** 31, 2 ** 32, 1695300000000000, 2 ** 63 - 1]), st.integers(0, 2 ** 63 - 1))


def _stream(v):
    if v <= 2:
        return st.one_of(st.sampled_from([0, 1, 127]), st.integers(0, 127))
    return st.one_of(st.sampled_from([0, 1, 127, 128, 255, 256, 32767]), st.integers(0, 32767))


def _values(v):
    elem = [st.none(), _hex, st.just(""), st.binary(min_size=200, max_size=300).map(bytes.hex)]
    if v >= 4:
        elem.append(st.just("U"))
    return st.lists(st.one_of(*elem), max_size=6)


def _payload():
    return st.lists(st.tuples(st.text(max_size=8), _hex), min_size=1, max_size=3, unique_by=lambda p: p[0]).map(
        lambda ps: [list(p) for p in ps])


def _continuous():
    return st.fixed_dictionaries({
        "unit": st.sampled_from(["ROWS", "ROWS", "BYTES"]), "max_pages": _i32nn, "per_second": _i32nn,
        "queue": st.one_of(st.sampled_from([2, 4, 2 ** 31 - 1]), st.integers(2, 2 ** 31 - 1))})


def _opt(s):
    return st.one_of(st.none(), s)


def _keyspace():
    return st.one_of(st.none(), st.none(), _name, st.just(""))


@st.composite
def _query_opts(draw, v, kind):
    """options _create_response_future can set on a QueryMessage / ExecuteMessage at version v"""
    o = {"cl": draw(_cl), "serial": None, "fetch": None, "paging_state": None, "timestamp": None,
         "keyspace": None, "continuous": None}
    if v >= 2:
        o["serial"] = draw(_serial)
        o["fetch"] = draw(_opt(_i32pos))
        o["paging_state"] = draw(_opt(_hex1))
    if v >= 3:
        o["timestamp"] = draw(_opt(_ts))
    if kind == "QUERY":
        o["query"] = draw(_text)
        if proto.has_keyspace_flag(v):
            o["keyspace"] = draw(_keyspace())
    else:
        o["query_id"] = draw(st.one_of(st.binary(min_size=16, max_size=16), st.binary(min_size=1, max_size=40)).map(bytes.hex))
        o["values"] = draw(_values(v))
        o["skip_meta"] = draw(st.booleans())
        o["result_metadata_id"] = draw(_hex1) if proto.has_result_metadata_id(v) else None
    if proto.has_continuous_paging(v):
        o["continuous"] = draw(_opt(_continuous()))
    return o


@st.composite
def _batch_opts(draw, v):
    qs = []
    for _ in range(draw(st.integers(0, 4))):
        if draw(st.booleans()):
            qs.append({"prepared": True, "id": draw(_hex1), "values": draw(_values(v))})
        else:
            qs.append({"prepared": False, "query": draw(_text), "values": []})
    o = {"type": draw(st.sampled_from([0, 1, 2])), "queries": qs, "cl": draw(_cl), "serial": None,
         "timestamp": None, "keyspace": None}
    if v >= 3:
        # v2 BATCH ends after <consistency>: no flags, so neither serial CL nor timestamp can be carried
        o["serial"] = draw(_serial)
        o["timestamp"] = draw(_opt(_ts))
    if proto.has_keyspace_flag(v):
        o["keyspace"] = draw(_keyspace())
    return o


def _kinds(v):
    ks = ["QUERY", "QUERY", "EXECUTE", "EXECUTE", "PREPARE", "STARTUP", "OPTIONS", "REGISTER"]
    if v == 1:
        ks.append("CREDENTIALS")
    else:
        ks += ["BATCH", "BATCH", "AUTH_RESPONSE"]
    if proto.is_dse(v):
        ks.append("REVISE")
    return ks


_smap = st.dictionaries(st.text(max_size=10), st.text(max_size=10), max_size=3).map(lambda d: [[k, x] for k, x in d.items()])


@st.composite
def s_accept(draw):
    v = draw(st.sampled_from(VERSIONS))
    kind = draw(st.sampled_from(_kinds(v)))
    case = {"kind": kind, "version": v, "stream": draw(_stream(v)), "tracing": draw(st.booleans()),
            "payload": None, "compress": False, "allow_beta": draw(st.booleans()) if v != 6 else draw(st.sampled_from([True, True, False])),
            "reject": None}
    if kind in ("QUERY", "EXECUTE", "BATCH", "PREPARE") and v >= 4:
        case["payload"] = draw(_opt(_payload()))
    if kind != "STARTUP":
        case["compress"] = draw(st.booleans())
    if kind in ("QUERY", "EXECUTE"):
        case["opts"] = draw(_query_opts(v, kind))
    elif kind == "BATCH":
        case["opts"] = draw(_batch_opts(v))
    elif kind == "PREPARE":
        case["opts"] = {"query": draw(_text), "keyspace": draw(_keyspace()) if proto.has_keyspace_flag(v) else None}
    elif kind == "STARTUP":
        opts = []
        if draw(st.booleans()):
            opts += [["DRIVER_NAME", "DataStax Python Driver"], ["DRIVER_VERSION", draw(st.sampled_from(["3.29.2", "1.0"]))]]
        if draw(st.booleans()):
            opts.append(["COMPRESSION", draw(st.sampled_from(["lz4", "snappy"]))])
        if draw(st.booleans()):
            opts.append(["NO_COMPACT", "true"])
        for k, x in draw(_smap):
            if k not in ("CQL_VERSION", "DRIVER_NAME", "DRIVER_VERSION", "COMPRESSION", "NO_COMPACT"):
                opts.append([k, x])
        case["opts"] = {"cql_version": draw(st.sampled_from(["3.0.0", "3.4.5", "3.4.7"])), "options": opts}
    elif kind == "CREDENTIALS":
        case["opts"] = {"creds": draw(st.one_of(st.just([["username", "cassandra"], ["password", "päss"]]), _smap))}
    elif kind == "AUTH_RESPONSE":
        case["opts"] = {"as_text": draw(st.booleans()), "token": draw(st.one_of(
            st.just(""), st.text(max_size=12).map(lambda s: s.encode("utf-8").hex())))}
        if not case["opts"]["as_text"]:
            case["opts"]["token"] = draw(_hex)
    elif kind == "REGISTER":
        ev = draw(st.permutations(["TOPOLOGY_CHANGE", "STATUS_CHANGE", "SCHEMA_CHANGE"]))
        case["opts"] = {"events": list(ev)[:draw(st.integers(1, 3))], "as_keys": draw(st.booleans())}
    elif kind == "REVISE":
        if v == 0x42 and draw(st.booleans()):
            case["opts"] = {"type": 2, "id": draw(st.integers(0, 32767)), "next_pages": draw(_i32pos)}
        else:
            case["opts"] = {"type": 1, "id": draw(st.integers(0, 32767)), "next_pages": 0}
    else:
        case["opts"] = {}
    return case


_REJECTS = {
    # what -> (kinds, version predicate)
    "keyspace": (("QUERY", "PREPARE", "BATCH"), lambda v: not proto.has_keyspace_flag(v)),
    "custom_payload": (("QUERY", "EXECUTE", "BATCH", "PREPARE", "REGISTER", "OPTIONS"), lambda v: v < 4),
    "continuous": (("QUERY", "EXECUTE"), lambda v: not proto.has_continuous_paging(v)),
    "serial_v1": (("QUERY", "EXECUTE"), lambda v: v == 1),
    "serial_v2_batch": (("BATCH",), lambda v: v == 2),
    "page_size_v1": (("QUERY", "EXECUTE"), lambda v: v == 1),
    "paging_state_v1": (("QUERY", "EXECUTE"), lambda v: v == 1),
}


@st.composite
def s_reject(draw):
    what = draw(st.sampled_from(sorted(_REJECTS)))
    kinds, pred = _REJECTS[what]
    kind = draw(st.sampled_from(kinds))
    vs = [v for v in VERSIONS if pred(v) and not (kind == "BATCH" and v == 1)]
    v = draw(st.sampled_from(vs))
    case = {"kind": kind, "version": v, "stream": draw(_stream(v)), "tracing": draw(st.booleans()), "payload": None,
            "compress": draw(st.booleans()), "allow_beta": v == 6, "reject": what}
    if kind in ("QUERY", "EXECUTE"):
        o = draw(_query_opts(v, kind))
    elif kind == "BATCH":
        o = draw(_batch_opts(v))
    elif kind == "PREPARE":
        o = {"query": draw(_text), "keyspace": None}
    elif kind == "REGISTER":
        o = {"events": ["STATUS_CHANGE"], "as_keys": False}
    else:
        o = {}
    if kind in ("QUERY", "EXECUTE", "BATCH", "PREPARE") and v >= 4 and what != "custom_payload":
        case["payload"] = draw(_opt(_payload()))
    if what == "keyspace":
        o["keyspace"] = draw(_name)
    elif what == "custom_payload":
        case["payload"] = draw(_payload())
    elif what == "continuous":
        o["continuous"] = draw(_continuous())
    elif what in ("serial_v1", "serial_v2_batch"):
        o["serial"] = draw(st.sampled_from([8, 9]))
    elif what == "page_size_v1":
        o["fetch"] = draw(_i32pos)
    elif what == "paging_state_v1":
        o["paging_state"] = draw(_hex1)
    case["opts"] = o
    return case


# ---------------------------------------------------------------------------------------------
# building driver messages from a case
# ---------------------------------------------------------------------------------------------

def _val(x, unset):
    if x is None:
        return None
    if x == "U":
        return unset
    return bytes.fromhex(x)


def _spec_val(x):
    if x is None:
        return None
    if x == "U":
        return proto.UNSET
    return bytes.fromhex(x)


def _hexb(x):
    return None if x is None else bytes.fromhex(x)


def _build(case):
    import cassandra.protocol as P
    from cassandra.cluster import ContinuousPagingOptions
    from cassandra.query import BatchType
    kind, o = case["kind"], case["opts"]
    cp = None
    if o.get("continuous"):
        c = o["continuous"]
        unit = ContinuousPagingOptions.PagingUnit.BYTES if c["unit"] == "BYTES" else ContinuousPagingOptions.PagingUnit.ROWS
        cp = ContinuousPagingOptions(page_unit=unit, max_pages=c["max_pages"], max_pages_per_second=c["per_second"],
                                     max_queue_size=c["queue"])
    if kind == "QUERY":
        # positional, as Session._create_response_future calls it
        msg = P.QueryMessage(o["query"], o["cl"], o["serial"], o["fetch"], _hexb(o["paging_state"]), o["timestamp"],
                             cp, o["keyspace"])
    elif kind == "EXECUTE":
        msg = P.ExecuteMessage(_hexb(o["query_id"]), [_val(x, P._UNSET_VALUE) for x in o["values"]], o["cl"],
                               o["serial"], o["fetch"], _hexb(o["paging_state"]), o["timestamp"],
                               skip_meta=o["skip_meta"], continuous_paging_options=cp,
                               result_metadata_id=_hexb(o["result_metadata_id"]))
    elif kind == "BATCH":
        bt = [BatchType.LOGGED, BatchType.UNLOGGED, BatchType.COUNTER][o["type"]]
        qs = []
        for q in o["queries"]:
            if q["prepared"]:
                qs.append((True, bytes.fromhex(q["id"]), [_val(x, P._UNSET_VALUE) for x in q["values"]]))
            else:
                qs.append((False, q["query"], ()))
        msg = P.BatchMessage(bt, qs, o["cl"], o["serial"], o["timestamp"], o["keyspace"])
    elif kind == "PREPARE":
        msg = P.PrepareMessage(query=o["query"], keyspace=o["keyspace"])
    elif kind == "STARTUP":
        msg = P.StartupMessage(cqlversion=o["cql_version"], options=dict((k, x) for k, x in o["options"]))
    elif kind == "OPTIONS":
        msg = P.OptionsMessage()
    elif kind == "CREDENTIALS":
        msg = P.CredentialsMessage(creds=dict((k, x) for k, x in o["creds"]))
    elif kind == "AUTH_RESPONSE":
        tok = bytes.fromhex(o["token"])
        msg = P.AuthResponseMessage(tok.decode("utf-8") if o["as_text"] else tok)
    elif kind == "REGISTER":
        msg = P.RegisterMessage(event_list=dict.fromkeys(o["events"]).keys() if o["as_keys"] else list(o["events"]))
    elif kind == "REVISE":
        if o["type"] == 2:
            msg = P.ReviseRequestMessage(P.ReviseRequestMessage.RevisionType.PAGING_BACKPRESSURE, o["id"],
                                         next_pages=o["next_pages"])
        else:
            msg = P.ReviseRequestMessage(P.ReviseRequestMessage.RevisionType.PAGING_CANCEL, o["id"])
    else:
        raise ValueError(kind)
    msg.tracing = case["tracing"]
    if case["payload"]:
        msg.update_custom_payload(dict((k, bytes.fromhex(x)) for k, x in case["payload"]))
    return msg


def _suspects(case):
    """deterministic structural features that are part of a finding key"""
    s = []
    o = case["opts"]
    if o.get("keyspace") == "":
        s.append("keyspace=empty")
    if case["version"] == 1 and case["kind"] in ("QUERY", "EXECUTE"):
        s.append("v1")
    if case["version"] == 2 and case["kind"] == "BATCH":
        s.append("v2")
    return s


def _encode(case, msg):
    from cassandra.protocol import _ProtocolHandler
    return _ProtocolHandler.encode_message(msg, case["stream"], case["version"],
                                           _compress if case["compress"] else None, case["allow_beta"])


def _decode(frame, ctx, key_prefix, suspects):
    """strict parse; returns dict or None (after recording the failure)"""
    try:
        frames = proto.split_frames(frame)
        if len(frames) != 1:
            raise proto.SpecError("frame-count", "stream", "%d frames" % len(frames))
        d = proto.decode_request(frame, decompress=_decompress, tolerate=_KNOWN_DEVIATIONS)
    except proto.SpecError as e:
        ctx.fail([key_prefix + ".malformed", e.kind] + suspects, "frame is not well-formed: %s (frame %s)" % (e, frame[:120].hex()))
        return None
    for dev in d["deviations"]:
        ctx.fail([key_prefix + ".malformed", dev], "frame deviates from the specification: %s (frame %s)" % (dev, frame[:120].hex()))
    return d


# ---------------------------------------------------------------------------------------------
# accept half
# ---------------------------------------------------------------------------------------------

def interpret_accept(case, ctx):
    from cassandra import UnsupportedOperation  # noqa: F401  (import check of the tree)
    kind, v, o = case["kind"], case["version"], case["opts"]
    K = "C03." + kind
    sus = _suspects(case)
    frame = None
    with ctx.driver([K + ".encode"] + sus):
        msg = _build(case)
        frame = _encode(case, msg)
    ctx.label(kind, _vclass(v), "%s/%s" % (kind, _vclass(v)))
    if frame is None:
        return
    if not isinstance(frame, (bytes, bytearray)):
        ctx.fail([K + ".type"], "encode_message returned %r" % type(frame))
        return
    d = _decode(bytes(frame), ctx, K, sus)
    if d is None:
        return

    def eq(field, got, want, extra=()):
        ctx.check(got == want, [K + "." + field] + list(extra), "%s: frame carries %r, requested %r (v=0x%02x)" % (field, got, want, v))

    # ---- header
    eq("header.version", d["version"], v)
    eq("header.stream", d["stream"], case["stream"])
    eq("header.opcode", d["opcode"], "REVISE_REQUEST" if kind == "REVISE" else kind)
    eq("header.tracing", d["tracing"], case["tracing"])
    eq("header.use_beta", d["use_beta"], case["allow_beta"])
    want_payload = dict((k, bytes.fromhex(x)) for k, x in case["payload"]) if case["payload"] else None
    eq("custom_payload", d["custom_payload"], want_payload)
    raw_empty = kind == "OPTIONS" and not case["payload"]
    if not raw_empty:
        eq("header.compressed", d["compressed"], bool(case["compress"] and proto.has_frame_compression(v)))
    optional = 0
    optional += bool(case["tracing"]) + bool(case["payload"]) + bool(d["compressed"])

    # ---- body
    if kind in ("QUERY", "EXECUTE"):
        eq("consistency", d["consistency"], o["cl"])
        eq("serial_consistency", d["serial_consistency"], o["serial"])
        eq("page_size", d["page_size"], o["fetch"])
        eq("paging_state", d["paging_state"], _hexb(o["paging_state"]))
        eq("timestamp", d["timestamp"], o["timestamp"])
        eq("now_in_seconds", d["now_in_seconds"], None)
        eq("value_names", d["value_names"], None)
        c = o["continuous"]
        if c is None:
            eq("continuous_paging", d["continuous_paging"], None)
            eq("page_size_in_bytes", d["page_size_in_bytes"], False)
        else:
            want = {"max_pages": c["max_pages"], "pages_per_second": c["per_second"],
                    "next_pages": c["queue"] if proto.has_next_pages(v) else None}
            eq("continuous_paging", d["continuous_paging"], want)
            if o["fetch"] is not None:
                # the unit qualifies the page size; without a page size there is nothing to qualify
                eq("page_unit", "BYTES" if d["page_size_in_bytes"] else "ROWS", c["unit"], ["unit=" + c["unit"]])
            ctx.label("continuous", "continuous:" + c["unit"])
        optional += sum(x is not None for x in (o["serial"], o["fetch"], o["paging_state"], o["timestamp"], c))
        if kind == "QUERY":
            eq("query", d["query"], o["query"])
            eq("keyspace", d["keyspace"], o["keyspace"], ["keyspace=empty"] if o["keyspace"] == "" else [])
            eq("values", d["values"], None)
            optional += o["keyspace"] is not None
        else:
            eq("query_id", d["query_id"], bytes.fromhex(o["query_id"]))
            eq("result_metadata_id", d["result_metadata_id"], _hexb(o["result_metadata_id"]))
            eq("values", d["values"], [_spec_val(x) for x in o["values"]])
            eq("keyspace", d["keyspace"], None)
            # skip_meta is not in the statement's option list and the driver deliberately never asks the server to
            # omit metadata: flag 0x02 is accepted by the parser either way and not compared
            optional += bool(o["values"])
            if any(x == "U" for x in o["values"]):
                ctx.label("unset-value")
            if any(x is None for x in o["values"]):
                ctx.label("null-value")
    elif kind == "BATCH":
        eq("batch_type", d["batch_type"], o["type"])
        eq("consistency", d["consistency"], o["cl"])
        eq("serial_consistency", d["serial_consistency"], o["serial"])
        eq("timestamp", d["timestamp"], o["timestamp"])
        eq("keyspace", d["keyspace"], o["keyspace"], ["keyspace=empty"] if o["keyspace"] == "" else [])
        eq("now_in_seconds", d["now_in_seconds"], None)
        want_q = []
        for q in o["queries"]:
            if q["prepared"]:
                want_q.append({"kind": "prepared", "query_id": bytes.fromhex(q["id"]),
                               "values": [_spec_val(x) for x in q["values"]], "value_names": None})
            else:
                want_q.append({"kind": "query", "query": q["query"], "values": [], "value_names": None})
        eq("queries", d["queries"], want_q)
        optional += sum(x is not None for x in (o["serial"], o["timestamp"], o["keyspace"])) + (len(o["queries"]) >= 2)
    elif kind == "PREPARE":
        eq("query", d["query"], o["query"])
        eq("keyspace", d["keyspace"], o["keyspace"], ["keyspace=empty"] if o["keyspace"] == "" else [])
        optional += o["keyspace"] is not None
    elif kind == "STARTUP":
        want = dict((k, x) for k, x in o["options"])
        want["CQL_VERSION"] = o["cql_version"]
        eq("options", d["options"], want)
        optional += len(o["options"])
    elif kind == "CREDENTIALS":
        eq("credentials", d["credentials"], dict((k, x) for k, x in o["creds"]))
        optional += len(o["creds"])
    elif kind == "AUTH_RESPONSE":
        eq("token", d["token"], bytes.fromhex(o["token"]))
    elif kind == "REGISTER":
        eq("events", d["events"], list(o["events"]))
        optional += len(o["events"]) - 1
    elif kind == "REVISE":
        eq("revision_type", d["revision_type"], o["type"])
        eq("target_stream", d["target_stream"], o["id"])
        eq("next_pages", d["next_pages"], o["next_pages"] if o["type"] == 2 else None)
        optional += o["type"] == 2
    if o.get("keyspace") is not None:
        ctx.label("keyspace")
    if d["compressed"]:
        ctx.label("compressed")
    if case["payload"]:
        ctx.label("payload")
    layout = (kind in ("QUERY", "EXECUTE", "BATCH", "PREPARE") and proto.has_int_query_flags(v)) or \
             (kind in ("QUERY", "EXECUTE") and v == 1) or (kind == "BATCH" and v == 2)
    if layout:
        ctx.label("version-dependent-layout")
    ctx.nontrivial(optional >= 2 or layout)


# ---------------------------------------------------------------------------------------------
# reject half
# ---------------------------------------------------------------------------------------------

def _carried(what, case, d):
    """does the decoded frame carry the feature that was requested?"""
    o = case["opts"]
    if what == "keyspace":
        return d.get("keyspace") == o["keyspace"]
    if what == "custom_payload":
        return d.get("custom_payload") is not None
    if what == "continuous":
        return d.get("continuous_paging") is not None
    if what in ("serial_v1", "serial_v2_batch"):
        return d.get("serial_consistency") == o["serial"]
    if what == "page_size_v1":
        return d.get("page_size") == o["fetch"]
    if what == "paging_state_v1":
        return d.get("paging_state") == _hexb(o["paging_state"])
    raise ValueError(what)


def interpret_reject(case, ctx):
    from cassandra import UnsupportedOperation
    kind, v, what = case["kind"], case["version"], case["reject"]
    K = "C03.reject." + what
    ctx.label("reject", "reject:" + what, "reject:%s/%s/%s" % (what, kind, _vclass(v)))
    ctx.nontrivial()
    frame = None
    try:
        msg = _build(case)
        frame = _encode(case, msg)
    except UnsupportedOperation:
        ctx.label("rejected:UnsupportedOperation")
        return
    except (KeyboardInterrupt, SystemExit, MemoryError):
        raise
    except Exception as e:  # an explicit error is a rejection too, but say which
        ctx.label("rejected:" + type(e).__name__)
        ctx.fail([K, kind, _vclass(v), "raises", type(e).__name__],
                 "%s on protocol 0x%02x was rejected with %s (%s) instead of UnsupportedOperation" % (what, v, type(e).__name__, e))
        return
    # not rejected: the only acceptable outcome would be a well-formed frame that carries the feature,
    # which the version cannot do -- so this is either a silent drop or a malformed frame
    try:
        d = proto.decode_request(bytes(frame), decompress=_decompress, tolerate=_KNOWN_DEVIATIONS)
    except proto.SpecError as e:
        ctx.fail([K, kind, _vclass(v), "malformed", e.kind],
                 "%s on protocol 0x%02x was not rejected and the frame is malformed: %s" % (what, v, e))
        return
    if _carried(what, case, d):
        ctx.fail([K, kind, _vclass(v), "carried"],
                 "%s on protocol 0x%02x: reference parser found the field although the version cannot carry it "
                 "(reference and driver disagree about the version's capabilities)" % (what, v))
    else:
        ctx.fail([K, kind, _vclass(v), "silently-dropped"],
                 "%s requested on protocol 0x%02x was neither rejected nor sent: frame %s" % (what, v, bytes(frame)[:80].hex()))


def parts(tier):
    return [
        hyp_part("accept", s_accept, interpret_accept, tier, quick=900, thorough=25000, quick_shards=6, thorough_shards=16),
        hyp_part("reject", s_reject, interpret_reject, tier, quick=400, thorough=8000, quick_shards=2, thorough_shards=4),
    ]
