"""C24 -- reconnection schedules respect their delay bounds and attempt limits."""
from fractions import Fraction
from itertools import islice

from hypothesis import strategies as st

from vlib.harness import hyp_part

PID = "C24"
TITLE = "Reconnection schedules respect their delay bounds and attempt limits"
LEVEL = "exploration"
RULE = ("Hypothesis draws (delay | base,max) from boundary values {0, 1e-300, 1e-9, 0.5, 1, 2.5, 1e9, 1e18} and generated "
        "floats/ints in [0, 1e18] seconds (the bounded range: 1e18 s is 3e10 years) with base<=max by construction, max_attempts from {None,0,1,2,3,64,2000} and small ints, and a "
        "jitter tape (values the substituted randint returns).  The first N (<=2000) schedule items are compared with "
        "an exact-rational model of the doubling curve and the +-15% band.  The handler part drives the real "
        "_ReconnectionHandler with an always-failing try_reconnect and a recording scheduler.  Non-trivial: an attempt "
        "limit of 0/1/None, or a schedule that reaches the max-delay clamp or an index >= 1024 (float overflow region), "
        "or a handler run that exhausts its schedule.")
ASSUMPTIONS = ["randint in cassandra.policies is substituted by a tape so that jitter is part of the generated case",
               "float comparisons use a relative tolerance of 1e-12 plus 1e-320 absolute (denormal rounding); no wall clock involved"]

_BOUNDARY = [0, 0.0, 1e-300, 1e-9, 0.5, 1, 2.5, 1e9, 1e18]


def _delay():
    return st.one_of(st.sampled_from(_BOUNDARY),
                     st.floats(min_value=0, max_value=1e6, allow_nan=False, allow_infinity=False),
                     st.integers(min_value=0, max_value=10 ** 6),
                     st.floats(min_value=0, max_value=1e18, allow_nan=False, allow_infinity=False))


def _attempts():
    return st.one_of(st.sampled_from([None, 0, 1, 2, 3, 64, 2000]), st.integers(0, 40))


def _items():
    return st.sampled_from([5, 70, 300, 1100, 2000])


def s_constant():
    return st.fixed_dictionaries({"delay": _delay(), "max_attempts": _attempts(), "items": _items()})


def s_exponential():
    return st.builds(
        lambda a, b, m, n, tape: {"base": min(a, b), "max": max(a, b), "max_attempts": m, "items": n, "jitter": tape},
        _delay(), _delay(), _attempts(), _items(),
        st.lists(st.integers(-2, 63), min_size=1, max_size=8))


def s_handler():
    return st.fixed_dictionaries({
        "kind": st.sampled_from(["constant", "exponential"]),
        "delay": st.sampled_from([0, 0.5, 1, 3.0]),
        "max_attempts": st.integers(0, 12),
        "succeed_at": st.one_of(st.none(), st.integers(0, 14)),
    })


def _take(schedule, n, ctx, key):
    out = []
    with ctx.driver(key):
        it = iter(schedule)
        for x in islice(it, n):
            out.append(x)
    return out


def _check_count(ctx, sub, got, max_attempts, want_items):
    if max_attempts is None:
        ctx.check(len(got) == want_items, [sub + ".count", "max_attempts=None"],
                  "unlimited schedule ended after %d items (asked for %d)" % (len(got), want_items))
    else:
        expect = min(max_attempts, want_items)
        feat = "max_attempts=0" if max_attempts == 0 else "max_attempts>0"
        ctx.check(len(got) == expect, [sub + ".count", feat],
                  "schedule with max_attempts=%r yielded %d items in the first %d, expected %d" % (
                      max_attempts, len(got), want_items, expect))


def interpret_constant(case, ctx):
    from cassandra.policies import ConstantReconnectionPolicy
    delay, m, n = case["delay"], case["max_attempts"], case["items"]
    with ctx.driver(["C24.constant.new"]):
        pol = ConstantReconnectionPolicy(delay, max_attempts=m)
    if ctx._failures:
        return
    # take one more than the limit so that an over-long schedule is seen
    want = n if m is None else max(n, m + 1)
    want = min(want, 2001)
    got = _take(pol.new_schedule(), want, ctx, ["C24.constant.iter"])
    _check_count(ctx, "C24.constant", got, m, want)
    bad = [x for x in got if x != delay]
    ctx.check(not bad, ["C24.constant.value"], "items differ from delay %r: %r" % (delay, bad[:3]))
    # a second schedule from the same policy is independent and identical
    got2 = _take(pol.new_schedule(), want, ctx, ["C24.constant.iter"])
    ctx.check(len(got2) == len(got), ["C24.constant.fresh"], "second new_schedule() differs in length")
    ctx.label("constant", "attempts=%s" % ("None" if m is None else ("0" if m == 0 else ("1" if m == 1 else "n"))))
    ctx.nontrivial(m in (None, 0, 1) or want >= 1100)


def _model_band(base, mx, i):
    """exact rational doubling curve and jitter band, clamped to [base, max]"""
    b, M = Fraction(base), Fraction(mx)
    c = min(b * (2 ** i), M)
    lo = max(b, min(M, c * Fraction(85, 100)))
    hi = max(b, min(M, c * Fraction(115, 100)))
    return c, lo, hi


def interpret_exponential(case, ctx):
    import cassandra.policies as P
    base, mx, m, n, tape = case["base"], case["max"], case["max_attempts"], case["items"], case["jitter"]
    pos = [0]

    def fake_randint(a, b):
        # tape entries select from whatever range the driver asks for: -1 -> upper end, -2 -> lower
        # end, t >= 0 -> a + t mod span (so a widened range in the driver is reachable)
        t = tape[pos[0] % len(tape)]
        pos[0] += 1
        if t == -1:
            return b
        if t == -2:
            return a
        return a + t % (b - a + 1)

    saved = P.randint
    P.randint = fake_randint
    try:
        with ctx.driver(["C24.exponential.new"]):
            pol = P.ExponentialReconnectionPolicy(base, mx, max_attempts=m)
        if ctx._failures:
            return
        want = n if m is None else max(n, m + 1)
        want = min(want, 2001)
        got = _take(pol.new_schedule(), want, ctx, ["C24.exponential.iter"])
    finally:
        P.randint = saved
    _check_count(ctx, "C24.exponential", got, m, want)
    clamp = overflow = False
    for i, x in enumerate(got):
        c, lo, hi = _model_band(base, mx, i)
        if c == Fraction(mx) and mx != base:
            clamp = True
        if i >= 1024:
            overflow = True
        if not isinstance(x, (int, float)) or x != x:
            ctx.fail(["C24.exponential.type"], "item %d is %r" % (i, x))
            break
        # inf is never within [base, max] for finite max
        if x in (float("inf"), float("-inf")):
            ctx.fail(["C24.exponential.bounds"], "item %d is infinite" % i)
            break
        fx = Fraction(x)
        tol = abs(c) * Fraction(1, 10 ** 12) + Fraction(1, 10 ** 320)
        if not (Fraction(base) <= fx <= Fraction(mx)):
            ctx.fail(["C24.exponential.bounds"], "item %d = %r outside [base=%r, max=%r]" % (i, x, base, mx))
            break
        if not (lo - tol <= fx <= hi + tol):
            ctx.fail(["C24.exponential.band"], "item %d = %r outside jitter band [%s, %s] of curve value %s" % (
                i, x, float(lo), float(hi), float(c)))
            break
    ctx.label("exponential", "attempts=%s" % ("None" if m is None else ("0" if m == 0 else ("1" if m == 1 else "n"))))
    if clamp:
        ctx.label("exp:clamped")
    if overflow:
        ctx.label("exp:index>=1024")
    ctx.nontrivial(m in (None, 0, 1) or clamp or overflow)


class _RecScheduler(object):
    def __init__(self):
        self.queue = []
        self.delays = []

    def schedule(self, delay, fn, *args, **kwargs):
        self.delays.append(delay)
        self.queue.append((fn, args, kwargs))


def interpret_handler(case, ctx):
    """_ReconnectionHandler: attempts stop when the schedule is exhausted (pool.py anchor)."""
    from cassandra.policies import ConstantReconnectionPolicy, ExponentialReconnectionPolicy
    from cassandra.pool import _ReconnectionHandler
    m = case["max_attempts"]
    if case["kind"] == "constant":
        pol = ConstantReconnectionPolicy(case["delay"], max_attempts=m)
    else:
        pol = ExponentialReconnectionPolicy(case["delay"], case["delay"] * 8, max_attempts=m)
    # the reference length of the schedule is what the *policy* yields (policy correctness is the
    # business of the other two parts); the handler must make exactly that many scheduled attempts
    ref_len = len(list(islice(pol.new_schedule(), 64)))
    sched = _RecScheduler()
    attempts = []
    done = []
    succeed_at = case["succeed_at"]

    class Conn(object):
        closed = False

        def close(self):
            self.closed = True

    conns = []

    class H(_ReconnectionHandler):
        def try_reconnect(self):
            attempts.append(len(attempts))
            if succeed_at is not None and len(attempts) - 1 == succeed_at:
                c = Conn()
                conns.append(c)
                return c
            raise OSError("refused")

    if ref_len > 12:
        # the policy itself yielded more delays than its limit (judged by the other parts); the
        # handler cannot be blamed for following it
        ctx.label("handler:policy-overlong")
        return
    h = H(sched, pol.new_schedule(), lambda: done.append(1))
    # "if the iterable is finite, reconnection attempts will cease once the iterable is exhausted":
    # an empty schedule means no attempt -- not an exception out of start()
    with ctx.driver(["C24.handler.start", "empty-schedule" if ref_len == 0 else "nonempty-schedule"]):
        h.start()
    steps = 0
    with ctx.driver(["C24.handler.run"]):
        while sched.queue and steps < 200:
            fn, a, kw = sched.queue.pop(0)
            fn(*a, **kw)
            steps += 1
    if ctx._failures:
        return
    if steps >= 200:
        ctx.fail(["C24.handler.unbounded"], "handler still rescheduling after 200 attempts with a schedule of %d" % ref_len)
        return
    if succeed_at is not None and succeed_at < ref_len:
        expect_attempts = succeed_at + 1
        ctx.check(done == [1], ["C24.handler.callback"], "callback calls after success: %r" % (done,))
        ctx.check(all(c.closed for c in conns), ["C24.handler.close"], "reconnection connection left open")
    else:
        expect_attempts = ref_len
        ctx.check(done == [], ["C24.handler.callback"], "callback invoked although every attempt failed")
    ctx.check(len(attempts) == expect_attempts, ["C24.handler.attempts"],
              "schedule of %d delays, %d attempts made (expected %d)" % (ref_len, len(attempts), expect_attempts))
    ctx.check(len(sched.delays) == len(attempts) or (succeed_at is not None and succeed_at < ref_len),
              ["C24.handler.schedules"], "scheduled %d runs for %d attempts" % (len(sched.delays), len(attempts)))
    ctx.label("handler", "handler:exhausted" if expect_attempts == ref_len else "handler:reconnected")
    ctx.nontrivial(expect_attempts == ref_len or succeed_at is not None)


def parts(tier):
    return [
        hyp_part("constant", s_constant, interpret_constant, tier, quick=600, thorough=6000, thorough_shards=8),
        hyp_part("exponential", s_exponential, interpret_exponential, tier, quick=500, thorough=5000),
        hyp_part("handler", s_handler, interpret_handler, tier, quick=500, thorough=4000, thorough_shards=4),
    ]
