"""Shared helpers for the cluster-level checks on the simulated world (C20, C25, C44, C45).

Everything here lives outside sim/ on purpose (sim/ is shared and frozen); the capabilities that
sim/ lacks are implemented by wrapping `on_request`, by policies/listeners handed to the real
Cluster, or by per-case substitutions registered on `sim.patch` (restored when the `with sim:`
block exits)."""
from checks import _simutil as U  # noqa: F401  (import order: sim before cassandra.cluster)

Sim = U.Sim
StepBudgetExceeded = U.StepBudgetExceeded
Deadlock = U.Deadlock


def addr(i):
    return "10.0.0.%d" % (i + 1)


# ---------------------------------------------------------------------------------------------
# policies / listeners handed to the real Cluster
# ---------------------------------------------------------------------------------------------

def plan_policy(log=None, distances=None, keep_down=False):
    """load-balancing policy: plan = live hosts in `self.order` (addresses; default sorted by
    address); distance from the `distances` map (address -> "local"|"remote"|"ignored", default
    local); every notification is appended to `log` as (kind, address, host object)"""
    from cassandra.policies import HostDistance, LoadBalancingPolicy
    DIST = {"local": HostDistance.LOCAL, "remote": HostDistance.REMOTE, "ignored": HostDistance.IGNORED}

    class PlanPolicy(LoadBalancingPolicy):
        def __init__(self):
            LoadBalancingPolicy.__init__(self)
            self.hosts = []
            self.order = None
            self.log = log if log is not None else []
            self.distances = dict(distances or {})

        def populate(self, cluster, hosts):
            self.hosts = list(hosts)

        def distance(self, host):
            return DIST[self.distances.get(host.endpoint.address, "local")]

        def make_query_plan(self, working_keyspace=None, query=None):
            hs = sorted(self.hosts, key=lambda h: h.endpoint.address)
            if self.order:
                rank = dict((a, i) for i, a in enumerate(self.order))
                hs.sort(key=lambda h: rank.get(h.endpoint.address, len(rank)))
            return [h for h in hs if self.distances.get(h.endpoint.address, "local") != "ignored"]

        def on_up(self, host):
            self.log.append(("up", host.endpoint.address, host))
            if host not in self.hosts:
                self.hosts.append(host)

        def on_down(self, host):
            self.log.append(("down", host.endpoint.address, host))
            # keep_down: down hosts stay in the plan (a policy need not track liveness), so that a control connection
            # without any live host still has somebody to try -- and spends connect time doing so
            if host in self.hosts and not keep_down:
                self.hosts.remove(host)

        def on_add(self, host):
            self.log.append(("add", host.endpoint.address, host))
            if host not in self.hosts:
                self.hosts.append(host)

        def on_remove(self, host):
            self.log.append(("remove", host.endpoint.address, host))
            if host in self.hosts:
                self.hosts.remove(host)
    return PlanPolicy()


def recording_listener(log, clock=None):
    from cassandra.policies import HostStateListener

    class Rec(HostStateListener):
        def _put(self, kind, host):
            log.append((kind, host.endpoint.address, host, clock() if clock is not None else None))

        def on_up(self, host):
            self._put("up", host)

        def on_down(self, host):
            self._put("down", host)

        def on_add(self, host):
            self._put("add", host)

        def on_remove(self, host):
            self._put("remove", host)
    return Rec()


def never_convict_factory():
    """conviction_policy_factory (documented Cluster option): a failure never marks the host down"""
    from cassandra.policies import ConvictionPolicy

    class NeverConvict(ConvictionPolicy):
        def add_failure(self, connection_exc):
            return False

        def reset(self):
            pass
    return NeverConvict


# ---------------------------------------------------------------------------------------------
# looking at the world
# ---------------------------------------------------------------------------------------------

def pool_connections(session, address):
    """client-side connections of the session's pool for `address` (empty if no pool)"""
    for host, pool in list(session._pools.items()):
        if host.endpoint.address == address:
            return [c for c in pool.get_connections() if c is not None]
    return []


def pool_for(session, address):
    for host, pool in list(session._pools.items()):
        if host.endpoint.address == address:
            return pool
    return None


def host_for(cluster, address):
    for h in cluster.metadata.all_hosts():
        if h.endpoint.address == address:
            return h
    return None


def control_node(net):
    """the node the control connection is currently registered with (open registered connection)"""
    for n in net.nodes.values():
        for c in n.registered:
            if not c.is_closed and not c.srv_closed:
                return n
    return None


def requests_since(net, marker, pred):
    return [(n, c, r) for (n, c, r) in net.requests[marker:] if pred(n, c, r)]


def is_user_query(req, text):
    return req["op"] == "QUERY" and req.get("query") == text


def drain_held(sim, action=None, limit=200):
    """answer every held request (default behaviour unless `action`) until none is left"""
    n = 0
    for _ in range(limit):
        sim.settle()
        held = U.all_held(sim.net)
        if not held:
            break
        node, conn, req = held[0]
        for i, (c, r) in enumerate(node.held):
            if r is req:
                node.release(i, action)
                break
        n += 1
    sim.settle()
    return n


def fixed_random(sim, values):
    """substitute cassandra.cluster.random (used for event debouncing delays) by a tape"""
    import cassandra.cluster as C
    vals = list(values)
    state = {"i": 0}

    def rnd():
        v = vals[state["i"] % len(vals)] if vals else 0.0
        state["i"] += 1
        return v
    sim.patch.set(C, "random", rnd)


def legacy_system_tables(node, conn, req):
    """on_request helper for protocol 1/2: sim/wire.enc_value encodes collections in the v3+
    layout only, so the `tokens` set of system.local / system.peers cannot be decoded by a v1/v2
    client (the peer rows are then rejected as invalid).  Serve those tables without the tokens
    column (what a cluster with token_metadata_enabled=False looks like).  Returns an action or None."""
    from sim import wire
    if req["op"] != "QUERY" or req["version"] >= 3:
        return None
    q = req.get("query", "").strip()
    qu = q.upper()
    if not qu.startswith("SELECT") or "SYSTEM.PEERS_V2" in qu:
        return None
    if "SYSTEM.PEERS" in qu:
        cols, rows, table = list(node.PEER_COLS), node.peer_rows(), "peers"
    elif "SYSTEM.LOCAL" in qu:
        cols, rows, table = list(node.LOCAL_COLS), [node.local_row()], "local"
    else:
        return None
    cols = [c for c in cols if c[0] != "tokens"]
    sel = q[len("SELECT "):qu.index(" FROM ")].strip()
    if sel != "*":
        want = [c.strip() for c in sel.split(",")]
        cols = [c for c in cols if c[0] in want]
    data = [[r.get(c[0]) for c in cols] for r in rows]
    return ("reply", "RESULT", wire.result_rows(cols, data, ks="system", table=table, version=req["version"]))


def separate_profiles(default_profile, make_policy):
    """execution_profiles dict in which the three graph default profiles get load-balancing policy
    instances of their own.  (Left alone, Cluster wraps the default profile's policy into the three
    graph profiles, so that one policy object is notified 4 times per host transition.)"""
    from cassandra.cluster import (EXEC_PROFILE_DEFAULT, EXEC_PROFILE_GRAPH_ANALYTICS_DEFAULT, EXEC_PROFILE_GRAPH_DEFAULT,
                                   EXEC_PROFILE_GRAPH_SYSTEM_DEFAULT, GraphAnalyticsExecutionProfile, GraphExecutionProfile)
    return {EXEC_PROFILE_DEFAULT: default_profile,
            EXEC_PROFILE_GRAPH_DEFAULT: GraphExecutionProfile(load_balancing_policy=make_policy()),
            EXEC_PROFILE_GRAPH_SYSTEM_DEFAULT: GraphExecutionProfile(load_balancing_policy=make_policy(), request_timeout=180.),
            EXEC_PROFILE_GRAPH_ANALYTICS_DEFAULT: GraphAnalyticsExecutionProfile(load_balancing_policy=make_policy())}


class OrderedIdentitySet(object):
    """stands in for Cluster.sessions (a WeakSet, iterated in id()/memory-address order, which differs
    from run to run): same interface as far as the driver uses it, iteration in insertion order"""

    def __init__(self):
        self._items = []

    def add(self, x):
        if not any(x is y for y in self._items):
            self._items.append(x)

    def discard(self, x):
        self._items = [y for y in self._items if y is not x]

    remove = discard

    def __iter__(self):
        return iter(list(self._items))

    def __len__(self):
        return len(self._items)

    def __contains__(self, x):
        return any(x is y for y in self._items)


def deterministic_sessions(cluster):
    cluster.sessions = OrderedIdentitySet()
    return cluster


def deterministic_futures(sim):
    """number the executor futures and hash them by that number.  The driver keeps futures in sets
    (Session._initial_connect_futures, Cluster.on_up) and e.g. Session.__init__ blocks on
    `any(f.result() for f in <set>)`, i.e. on whichever future the set yields first: with id()-based
    hashes that is a function of memory addresses and a case would not replay identically.
    Call after make_cluster (wraps the submit of the executors created so far)."""
    import itertools
    from sim.world import SimFuture
    counter = itertools.count(1)
    sim.patch.set(SimFuture, "__hash__", lambda self: self.__dict__.get("_seq", 0))
    for ex in sim.executors:
        def submit(fn, *a, _orig=ex.submit, **k):
            f = _orig(fn, *a, **k)
            f._seq = next(counter)
            return f
        ex.submit = submit
