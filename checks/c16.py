"""C16 -- retries do exactly what the retry policy decided; non-idempotent statements are never
executed speculatively."""
import os

from hypothesis import strategies as st

from checks import _simfut as F
from checks import _simutil as U
from vlib.harness import hyp_part

SERIAL = os.environ.get("VERIF_TIER") == "quick"   # heavily loaded machine: forked pool is slower than one process
PID = "C16"
TITLE = "Retries do exactly what the retry policy decided"
LEVEL = "exploration"
ENGINE = "sim"
TECHNIQUE = ("model-based generation of error sequences and policy decisions (Hypothesis) over the real Session/ResponseFuture "
             "on a deterministic simulated network; a sequential reference model of plan position, retry count and consistency "
             "level predicts every frame, every policy consultation and the outcome")
RULE = ("A case is 1-3 fake nodes with a fixed plan, one statement (simple / bound / batch, consistency level unset or "
        "ONE/QUORUM/ALL, idempotent or not; the flag of the executed statement is inherited from the PreparedStatement at bind "
        "time, or set on the bound/batch statement itself while the PreparedStatement / the statement inside the batch says the "
        "opposite, or the PreparedStatement's flag is flipped after binding -- the executed statement's own flag is the law), an optional constant speculative-execution policy, a script of answers for the "
        "successive attempts (7 retryable server errors, connection close/reset, non-retryable errors, rows, void; each "
        "optionally after a pause longer than the speculative delay) and a decision oracle (installed on the execution profile or on the statement): the list of (RETRY | "
        "RETRY_NEXT_HOST | RETHROW | IGNORE, consistency None/ANY/ONE/QUORUM/ALL) the policy returns.  The fake nodes decode "
        "every frame (host, consistency).  Without a speculative plan (no policy, or statement not idempotent) the reference "
        "model predicts the exact frame sequence, the policy consultations (method, retry_num) and the outcome; with a "
        "speculative plan the order-independent invariants are checked (retry_num, one consultation per error, consistency "
        "of every frame = last chosen level, and a RETRY decision for a server error of a healthy host produces a frame to that "
        "very host even while another attempt of the execution is in flight elsewhere).  In every mode, two attempts of one "
        "execution in flight at once without a speculative plan being due (no policy, or the EXECUTED statement not marked "
        "idempotent, whatever its PreparedStatement or contained statements say) is a violation.  Non-trivial: the policy was consulted at least twice.  Distinct by case digest.")
ASSUMPTIONS = ["network, clock, executor and event loop are simulated (sim/); Cluster, Session, pools, connections, "
               "ResponseFuture and RetryPolicy dispatch are the real classes",
               "after a connection error the same host or the next plan host are both accepted for a RETRY decision "
               "(the pool of the failed connection may or may not be usable again)",
               "is_idempotent is a public attribute of Statement; the flag of the statement object passed to execute_async decides "
               "(BoundStatement copies the PreparedStatement's flag once, at bind time); no demand is made that an idempotent "
               "statement IS executed speculatively, only that a non-idempotent one never is",
               "pre-emption only at blocking operations (part blocking) / additionally at every lock operation and clock read (part locks)"]

RETRYABLE = sorted(F.ERRORS)
FATAL = sorted(F.FATAL)
CLS = [None, "ANY", "ONE", "QUORUM", "ALL"]
DEFAULT_CL = "LOCAL_ONE"


def s_case(gran):
    pause = st.sampled_from([0.0, 0.0, 0.1])
    idx = st.integers(0, 3)
    err = st.one_of(st.sampled_from(RETRYABLE), st.sampled_from(RETRYABLE), st.sampled_from(RETRYABLE),
                    st.sampled_from(["close", "reset"]))
    last = st.one_of(st.sampled_from(["rows", "void"]), st.sampled_from(["rows", "void"]), st.sampled_from(FATAL), err)
    step = lambda a: st.tuples(a, pause, idx).map(list)   # noqa: E731
    # a run of failing attempts, then a final answer
    script = st.tuples(st.lists(step(err), max_size=5), st.lists(step(last), max_size=1)).map(lambda t: t[0] + t[1])
    go_on = st.tuples(st.sampled_from(["retry", "retry", "next_host"]), st.sampled_from(CLS)).map(list)
    anyd = st.tuples(st.sampled_from(["retry", "next_host", "rethrow", "ignore", "ignore"]), st.sampled_from(CLS)).map(list)
    decisions = st.tuples(st.lists(go_on, max_size=4), st.lists(anyd, max_size=2)).map(lambda t: t[0] + t[1])
    return st.fixed_dictionaries({
        "warm": st.sampled_from([0, 1, 2, 3]),
        "hosts": st.sampled_from([1, 2, 3, 3]),
        "stmt": st.sampled_from(["simple", "simple", "bound", "batch"]),
        "cl": st.sampled_from([None, "ONE", "QUORUM", "ALL"]),
        "idempotent": st.booleans(),
        # where the executed statement's flag comes from, and what the object it was derived from / contains says
        "idem_src": st.sampled_from(["inherit", "inherit", "own", "own", "late"]),
        "policy_on": st.sampled_from(["profile", "profile", "statement"]),
        "spec": st.sampled_from([0, 0, 1, 2]),
        "spec_delay": st.sampled_from([0.0, 0.05]),
        "script": script,
        "decisions": decisions,
        "tape": st.lists(st.integers(0, 3), max_size=30 if gran == "locks" else 6),
        "gran": st.just(gran),
    })


# --------------------------------------------------------------------------- reference model
def model(case, got_hosts):
    """sequential reference: -> (frames [(acceptable plan indexes, cl)], consultations [(method, retry_num, answer)],
    outcome).  `got_hosts` (observed plan index per frame) only resolves the one allowed nondeterminism: after a
    connection error a RETRY may reuse the host or move on to the next host of the plan."""
    n = case["hosts"]
    cl = case["cl"] or DEFAULT_CL
    pi = 0
    retries = 0
    frames = [((0,), cl)]
    consults = []
    script = [s[0] for s in case["script"]]
    k = 0
    while True:
        a = script[k] if k < len(script) else "rows"
        k += 1
        if a in ("rows", "void"):
            return frames, consults, ("result", a)
        if a in F.FATAL:
            return frames, consults, ("error", F.FATAL[a])
        conn_err = a in F.CONN_ERRORS
        method = "request_error" if conn_err else F.ERRORS[a][0]
        consults.append((method, retries, a))
        i = len(consults) - 1
        d = case["decisions"][i] if i < len(case["decisions"]) else ["rethrow", None]
        if d[0] == "rethrow":
            return frames, consults, ("error", "ConnectionShutdown" if conn_err else F.ERRORS[a][1])
        if d[0] == "ignore":
            return frames, consults, ("result", "empty")
        retries += 1
        if d[1] is not None:
            cl = d[1]
        if d[0] == "retry" and not conn_err:
            frames.append(((pi,), cl))
            continue
        if d[0] == "retry":
            j = len(frames)
            seen = got_hosts[j] if j < len(got_hosts) else None
            if seen == pi:
                frames.append(((pi,), cl))
                continue
            # falls through to the next host of the plan
        if pi + 1 >= n:
            return frames, consults, ("error", "NoHostAvailable")
        pi += 1
        frames.append(((pi,), cl))


def interpret(case, ctx):
    sim = U.Sim(tape=case["tape"], granularity=case["gran"])
    try:
        with sim:
            _run(case, ctx, sim)
    except U.StepBudgetExceeded:
        ctx.stats.inconclusive += 1
        ctx.label("inconclusive:step-budget")


def _statement(case, sim, session):
    from cassandra.query import BatchStatement, SimpleStatement
    cl = F.CL_CODE[case["cl"]] if case["cl"] else None
    if case["stmt"] == "simple":
        return SimpleStatement(F.USER_Q, consistency_level=cl, is_idempotent=case["idempotent"])
    # The flag that counts is the one of the statement handed to execute_async (case["idempotent"]).  idem_src says
    # how it got there: "inherit" = copied from the PreparedStatement at bind time (flags agree); "own" = set on the
    # bound/batch statement itself while the PreparedStatement / the contained statement says the opposite;
    # "late" = bound while the flags agreed, the PreparedStatement's flag was flipped afterwards.
    src = case.get("idem_src", "inherit")
    idem = case["idempotent"]
    if case["stmt"] == "bound":
        ps = sim.call(session.prepare, "SELECT k FROM t WHERE k=0")
        sim.settle()
        ps.is_idempotent = (not idem) if src == "own" else idem
        b = ps.bind(())
        if src == "own":
            b.is_idempotent = idem
        elif src == "late":
            ps.is_idempotent = not idem
        b.consistency_level = cl
        return b
    b = BatchStatement(consistency_level=cl)
    b.add(SimpleStatement("INSERT INTO t (k) VALUES (1)", is_idempotent=idem if src == "inherit" else (not idem)))
    b.is_idempotent = idem
    return b


def _is_user(case, req):
    if case["stmt"] == "simple":
        return F.is_user(req)
    return req["op"] == ("EXECUTE" if case["stmt"] == "bound" else "BATCH")


def _run(case, ctx, sim):
    from cassandra.cluster import ExecutionProfile
    from cassandra.policies import ConstantSpeculativeExecutionPolicy
    net = sim.net
    n = case["hosts"]
    rlog = []
    trap = []
    policy = F.scripted_policy(case["decisions"], rlog)
    on_stmt = case.get("policy_on") == "statement"
    prof = ExecutionProfile(load_balancing_policy=U.fixed_plan_policy(),
                            retry_policy=F.scripted_policy([], trap) if on_stmt else policy,
                            request_timeout=None,
                            speculative_execution_policy=ConstantSpeculativeExecutionPolicy(case["spec_delay"], case["spec"])
                            if case["spec"] else None)
    warm = case.get("warm")
    # 4 stream ids per connection + 0-3 warm-up requests: attempts travel on every stream id, 0 included
    cluster, session, nodes = F.build(sim, n, prof, max_in_flight=4 if warm is not None else None)
    with ctx.driver(["C16.warmup"]):
        F.warm_up(sim, session, cluster, nodes, warm or 0)
    if ctx._failures:
        return
    index = dict((nd.address, i) for i, nd in enumerate(nodes))
    timeline = []      # ("frame", host index, cl code, consultations so far)

    def user(node, conn, req):
        if conn.is_control_connection or not _is_user(case, req):
            return None
        timeline.append((index[node.address], req["consistency"], len(rlog)))
        return ("hold",)

    stmt = None
    with ctx.driver(["C16.prepare"]):
        stmt = _statement(case, sim, session)
    if stmt is None:
        return
    if on_stmt:
        stmt.retry_policy = policy
    for nd in nodes:
        nd.on_request = user
    concurrent = bool(case["spec"]) and case["idempotent"]
    # the related object (PreparedStatement of a bound statement, statement inside a batch) carries the opposite flag
    disagree = case["stmt"] != "simple" and case.get("idem_src", "inherit") != "inherit"
    related = "agrees" if not disagree else ("prepared-says-%s" if case["stmt"] == "bound" else "inner-says-%s") % (not case["idempotent"])
    mode = "concurrent" if concurrent else "sequential"
    out = []

    def on_create(fut):
        out.append(F.Outcome(sim, fut))
    session.add_request_init_listener(on_create)
    fut = None
    with ctx.driver(["C16.execute_async"]):
        fut = sim.call(session.execute_async, stmt)
    if fut is None:
        return
    sim.settle()

    def held_user():
        return [(nd, c, r) for (nd, c, r) in U.all_held(net)]

    answered = []      # kinds answered, in order
    overlap = False
    script = case["script"]
    for k in range(len(script) + 3):
        sim.settle()
        held = held_user()
        if not held:
            break
        a, pause, idx = script[k] if k < len(script) else ["rows", 0.0, 0]
        if pause:
            sim.advance(pause)
            held = held_user()
        if len(held) > 1:
            overlap = True
            if not concurrent:
                ctx.fail(["C16.speculative", "idempotent=%s" % case["idempotent"], "spec=%s" % bool(case["spec"])]
                         + ([related] if disagree and case["spec"] else []),
                         "%d attempts of one execution are in flight at once (%r) although %s" % (
                             len(held), [index[h[0].address] for h in held],
                             ("the executed %s statement is not idempotent (flag source %s, %s)" % (
                                 case["stmt"], case.get("idem_src", "inherit"), related))
                             if case["spec"] else "there is no speculative execution policy"))
                break
        node, conn, req = held[idx % len(held)] if concurrent else held[0]
        nt0, nr0 = len(timeline), len(rlog)
        U.release(net, node, conn, req, a)
        answered.append(a)
        if concurrent and a in F.ERRORS:
            # "retries on the same host ... exactly as decided", also while another attempt of the same
            # execution is in flight elsewhere: the host is healthy and has free stream ids, so a RETRY
            # decision for ITS error must produce a frame to IT (no virtual time passes in settle())
            sim.settle()
            new_cons, new_frames = rlog[nr0:], timeline[nt0:]
            if len(new_cons) == 1 and new_cons[0]["decision"][0] == "retry" and new_frames:
                me = index[node.address]
                if len(held) > 1:
                    ctx.label("retry-same-host-while-another-attempt-is-in-flight")
                if not any(f[0] == me for f in new_frames):
                    ctx.fail(["C16.frames", "host", "decision=retry", "overlap=%s" % (len(held) > 1)],
                             "host %d answered %s, the policy decided RETRY on the same host, but the frame(s) sent then went to host(s) %r "
                             "(attempts in flight at that moment: %r)" % (me, a, [f[0] for f in new_frames], [index[h[0].address] for h in held]))
                    break
    sim.settle()
    sim.advance(0.5)

    if trap:
        ctx.fail(["C16.policy-source", "statement-policy-bypassed"],
                 "the statement carries its own retry policy but the execution profile's policy was consulted %d time(s)" % len(trap))
    # ---- invariants valid in both modes
    errs_delivered = sum(1 for a in answered if a in F.ERRORS or a in F.CONN_ERRORS)
    performed = 0
    for i, ent in enumerate(rlog):
        if ent["retry_num"] != performed:
            ctx.fail(["C16.retry_num", "after=%s" % (rlog[i - 1]["decision"][0] if i else "start")],
                     "consultation %d (%s) got retry_num=%r but %d retries were performed before it (decisions so far %r)" % (
                         i, ent["method"], ent["retry_num"], performed, [e["decision"] for e in rlog[:i]]))
            break
        if ent["decision"][0] in ("retry", "next_host"):
            performed += 1
    if concurrent:
        if len(rlog) > errs_delivered:
            ctx.fail(["C16.consulted", "more-than-once"], "%d consultations for %d delivered errors" % (len(rlog), errs_delivered))
    # consistency level of every frame = the last level a RETRY/RETRY_NEXT_HOST decision chose before it was sent
    want_cl = F.CL_CODE[case["cl"] or DEFAULT_CL]
    seen = 0
    for (h, cl, nc) in timeline:
        while seen < nc:
            d = rlog[seen]["decision"]
            if d[0] in ("retry", "next_host") and d[1] is not None:
                want_cl = F.CL_CODE[d[1]]
            seen += 1
        if cl != want_cl:
            last = rlog[nc - 1]["decision"] if nc else None
            ctx.fail(["C16.consistency", "chosen=%s" % (last[1] if last else "initial")],
                     "frame to host %d carries consistency %d, expected %d (statement level %s, decisions so far %r)" % (
                         h, cl, want_cl, case["cl"], [e["decision"] for e in rlog[:nc]]))
            break

    # ---- exact sequential oracle
    if not concurrent and not overlap:
        frames, consults, outcome = model(case, [h for (h, _cl, _nc) in timeline])
        got_consults = [(e["method"], e["retry_num"]) for e in rlog]
        if [(m, r) for (m, r, _a) in consults] != got_consults:
            feat = "count" if len(consults) != len(got_consults) else "method"
            ctx.fail(["C16.consulted", feat],
                     "policy consultations %r, expected %r (answers %r)" % (got_consults, [(m, r) for (m, r, _a) in consults], answered))
        # request_error consultations are told the level the failed attempt was sent with
        for e, (m, r, a), fr in zip(rlog, consults, frames):
            if m == "request_error" and e["info"].get("consistency") != F.CL_CODE[fr[1]]:
                ctx.fail(["C16.policy-args", "request_error", "consistency"],
                         "on_request_error got consistency %r, the attempt was sent at %s" % (e["info"].get("consistency"), fr[1]))
                break
        got_frames = [(h, cl) for (h, cl, _nc) in timeline]
        ok_frames = True
        for j in range(max(len(frames), len(got_frames))):
            if j >= len(got_frames):
                d = rlog[j - 1]["decision"][0] if 0 < j <= len(rlog) else "?"
                ctx.fail(["C16.frames", "missing", "decision=%s" % d],
                         "attempt %d was never sent: frames %r, expected %r" % (j, got_frames, frames))
                ok_frames = False
                break
            if j >= len(frames):
                d = rlog[-1]["decision"][0] if rlog else "none"
                ctx.fail(["C16.frames", "extra", "last-decision=%s" % d],
                         "unexpected additional attempt %r: frames %r, expected %r, outcome %r" % (
                             got_frames[j], got_frames, frames, outcome))
                ok_frames = False
                break
            hopts, cl = frames[j]
            if got_frames[j][0] not in hopts:
                d = rlog[j - 1]["decision"][0] if 0 < j <= len(rlog) else "?"
                ctx.fail(["C16.frames", "host", "decision=%s" % d],
                         "attempt %d went to host %d, expected %r (decision %r): frames %r" % (
                             j, got_frames[j][0], hopts, rlog[j - 1]["decision"] if 0 < j <= len(rlog) else None, got_frames))
                ok_frames = False
                break
        # outcome
        if ok_frames:
            if not F.done(fut):
                ctx.fail(["C16.outcome", "incomplete"], "all attempts answered (%r) but the future has no outcome" % (answered,))
            else:
                res = []

                def get():
                    try:
                        rs = fut.result()
                        res.append(("result", list(rs)))
                    except Exception as e:  # noqa
                        res.append(("error", e))
                sim.call(get)
                kind, val = res[0]
                if kind != outcome[0]:
                    ctx.fail(["C16.outcome", "expected=%s" % outcome[1]],
                             "expected %r, got %s %r (answers %r, decisions %r)" % (
                                 outcome, kind, val, answered, [e["decision"] for e in rlog]))
                elif kind == "error":
                    if F.exc_name(val) != outcome[1]:
                        ctx.fail(["C16.outcome", "expected=%s" % outcome[1], "got=%s" % F.exc_name(val)],
                                 "expected exception %s, got %r" % (outcome[1], val))
                    elif outcome[1] in ("ReadTimeout", "WriteTimeout", "Unavailable") and getattr(val, "consistency", None) != 1:
                        ctx.fail(["C16.outcome", "error-details"], "server said consistency ONE, exception says %r" % (val.consistency,))
                else:
                    rows = [tuple(r) for r in val]
                    want = [(1, "x")] if outcome[1] == "rows" else []
                    if rows != want:
                        ctx.fail(["C16.outcome", "rows", "expected=%s" % outcome[1]], "expected rows %r, got %r" % (want, rows))
                ctx.label("outcome:%s" % outcome[1])
    n_frames = len(timeline)
    ctx.label("mode=%s" % mode, "stmt=%s" % case["stmt"], "policy-on-%s" % case.get("policy_on", "profile"), "consulted=%d" % min(len(rlog), 4), "frames=%d" % min(n_frames, 5))
    if case["spec"] and not case["idempotent"]:
        ctx.label("spec-policy+non-idempotent")
    if disagree:
        ctx.label("idem-flag:%s:%s" % (case["stmt"], related), "idem-src=%s" % case["idem_src"])
        if case["spec"]:
            # the gating must follow the executed statement's own flag in both directions
            ctx.label("spec-policy+flags-disagree:%s" % ("must-not-speculate" if not case["idempotent"] else "may-speculate"))
            waited = any(s[1] for s in script[:len(answered)]) or case["spec_delay"] == 0.0
            if waited and not case["idempotent"]:
                ctx.label("spec-policy+flags-disagree:must-not-speculate:first-host-slower-than-delay")
    if overlap:
        ctx.label("speculative-overlap-seen")
    if any(e["decision"][0] in ("retry", "next_host") and e["decision"][1] is not None for e in rlog):
        ctx.label("cl-change")
    if any(a in F.CONN_ERRORS for a in answered):
        ctx.label("connection-error")
    ctx.nontrivial(len(rlog) >= 2)


def parts(tier):
    return [
        hyp_part("blocking", lambda: s_case("blocking"), interpret, tier, quick=130, thorough=2000,
                 quick_shards=6, thorough_shards=12),
        hyp_part("locks", lambda: s_case("locks"), interpret, tier, quick=40, thorough=600,
                 quick_shards=2, thorough_shards=4),
    ]
