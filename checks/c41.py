"""C41 -- protocol version negotiation only steps down and terminates."""
from hypothesis import strategies as st

from checks import _simutil as U
from checks import _simctl as S
from sim import wire
from vlib.harness import hyp_part, EnumPart

import os

# the quick tier runs in one process unless VERIF_JOBS asks for more (the box is shared)
SERIAL = os.environ.get("VERIF_TIER") == "quick" and not os.environ.get("VERIF_JOBS")
PID = "C41"
TITLE = "Protocol version negotiation only steps down and terminates"
LEVEL = "exploration"
ENGINE = "sim"
TECHNIQUE = ("exhaustive enumeration of (start version x server version subset x explicit/implicit) plus Hypothesis "
             "histories with several contact points, beta versions and mid-negotiation faults, over the real "
             "Cluster.connect / ControlConnection._try_connect on the simulated network; reference chain as oracle")
RULE = ("A case is: a starting protocol version (any of 1,2,3,4,5,6,0x41,0x42; v6 is beta), configured explicitly "
        "(Cluster(protocol_version=)) or implicitly (attribute default), allow_beta on/off, and 1-3 contact points each "
        "supporting a subset of the 8 versions (2^8), a subset of those as server-side beta, an error-text style "
        "(Cassandra 2.x / 3.x+), a rejection behaviour (ERROR at OPTIONS, SUPPORTED then ERROR at STARTUP, reset, orderly "
        "close, silence), a schedule tape, and optionally a hand-off schedule: at chosen (or all) Event.set() calls the "
        "thread woken by the event runs before the setting thread continues (the interleaving in which "
        "Connection.factory wakes up inside the event loop's error handling).  The base product start x subset x explicit/implicit for one contact point is enumerated completely.  "
        "Observed: the version of the first frame of every connection attempt, the outcome of Cluster.connect(), "
        "Cluster.protocol_version, the versions of all later frames.  Non-trivial: at least one version was rejected by a "
        "server and (implicit) at least one downgrade step or (explicit) the attempt count was checked to be one per "
        "host.  Distinct by case digest.")
ASSUMPTIONS = ["network, clock, executor are simulated (sim/); Cluster, ControlConnection, Connection, pools are the real classes",
               "fake servers answer an unsupported version with a protocol ERROR frame in the highest version they speak "
               "that is not above the request (their lowest otherwise), carrying Cassandra's 2.x or 3.x+ error text",
               "the control connection's host order is fixed (contact points sorted by address)"]

ALL = [1, 2, 3, 4, 5, 6, 0x41, 0x42]
NONBETA_DESC = [0x42, 0x41, 5, 4, 3, 2, 1]       # the driver's documented chain (v6 is beta and never negotiated to)


def chain(start, explicit):
    if explicit:
        return [start]
    return [start] + [v for v in NONBETA_DESC if v < start]


def accepts(node_spec, v, beta_flag):
    return v in node_spec["versions"] and (v not in node_spec["beta"] or beta_flag)


def handler(spec, guard):
    versions = sorted(spec["versions"])

    def on_request(node, conn, req):
        v = req["version"]
        # a negotiation that does not terminate is cut short here (and reported by the attempt bound below):
        # once far more connections were opened than any chain allows, every node refuses new connections
        guard["conns"].add(conn.sim_id)
        if len(guard["conns"]) > guard["limit"]:
            for nd in node.net.nodes.values():
                nd.up = False
            return ("close",)
        if v in spec["versions"]:
            if v in spec["beta"] and not req.get("beta"):
                node.send(conn, v, req["stream"], "ERROR", wire.error_body(
                    v, "protocol", "Beta version of the protocol used (%d/v%d-beta), but USE_BETA flag is unset" % (v, v)))
                return ("drop",)
            if req["op"] == "OPTIONS":
                node.reply(conn, req, "SUPPORTED", wire.supported_body(
                    {"CQL_VERSION": ["3.4.5"], "COMPRESSION": [],
                     "PROTOCOL_VERSIONS": ["%d/v%d" % (x, x) for x in versions]}))
                return ("drop",)
            if req["op"] == "STARTUP":
                node.reply(conn, req, "READY", b"")
                if v in (5, 6):
                    conn.srv_segmented = True
                return ("drop",)
            return None
        # a version this server does not speak
        how = spec["reject"]
        if how == "close":
            return ("close",)
        if how == "eof":
            node.net.server_close(conn, eof=True)      # orderly close: the reactor calls close(), not defunct()
            return ("drop",)
        if how == "silence":
            return ("drop",)
        if how == "startup" and req["op"] == "OPTIONS":
            node.reply(conn, req, "SUPPORTED", wire.supported_body(
                {"CQL_VERSION": ["3.4.5"], "COMPRESSION": [], "PROTOCOL_VERSIONS": ["%d/v%d" % (x, x) for x in versions]}))
            return ("drop",)
        if versions:
            low = [x for x in versions if x <= v]
            rv = max(low) if low else min(versions)
        else:
            rv = v
        if spec["text"] == "old":
            msg = "Invalid or unsupported protocol version: %d" % v
        else:
            msg = "Invalid or unsupported protocol version (%d); supported versions are (%s)" % (
                v, ", ".join("%d/v%d%s" % (x, x, "-beta" if x in spec["beta"] else "") for x in versions))
        stream = req["stream"] if (rv >= 3 or -128 <= req["stream"] < 128) else 0
        node.send(conn, rv, stream, "ERROR", wire.error_body(rv, "protocol", msg))
        return ("drop",)
    return on_request


def interpret(case, ctx):
    sim = U.Sim(tape=case.get("tape", []), granularity="blocking", max_steps=20000)
    try:
        with sim:
            restore = None
            if case.get("handoff"):
                # the thread waiting in Connection.factory runs right after connected_event.set(), before the event
                # loop thread executes its next statement
                restore, hstats = S.handoff_events(sim, case["handoff"])
            try:
                _run(case, ctx, sim)
            finally:
                if restore is not None:
                    restore()
                    ctx.label("handoff-at-event-set" if hstats["handoffs"] else "handoff-unused")
    except U.StepBudgetExceeded:
        # termination is what the property promises
        ctx.fail(["C41.terminates", "step-budget"], "negotiation did not terminate within the step budget")


def _run(case, ctx, sim):
    import cassandra.cluster as C
    from cassandra.cluster import EXEC_PROFILE_DEFAULT, ExecutionProfile
    start, explicit, allow_beta = case["start"], case["explicit"], case["allow_beta"]
    nodes = case["nodes"]
    addrs = ["10.0.0.%d" % (i + 1) for i in range(len(nodes))]
    guard = {"conns": set(), "limit": 4 * (len(ALL) + len(nodes)) + 8}
    for a, spec in zip(addrs, nodes):
        n = S.fix_legacy_rows(sim.net.add_node(a, versions=tuple(spec["versions"])))
        n.on_request = handler(spec, guard)
    prof = ExecutionProfile(load_balancing_policy=U.fixed_plan_policy())
    from cassandra.policies import ConstantReconnectionPolicy
    # (the default exponential policy draws jitter from `random`; a constant schedule keeps the history deterministic)
    kw = dict(execution_profiles={EXEC_PROFILE_DEFAULT: prof}, allow_beta_protocol_version=allow_beta,
              reconnection_policy=ConstantReconnectionPolicy(1.0))
    if explicit:
        cluster = sim.make_cluster(addrs, protocol_version=start, **kw)
    else:
        cluster = sim.make_cluster(addrs, protocol_version=C._NOT_SET, **kw)
        cluster.protocol_version = start
    if cluster._protocol_version_explicit != explicit:
        raise AssertionError("harness: explicit flag not as configured")
    session, exc = None, None
    try:
        session = sim.call(cluster.connect, wait_for_all_pools=True)
    except U.Deadlock:
        ctx.fail(["C41.terminates", "hang"], "Cluster.connect() neither returned nor raised")
        return
    except Exception as e:  # noqa -- "gives up with an error"
        exc = e
    sim.settle()
    if session is not None:
        # let the reconnectors of hosts that failed during the negotiation have a go
        sim.advance(2.5)
        sim.settle()

    # ---- attempts of the control connection: first frame of every connection, in order
    first = {}
    order = []
    for (node, conn, req) in sim.net.requests:
        if conn.sim_id not in first:
            first[conn.sim_id] = (node.address, req["version"], conn.is_control_connection, req)
            order.append(conn.sim_id)
    ctrl = [first[i] for i in order if first[i][2]]
    other = [first[i] for i in order if not first[i][2]]

    # ---- reference: walk hosts in address order, the version state persists across hosts
    ch = chain(start, explicit)
    exp_attempts = []
    cur = start
    negotiated = None
    for a, spec in zip(addrs, nodes):
        done = False
        while True:
            exp_attempts.append((a, cur))
            if accepts(spec, cur, allow_beta):
                negotiated = cur
                done = True
                break
            rejected_cleanly = cur in spec["versions"] or spec["reject"] in ("options", "startup")
            # (a version the server speaks but treats as beta is always answered with the beta ERROR)
            if not rejected_cleanly or explicit:
                break                    # not a version rejection (or not allowed to move): this host failed
            lower = [v for v in NONBETA_DESC if v < cur]
            if not lower:
                break                    # lowest version failed: give up on this host
            cur = lower[0]
        if done:
            break

    seen = [(a, v) for (a, v, _c, _r) in ctrl]
    vs = [v for (_a, v) in seen]
    # 1. never steps up
    for i in range(1, len(vs)):
        if vs[i] > vs[i - 1]:
            ctx.fail(["C41.step-up", "explicit" if explicit else "implicit"], "attempted versions %r: step up at %d" % (vs, i))
            break
    # 2. explicit: only that version
    if explicit and any(v != start for v in vs):
        ctx.fail(["C41.explicit-downgraded"], "explicit version %d but attempts used %r" % (start, vs))
    # 3. each step is the next lower non-beta supported version, only below the start, never below the minimum
    for i in range(1, len(vs)):
        if vs[i] < vs[i - 1]:
            lower = [v for v in NONBETA_DESC if v < vs[i - 1]]
            if not lower or vs[i] != lower[0]:
                ctx.fail(["C41.step", "not-next-lower", "%d->%d" % (vs[i - 1], vs[i])],
                         "attempted versions %r: %d is not the next lower non-beta version after %d" % (vs, vs[i], vs[i - 1]))
                break
    if any(v not in ALL for v in vs):
        ctx.fail(["C41.step", "unknown-version"], "attempted versions %r" % (vs,))
    # 4. bounded number of attempts
    bound = len(ch) + len(nodes) - 1
    if len(vs) > bound:
        ctx.fail(["C41.terminates", "too-many-attempts"], "%d attempts %r; chain %r over %d hosts allows %d" % (
            len(vs), vs, ch, len(nodes), bound))
    # 5. the exact history
    if seen != exp_attempts and not ctx._failures:
        ctx.fail(["C41.history", "explicit" if explicit else "implicit",
                  "fewer" if len(seen) < len(exp_attempts) else ("more" if len(seen) > len(exp_attempts) else "different")],
                 "control connection attempts %r, reference %r" % (seen, exp_attempts))
    # 6. outcome
    if negotiated is not None:
        if exc is not None:
            ctx.fail(["C41.outcome", "failed-although-supported", type(exc).__name__],
                     "a server accepts v%d on the chain %r but connect raised %r" % (negotiated, ch, exc))
        else:
            if cluster.protocol_version != negotiated:
                ctx.fail(["C41.outcome", "cluster-version"], "negotiated %d but Cluster.protocol_version is %r" % (
                    negotiated, cluster.protocol_version))
            # every connection opened once the negotiation is over uses the negotiated version; those opened while it
            # was still going on (reconnection attempts to contact points that failed) use a version of the chain, and
            # over all connections the version never goes up again
            last_ctrl = [i for i in order if first[i][2]][-1]
            pos = order.index(last_ctrl)
            failed_before = set(a for (a, v, c, _r) in [first[i] for i in order[:pos]] if c)
            after = [(first[i][0], first[i][1]) for i in order[pos + 1:]]
            bad = [(a, v) for (a, v) in after if v != negotiated]
            if bad:
                up = any(v > negotiated for (_a, v) in bad)
                who = "host-that-failed-during-negotiation" if all(a in failed_before for (a, _v) in bad) else "any-host"
                ctx.fail(["C41.after", "pool-version", "up" if up else "down", who],
                         "after negotiating v%d connections were opened with %r (all connections in order: %r)" % (
                             negotiated, bad, [(first[i][0], first[i][1]) for i in order]))
            else:
                allv = set(r["version"] for (_n, c, r) in sim.net.requests if c.sim_id >= last_ctrl)
                if allv - {negotiated}:
                    ctx.fail(["C41.after", "frame-version"], "frames with versions %r after negotiating %d" % (sorted(allv), negotiated))
            allseq = [first[i][1] for i in order[:pos + 1]]
            for j in range(1, len(allseq)):
                if allseq[j] > allseq[j - 1]:
                    ctx.fail(["C41.step-up", "during-negotiation"], "connection versions in order %r" % (allseq,))
                    break
    else:
        if exc is None:
            ctx.fail(["C41.outcome", "connected-without-support"], "no server accepts a version of %r but connect returned" % (ch,))
        elif not cluster.is_shutdown:
            ctx.fail(["C41.outcome", "not-shut-down"], "connect raised %r but the cluster was left running" % (exc,))
    if session is not None:
        sim.call(cluster.shutdown)
    for nm, e in sim.world.actor_errors:
        ctx.fail(["C41.thread-error", type(e).__name__], "virtual thread %s died with %r" % (nm, e))
        break
    rejected = len(exp_attempts) - (1 if negotiated is not None else 0)
    steps = sum(1 for i in range(1, len(vs)) if vs[i] < vs[i - 1])
    ctx.label("start=%d" % start, "explicit" if explicit else "implicit", "outcome=" + ("ok" if exc is None else type(exc).__name__),
              "steps=%d" % steps, "hosts=%d" % len(nodes))
    if allow_beta:
        ctx.label("allow_beta")
    ctx.nontrivial(rejected >= 1 and (explicit or steps >= 1))


# ------------------------------------------------------------------ enumeration: the base product
def enum_chunks():
    out = []
    for start in ALL:
        for explicit in (True, False):
            out.append({"start": start, "explicit": explicit, "allow_beta": start == 6})
    out.append({"start": 6, "explicit": True, "allow_beta": False})
    out.append({"start": 6, "explicit": False, "allow_beta": False})
    return out


def enum_cases(chunk):
    for mask in range(256):
        versions = [v for i, v in enumerate(ALL) if mask >> i & 1]
        yield {"start": chunk["start"], "explicit": chunk["explicit"], "allow_beta": chunk["allow_beta"],
               "nodes": [{"versions": versions, "beta": [6] if 6 in versions else [], "text": "new", "reject": "options"}]}


# ------------------------------------------------------------------ histories
@st.composite
def s_node(draw):
    versions = draw(st.one_of(
        st.sampled_from([[3, 4], [3, 4, 5], [1, 2, 3], [1, 2], [4, 5, 6], [3, 4, 0x41], [3, 4, 0x41, 0x42], [5], [1], []]),
        st.lists(st.sampled_from(ALL), unique=True, max_size=8).map(sorted)))
    beta = [6] if 6 in versions else []
    if versions and draw(st.integers(0, 3)) == 0:
        top = max(v for v in versions)
        if top not in beta and draw(st.booleans()):
            beta.append(top)           # e.g. Cassandra 3.x: 5/v5-beta
    return {"versions": versions, "beta": sorted(beta), "text": draw(st.sampled_from(["new", "old"])),
            "reject": draw(st.sampled_from(["options"] * 5 + ["startup", "startup", "close", "eof", "silence"]))}


@st.composite
def s_case(draw):
    start = draw(st.sampled_from(ALL + [0x42, 0x42, 5, 4]))
    return {"start": start, "explicit": draw(st.sampled_from([False, False, True])),
            "allow_beta": draw(st.sampled_from([False, False, True])),
            "nodes": draw(st.lists(s_node(), min_size=1, max_size=3)),
            "tape": draw(st.lists(st.integers(0, 3), max_size=6)),
            "handoff": draw(st.sampled_from([None, None, "all", "all", "bits"])) and draw(
                st.one_of(st.just("all"), st.lists(st.integers(0, 1), min_size=1, max_size=12)))}


def handoff_cases(chunk):
    """negotiations in which the waiter of every Event.set() runs before the setter continues"""
    subsets = [[1], [3], [3, 4], [4, 5], [1, 2, 3], [3, 4, 0x41], [5, 6], [], [2, 5], [0x41, 0x42]]
    for versions in subsets:
        for reject, text in (("options", "new"), ("options", "old"), ("startup", "new")):
            for explicit in (False, True):
                yield {"start": chunk["start"], "explicit": explicit, "allow_beta": False, "handoff": "all", "tape": [],
                       "nodes": [{"versions": versions, "beta": [6] if 6 in versions else [], "text": text, "reject": reject}]}
    for versions in ([3, 4], [1]):
        yield {"start": chunk["start"], "explicit": False, "allow_beta": False, "handoff": "all", "tape": [],
               "nodes": [{"versions": [], "beta": [], "text": "new", "reject": "close"},
                         {"versions": versions, "beta": [], "text": "new", "reject": "options"}]}


def parts(tier):
    return [
        EnumPart("base-product", enum_chunks(), enum_cases, interpret),
        EnumPart("handoff", [{"start": v} for v in ALL], handoff_cases, interpret),
        hyp_part("histories", s_case, interpret, tier, quick=100, thorough=2500, quick_shards=6, thorough_shards=16),
    ]
