"""C23 -- built-in retry policies make bounded, consistency-safe decisions."""
import itertools
import os
import warnings

from spec import retry as R
from vlib.harness import EnumPart

PID = "C23"
TITLE = "Built-in retry policies make bounded, consistency-safe decisions"
LEVEL = "exploration"
ENGINE = "models"
TECHNIQUE = "exhaustive enumeration of the bounded failure-description space against documented decision tables"
RULE = ("Full product policy {RetryPolicy, Fallthrough, NeverRetry, DowngradingConsistency} x method {on_read_timeout, "
        "on_write_timeout, on_unavailable, on_request_error} x consistency (all 11 levels) x required 1..N x "
        "received/alive 0..N x data_retrieved x write type (all 8) x retry_num 0..3 (N=5 quick, 8 thorough), restricted to "
        "descriptions a coordinator can report (spec.retry.reportable: received<required for write timeouts and "
        "unavailable; fixed-count levels report at least their own count as required -- more only for writes with pending "
        "replicas; ANY only for write timeouts; serial levels only for reads, CAS writes and unavailable).  The policy "
        "methods are called with keyword arguments exactly as ResponseFuture._set_result does.  Every tuple is a distinct "
        "case; non-trivial: the documentation allows something other than RETHROW for it, or it is the first repeated "
        "attempt (retry_num=1), or the level is serial.")
ASSUMPTIONS = ["spec.retry transcribes the class/method docstrings of cassandra/policies.py; where the prose is loose every "
               "reading is accepted (listed in the module docstring of spec/retry.py)",
               "(RETRY, None) and (RETRY, requested level) are the same outcome ('None to keep the same consistency level'); "
               "the second item of RETHROW/IGNORE results is not judged",
               "NeverRetryPolicy.on_request_error has no documentation and is only checked for well-formedness"]
LEVEL_TEXT = ("every failure description in the bounded domain has been evaluated (exhaustive); descriptions with counts "
              "above the bound are not covered")

# the quick tier is a few CPU-seconds; forking a worker pool costs more than it saves (and far more on a
# loaded machine)
SERIAL = os.environ.get("VERIF_TIER") == "quick"

_POLICY_CLASS = {"default": "RetryPolicy", "fallthrough": "FallthroughRetryPolicy", "never": "NeverRetryPolicy",
                 "downgrading": "DowngradingConsistencyRetryPolicy"}
_RETRY_NUMS = (0, 1, 2, 3)


def _chunks(tier):
    n = 5 if tier == "quick" else 8
    return [{"policy": p, "method": m, "max": n} for p in R.POLICIES for m in R.METHODS]


def _cases(chunk):
    p, m, n = chunk["policy"], chunk["method"], chunk["max"]
    if m == "request_error":
        for cl, err, rn in itertools.product((None,) + R.LEVELS, R.ERRORS, _RETRY_NUMS):
            yield {"policy": p, "method": m, "cl": cl, "error": err, "retry_num": rn}
        return
    datas = (False, True) if m == "read_timeout" else (None,)
    wts = R.WRITE_TYPES if m == "write_timeout" else (None,)
    for cl, req, got, data, wt, rn in itertools.product(R.LEVELS, range(1, n + 1), range(0, n + 1), datas, wts,
                                                        _RETRY_NUMS):
        t = {"policy": p, "method": m, "cl": cl, "required": req, "received": got, "retry_num": rn}
        if data is not None:
            t["data"] = data
        if wt is not None:
            t["wt"] = wt
        if R.reportable(m, t):
            yield t


def _error(kind):
    from cassandra import protocol as P
    from cassandra.connection import ConnectionException, ConnectionShutdown
    if kind == "overloaded":
        return P.OverloadedErrorMessage(code=0x1001, message="overloaded", info=None)
    if kind == "bootstrapping":
        return P.IsBootstrappingErrorMessage(code=0x1002, message="bootstrapping", info=None)
    if kind == "truncate":
        return P.TruncateError(code=0x1003, message="truncate", info=None)
    if kind == "server":
        return P.ServerError(code=0x0000, message="boom", info=None)
    if kind == "connection_shutdown":
        return ConnectionShutdown("connection closed")
    return ConnectionException("connection defunct")


_POLICIES = {}


def _policy(name):
    # policies are stateless; one instance per process is what Cluster does as well
    pol = _POLICIES.get(name)
    if pol is None:
        import cassandra.policies as P
        with warnings.catch_warnings():
            warnings.simplefilter("ignore")
            pol = getattr(P, _POLICY_CLASS[name])()
        _POLICIES[name] = pol
    return pol


def interpret(case, ctx):
    from cassandra import ConsistencyLevel, WriteType
    from cassandra.query import SimpleStatement
    pname, method = case["policy"], case["method"]
    cl_name = case["cl"]
    cl = None if cl_name is None else getattr(ConsistencyLevel, cl_name)
    rn = case["retry_num"]
    query = SimpleStatement("SELECT v FROM ks.t WHERE k=0", consistency_level=cl)
    sub = "C23.%s.%s" % (pname, method)
    res = None
    with ctx.driver([sub]):
        pol = _policy(pname)
        if method == "read_timeout":
            res = pol.on_read_timeout(query, retry_num=rn, consistency=cl, required_responses=case["required"],
                                      received_responses=case["received"], data_retrieved=case["data"])
        elif method == "write_timeout":
            res = pol.on_write_timeout(query, retry_num=rn, consistency=cl,
                                       write_type=getattr(WriteType, case["wt"]),
                                       required_responses=case["required"], received_responses=case["received"])
        elif method == "unavailable":
            res = pol.on_unavailable(query, retry_num=rn, consistency=cl, required_replicas=case["required"],
                                     alive_replicas=case["received"])
        else:
            res = pol.on_request_error(query, cl, error=_error(case["error"]), retry_num=rn)
    if ctx._failures:
        return
    dec_names = {pol.RETRY: R.RETRY, pol.RETHROW: R.RETHROW, pol.IGNORE: R.IGNORE, pol.RETRY_NEXT_HOST: R.RETRY_NEXT_HOST}
    ok = (isinstance(res, tuple) and len(res) == 2 and isinstance(res[0], int) and not isinstance(res[0], bool)
          and res[0] in dec_names
          and (res[1] is None or (isinstance(res[1], int) and res[1] in ConsistencyLevel.value_to_name)))
    if not ctx.check(ok, ["C23.shape", pname, method], "not a (decision, consistency-or-None) pair: %r" % (res,)):
        return
    lvl = None if res[1] is None else ConsistencyLevel.value_to_name[res[1]]
    outcome = R.normalise(dec_names[res[0]], lvl, cl_name)

    t = dict(case)
    if method == "request_error":
        t.update(required=0, received=0)
    uni = R.universal(pname, method, t, outcome)
    for clause, feats, msg in uni:
        ctx.fail(["C23.%s" % clause] + feats, "%s: %s -> %r" % (msg, _fmt(case), outcome))
    allowed = R.allowed(pname, method, t)
    if allowed is not None and not uni:
        if outcome not in allowed:
            ctx.fail(["C23.documented", pname, method, "got=%s" % outcome[0]],
                     "%s -> %r, documented: %s" % (_fmt(case), outcome, sorted(allowed, key=repr)))
    ctx.label(pname, method, "out:%s" % outcome[0])
    if outcome[0] == R.RETRY and outcome[1] != cl_name:
        ctx.label("downgrade:%s" % outcome[1])
    nt = (allowed is not None and any(d != R.RETHROW for d, _ in allowed)) or rn == 1 or cl_name in R.SERIAL_LEVELS
    ctx.nontrivial(nt)


def _fmt(case):
    return " ".join("%s=%s" % (k, case[k]) for k in ("policy", "method", "cl", "wt", "required", "received", "data",
                                                     "error", "retry_num") if k in case)


def parts(tier):
    return [EnumPart("table", _chunks(tier), _cases, interpret)]
