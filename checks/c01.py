"""C01 -- every CQL value survives an encode/decode round trip (driver against its own inverse)."""
import os

from hypothesis import strategies as st

from vlib.harness import EnumPart, hyp_part
from spec import values as V
from checks import _drv

V.self_test()

PID = "C01"
TITLE = "Every CQL value survives an encode/decode round trip"
LEVEL = "exploration"
ENGINE = "codec"
TECHNIQUE = ("property-based testing (Hypothesis): generated (type tree, value, protocol version) triples are pushed through the "
             "driver's Type.to_binary and Type.from_binary; the inverse is the oracle, equality is decided on an independent "
             "tagged-value form (spec.values.normalise/canon); collection framing limits (element sizes and counts in the upper half of "
             "the 16-bit range of protocol v1/v2, and across 2^16 on v3+) are reached by construction from exactly sized elements")
RULE = ("Hypothesis draws a type tree (depth drawn first from 0..3, 0..4 in the thorough tier; leaves = all 21 scalar CQL types; inner "
        "nodes list/set/map/tuple/UDT/vector/frozen/reversed; set elements and map keys restricted to orderable/hashable types), a "
        "value built by construction for that tree (boundary-weighted integers +-2^k+-1, varints up to 2^320, decimals with exponents "
        "to +-400 and the int32 scale limits, float specials, non-BMP/NUL text, ms timestamps over years 1-9999, dates over the whole "
        "uint32 range, times, same-sign durations over int32/int32/int64, inet v4/v6, null elements/fields, empty collections, short "
        "tuples), a protocol version from {1,2,3,4,5,6,0x41,0x42}, one of five Python input styles (canonical / stdlib alternates / "
        "driver containers and raw ints / timezone-aware datetimes with fixed offsets such as +05:30, +14:00, -12:00 / alternate "
        "spellings: datetime.datetime with a time of day or 'yyyy-mm-dd' for a date, 'HH:MM:SS.n' for a time, datetime.date or float for a "
        "timestamp, int or numeric string for a decimal) and the way the type class is built (apply_parameters or lookup_casstype of the class-name "
        "string).  Non-trivial: tree depth >= 2, or the value is in a boundary class (integer at +-2^k+-1, varint >= 64 bit, non-BMP "
        "text, null inside a container, empty collection, protocol <= 2 with a top-level collection, timestamp outside 1970-2038, "
        "short tuple, float special, date beyond datetime.date, a timezone-aware datetime input).  Part vint-size-boundaries enumerates vectors "
        "(dimension 1-3) of variable-width element types with one element whose encoding is exactly 0, 1, 126..129, 255, 256, "
        "16383..16385 or about 2^21 bytes.  Part input-spellings enumerates every accepted python spelling of date, time and timestamp values "
        "over 22 boundary days on both sides of the epoch x 5 times of day x 5 embeddings.  Part framing-boundaries (Hypothesis) draws a "
        "collection embedding (list / set / map key / map value / frozen list / reversed set / list or map directly below a vector), a "
        "protocol version (half of the draws v1/v2, whose collections carry unsigned 16-bit counts and lengths; the rest v3-v5/DSE "
        "with signed 32-bit ones) and either one element of an exactly sized encoding (text/ascii/blob/varint/decimal/tuple/nested "
        "list, set, map; size drawn from 2^k+-2 for k in 7,8,14,15,16, from 0..65535 uniformly or from 32768..65535; 1-3 elements with the "
        "sized one at a drawn position, so that a mis-read length also derails the elements after it) or (one draw in 40) an element COUNT drawn the "
        "same way (distinct ints); sizes and counts are clamped to what the framing can express (65535 on v1/v2).  Non-trivial there: "
        "16-bit framing in use, or the size/count is >= 2^15 or within 2 of 2^7, 2^8, 2^14, 2^15, 2^16.  Distinctness by case digest.")
ASSUMPTIONS = [
    "float values are float32-representable; timestamps are naive or fixed-offset aware datetimes (or ints) with millisecond precision inside datetime's range; aware datetimes must come back as the naive UTC datetime of the same instant",
    "set elements / map keys are types the driver documents as orderable/serializable keys, contain no nulls and no NaN",
    "a top-level None is only checked as the documented b''<->None convention (part 'null'); support_empty_values is left off",
    "counter appears only as a top-level type; vectors have dimension >= 1 and non-null elements",
    "a null element of a top-level collection on protocol v1/v2 (16-bit lengths) has no representation and is outside the domain",
    "on protocol v1/v2 a collection element longer than 65535 bytes or a collection of more than 65535 elements has no representation and is outside the domain; every size/count up to 65535 is legal (the driver writes them with uint16_pack) and must come back",
    "framing-boundaries keeps varint/decimal elements <= 1024 bytes (python's int<->str limit in the reference form); a larger drawn size turns the element into text/ascii/blob (tuple/list/set/map elements take any size)",
]
# the quick tier is ~15 s of single-core work; forking workers costs more than it saves
SERIAL = os.environ.get("VERIF_TIER") == "quick"
LEVEL_TEXT = ("sampled search: no counterexample among the generated triples; not a proof over all values")


def s_roundtrip_quick():
    return _drv.codec_cases(3)


def s_roundtrip_thorough():
    return _drv.codec_cases(4)


def _nontrivial(tree, feats):
    return V.depth(tree) >= 2 or bool(feats & {
        "int-boundary", "varint>=64bit", "non-bmp", "null-inside", "empty-collection", "v2-toplevel-collection",
        "ts-outside-1970-2038", "short-tuple", "float-special", "date-beyond-pydate", "decimal-big-exp", "duration-boundary",
        "long>=128B", "aware-datetime", "alt-spelling"})


def _diff_key(sub, d, tree):
    if d["kind"] == "null-as-empty":
        # where the null lived decides the root cause: collections write nulls through to_binary(None)
        return [sub, "null-as-empty", "collection" if d["parent"] in ("list", "set", "map") else str(d["parent"])]
    if d["kind"] == "empty-as-null":
        return [sub, "empty-as-null", tree["t"] if tree["t"] in ("reversed", "frozen") and not d["path"] else "inner"]
    return [sub, d["leaf"], d["kind"]]


def _set_under_vector(tree):
    if tree["t"] == "vector" and V.contains(tree["of"], "set"):
        return True
    return any(_set_under_vector(c) for c in V.children(tree))


def _map_lookup_problems(tree, obj, pv, out, top=True):
    """'maps come back as ordered maps': every decoded key must find its own value again (that is also what
    Mapping.items()/values() and re-serialisation of the decoded map rely on)"""
    if obj is None or len(out) > 2:
        return
    t = tree["t"]
    if t in ("frozen", "reversed"):
        return _map_lookup_problems(tree["of"], obj, pv, out, top)
    if t in V.SCALARS:
        return
    if t == "map":
        pairs = list(getattr(obj, "_items", []))
        has_coll = any(V.contains(tree["k"], c) for c in ("list", "set", "map"))
        if V.contains(tree["k"], "set"):
            # indexed under the sender's element order, looked up under the re-sorted one (any protocol version;
            # the historical key name is kept)
            feat = ["set-in-key", "under-vector" if _set_under_vector(tree["k"]) else "v3-format"]
        elif top and pv < 3 and has_coll:
            feat = ["collection-key", "top-level-pv<3"]
        else:
            feat = ["scalar-key" if V.core(tree["k"])["t"] in V.SCALARS else ("collection-key" if has_coll else "composite-key"),
                    "top-level-pv<3" if (top and pv < 3) else "v3-format"]
        for k, v in pairs:
            try:
                found = obj[k]
                ok = found is v or found == v or (found != found and v != v)
            except KeyError:
                ok = False
            if not ok:
                out.append((["C01.map.lookup"] + feat,
                            "decoded map<%s, ...> cannot look up its own key %r" % (V.cql_name(tree["k"]), k)))
                break
        for k, v in pairs:
            _map_lookup_problems(tree["k"], k, pv, out, False)
            _map_lookup_problems(tree["v"], v, pv, out, False)
    elif t in ("list", "set"):
        for x in obj:
            _map_lookup_problems(tree["of"], x, pv, out, False)
    elif t == "vector":
        # VectorType hands the protocol version to its element type unchanged
        for x in obj:
            _map_lookup_problems(tree["of"], x, pv, out, top)
    else:
        subs = tree["of"] if t == "tuple" else [f[1] for f in tree["fields"]]
        for sub, x in zip(subs, obj):
            _map_lookup_problems(sub, x, pv, out, False)


def interpret_roundtrip(case, ctx):
    tree, value, pv, style, via = case["tree"], case["value"], case["pv"], case["style"], case["via"]
    shp = _drv.shape(tree)
    feats = _drv.label_case(ctx, tree, value, pv)
    ctx.label("style:%d" % style, "via:" + via)
    if style == 3 and "timestamp" in V.leaves(tree) and V.contains_value(tree, value, "timestamp"):
        feats = feats | {"aware-datetime"}
        ctx.label("f:aware-datetime")
    for sp in sorted(V.spelling_features(tree, value, style)):
        feats = feats | {"alt-spelling"}
        ctx.label("f:" + sp)
    if _drv.null_in_16bit_collection(tree, value, pv):
        # no representation exists: outside the domain (whether the driver should raise here is not C01's business)
        ctx.label("skip:null-in-v1/v2-16bit-collection")
        return
    with ctx.driver(["C01.build", via, V.core(tree)["t"]]):
        typ = _drv.build_type(tree, via)
    if ctx._failures:
        return
    with ctx.driver(["C01.construct", shp]):
        obj = _drv.to_driver(tree, value, style)
    if ctx._failures:
        return
    with ctx.driver(["C01.encode", shp]):
        data = typ.to_binary(obj, pv)
    if ctx._failures:
        return
    if not ctx.check(type(data) is bytes, ["C01.encode.type", shp], "to_binary returned %s" % type(data).__name__):
        return
    with ctx.driver(["C01.decode", shp]):
        back = typ.from_binary(data, pv)
    if ctx._failures:
        return
    got = None
    try:
        with ctx.driver(["C01.readback", shp], expect=(V.NormaliseError,)):
            got = _drv.from_driver(tree, back)
    except V.NormaliseError as e:
        ctx.fail(["C01.type", shp], "decoded value has the wrong python type: %s" % e)
    if ctx._failures:
        return
    ctx.nontrivial(_nontrivial(tree, feats))
    ds = V.diffs(tree, value, got)
    seen = set()
    for d in ds:
        k = _diff_key("C01.roundtrip", d, tree)
        if tuple(k) in seen:
            continue
        seen.add(tuple(k))
        ctx.fail(k, "%s pv=%d: at %r sent %r, decoded %r" % (V.cql_name(tree), pv, d["path"], d["a"], d["b"]))
    if ds:
        return
    for kind, msg in _drv.shape_problems(tree, back):
        ctx.fail(["C01.shape", kind], msg)
    if V.contains(tree, "map"):
        probs = []
        with ctx.driver(["C01.map.lookup", "raises"]):
            _map_lookup_problems(tree, back, pv, probs)
        for k, msg in probs:
            ctx.fail(k, msg)
        if probs or ctx._failures:
            return
    # second direction: what came back encodes to the same bytes again (sets: after one normalisation)
    with ctx.driver(["C01.reencode", shp]):
        data2 = typ.to_binary(back, pv)
    if ctx._failures:
        return
    if not V.contains(tree, "set") and "short-tuple" not in feats:
        ctx.check(data2 == data, ["C01.reencode.stable", shp],
                  "%s pv=%d: decoded value re-encodes differently: %s -> %s" % (V.cql_name(tree), pv, data.hex()[:80], data2.hex()[:80]))
    else:
        ctx.label("reencode:normalised-once")
        with ctx.driver(["C01.reencode", shp]):
            back2 = typ.from_binary(data2, pv)
            data3 = typ.to_binary(back2, pv)
            got2 = _drv.from_driver(tree, back2)
        if ctx._failures:
            return
        # (a set of sets is ordered by the partial order "subset", so only the size is stable there)
        stable = (data3 == data2) if not V.contains(tree, "set") else (len(data3) == len(data2) and len(data2) == len(data) or "short-tuple" in feats)
        ctx.check(stable, ["C01.reencode.stable", shp], "%s pv=%d: re-encoding is not stable" % (V.cql_name(tree), pv))
        ctx.check(V.same(tree, value, got2), ["C01.reencode.value", shp], "value changed on the second round trip")


# --- the documented null convention, exhaustive over a fixed list of types x protocol versions -----------------

_NULL_TREES = [V.T(s) for s in V.SCALARS] + [
    V.t_list(V.T("int")), V.t_set(V.T("text")), V.t_map(V.T("text"), V.T("int")), V.t_tuple([V.T("int"), V.T("text")]),
    V.t_udt("ks", "Type_2", [["a", V.T("int")]]), V.t_frozen(V.t_list(V.T("int"))), V.t_reversed(V.T("int")),
]


def null_cases(chunk):
    for tree in _NULL_TREES:
        yield {"tree": tree, "pv": chunk}


def interpret_null(case, ctx):
    tree, pv = case["tree"], case["pv"]
    shp = _drv.shape(tree)
    with ctx.driver(["C01.build", "direct", V.core(tree)["t"]]):
        typ = _drv.build_type(tree)
    if ctx._failures:
        return
    with ctx.driver(["C01.null", shp]):
        enc = typ.to_binary(None, pv)
        dec = typ.from_binary(None, pv)
        dec_empty = typ.from_binary(b"", pv)
    if ctx._failures:
        return
    ctx.check(enc == b"", ["C01.null.encode", shp], "to_binary(None) = %r" % (enc,))
    ctx.check(dec is None, ["C01.null.decode", shp], "from_binary(None) = %r" % (dec,))
    core_t = V.core(tree)["t"]
    allowed = {"ascii": "", "text": "", "varchar": "", "blob": b""}
    if core_t in allowed:
        ctx.check(dec_empty == allowed[core_t] and type(dec_empty) is type(allowed[core_t]), ["C01.null.empty", shp],
                  "from_binary(b'') = %r" % (dec_empty,))
    else:
        ctx.check(dec_empty is None, ["C01.null.empty", shp], "from_binary(b'') = %r" % (dec_empty,))
    ctx.label("null-convention")
    ctx.nontrivial(True)


def interpret_vint_size(case, ctx):
    """round trip of vectors whose variable-width element sits on an unsigned-vint size boundary"""
    tree, value = _drv.vsb_build(case)
    pv, feat = case["pv"], "size=%d" % case["size"]
    ctx.label("vint-size-boundary", "vsb:" + case["etype"])
    ctx.nontrivial(True)
    got = None
    try:
        with ctx.driver(["C01.roundtrip.raises", "vector-element-size", feat], expect=(V.NormaliseError,)):
            typ = _drv.build_type(tree)
            got = _drv.from_driver(tree, typ.from_binary(typ.to_binary(_drv.to_driver(tree, value, 0), pv), pv))
    except V.NormaliseError as e:
        ctx.fail(["C01.type", "vector-element-size", feat], str(e)[:300])
    if not ctx._failures:
        ctx.check(V.same(tree, value, got), ["C01.roundtrip", "vector-element-size", feat],
                  "%s with an element of %d bytes does not survive the round trip" % (V.cql_name(tree), case["size"]))


# --- collection framing boundaries: element sizes / element counts around 2^7, 2^8, 2^15, 2^16 --------------------
# Protocol v1/v2 frame the elements of a top-level collection (and of a collection directly below a vector,
# which hands the protocol version on unchanged) with unsigned 16-bit counts and lengths; v3+ uses signed
# 32-bit ones.  The typed_values generator never builds an element larger than a few hundred bytes or a
# collection of more than a handful of elements, so the upper half of the 16-bit range (where a signed and
# an unsigned reading part ways) has to be reached by construction.

FB_EMBEDS = ("list", "set", "map-key", "map-value", "frozen-list", "reversed-set", "vector-of-list", "vector-of-map")
FB_ETYPES = ("text", "ascii", "blob", "varint", "decimal", "tuple", "list", "set", "map")
_FB_HASHABLE = ("text", "ascii", "blob", "varint", "decimal", "tuple")      # what may sit in a set / be a map key
_FB_EDGES = tuple(sorted({(1 << k) + d for k in (7, 8, 14, 15, 16) for d in (-2, -1, 0, 1, 2)} | {0, 1, 4, 40000, 50000, 65000}))
_FB_MAX16 = 0xFFFF
_FB_MIN_SIZE = {"decimal": 5, "map": 16, "list": 8, "set": 8, "tuple": 4, "varint": 1}
_FB_MAX_SIZE = {"decimal": 1024, "varint": 1024}        # (python refuses int<->str beyond 4300 digits)


def _fb_fix(embed, etype, size, n, pos, pv, mode, count):
    """make the drawn tuple a legal case by construction (no filtering): hashable element types where the
    embedding needs them, sizes / counts the 16-bit framing of v1/v2 can express, sizes the element type has"""
    if embed in ("set", "map-key", "reversed-set", "vector-of-map") and etype not in _FB_HASHABLE:
        etype = _FB_HASHABLE[FB_ETYPES.index(etype) % 3]                        # -> text / ascii / blob
    limit = _FB_MAX16 if pv < 3 else (1 << 16) + 2
    if mode == "count":
        if pv >= 3 and pos:
            pv, limit = 1 + n % 2, _FB_MAX16        # a count near 2^15/2^16 says little under 32-bit framing: mostly v1/v2
        return {"mode": "count", "embed": embed, "count": min(count, limit), "pv": pv}
    size = min(size, limit)
    if size > _FB_MAX_SIZE.get(etype, limit):
        etype = _FB_HASHABLE[FB_ETYPES.index(etype) % 3]                        # no value that large: text / ascii / blob
    size = max(size, _FB_MIN_SIZE.get(etype, 0))
    return {"mode": "size", "embed": embed, "etype": etype, "size": size, "n": n, "pos": pos % n, "pv": pv}


def s_framing():
    sizes = st.one_of(st.sampled_from(_FB_EDGES), st.integers(0, _FB_MAX16 + 3), st.integers(1 << 15, _FB_MAX16 + 3))
    counts = st.one_of(st.sampled_from(_FB_EDGES), st.integers(0, _FB_MAX16), st.integers(1 << 15, _FB_MAX16))
    return st.builds(_fb_fix, st.sampled_from(FB_EMBEDS), st.sampled_from(FB_ETYPES), sizes, st.integers(1, 3),
                     st.integers(0, 2), st.sampled_from((1, 2, 1, 2, 3, 4, 5, 0x42)),
                     st.sampled_from(("size",) * 39 + ("count",)), counts)      # (a 65535-entry map costs ~1 s)


def _fb_wrap(embed, sub, elements):
    """-> (tree, tagged value) of the collection that carries `elements` (tagged values of type `sub`)"""
    I = V.T("int")
    if embed == "list":
        return V.t_list(sub), elements
    if embed == "set":
        return V.t_set(sub), elements
    if embed == "map-key":
        return V.t_map(sub, I), [[e, i] for i, e in enumerate(elements)]
    if embed == "map-value":
        return V.t_map(I, sub), [[i, e] for i, e in enumerate(elements)]
    if embed == "frozen-list":
        return V.t_frozen(V.t_list(sub)), elements
    if embed == "reversed-set":
        return V.t_reversed(V.t_set(sub)), elements
    if embed == "vector-of-list":
        return V.t_vector(V.t_list(sub), 1), [elements]
    return V.t_vector(V.t_map(sub, I), 1), [[[e, i] for i, e in enumerate(elements)]]


def _fb_build(case):
    if case["mode"] == "count":
        # `count` distinct small ints (1-4 byte bodies are not what is under test here, the count prefix is)
        return _fb_wrap(case["embed"], V.T("int"), list(range(case["count"])))
    etype, size, n, pos = case["etype"], case["size"], case["n"], case["pos"]
    sub, el = _drv.sized_element(etype, size)
    base = {"decimal": 6, "map": 17, "list": 9, "set": 9, "tuple": 5}.get(etype, 2)
    fill = [_drv.sized_element(etype, fs)[1] for fs in range(base, base + 4) if fs != size]     # all distinct, none equal to el
    elements = [el if i == pos else fill[i] for i in range(n)]
    return _fb_wrap(case["embed"], sub, elements)


def _fb_class(x):
    return ">=2^16" if x >= 1 << 16 else (">=2^15" if x >= 1 << 15 else ("<2^15" if x >= 256 else "<2^8"))


def interpret_framing(case, ctx):
    """round trip of collections with one element of an exact encoded size, or with an exact element count"""
    tree, value = _fb_build(case)
    pv, mode, embed = case["pv"], case["mode"], case["embed"]
    x = case["size"] if mode == "size" else case["count"]
    wire = "16-bit" if pv < 3 else "32-bit"
    feat = [embed, wire, "%s%s" % (mode, _fb_class(x))]
    edge = any(abs(x - (1 << k)) <= 2 for k in (7, 8, 14, 15, 16))
    ctx.label("framing", "fb:embed:" + embed, "fb:%s:%s%s" % (wire, mode, _fb_class(x)))
    if mode == "size":
        ctx.label("fb:etype:" + case["etype"])
        if case["pos"] < case["n"] - 1:
            ctx.label("fb:sized-element-not-last")
    if edge:
        ctx.label("fb:%s:%s-at-2^k+-2" % (wire, mode))
    # non-trivial: the size / count is where 8-, 15- or 16-bit readings differ, or the 16-bit framing is in use at all
    ctx.nontrivial(pv < 3 or edge or x >= 1 << 15)
    got = data = back = typ = None
    try:
        with ctx.driver(["C01.roundtrip.raises", "collection-framing"] + feat, expect=(V.NormaliseError,)):
            typ = _drv.build_type(tree)
            data = typ.to_binary(_drv.to_driver(tree, value, 0), pv)
            back = typ.from_binary(data, pv)
            got = _drv.from_driver(tree, back)
    except V.NormaliseError as e:
        ctx.fail(["C01.type", "collection-framing"] + feat, str(e)[:300])
    if ctx._failures:
        return
    if not ctx.check(V.same(tree, value, got), ["C01.roundtrip", "collection-framing"] + feat,
                     "%s pv=%d with %s %d does not survive the round trip" % (
                         V.cql_name(tree), pv, "an element of encoded size" if mode == "size" else "element count", x)):
        return
    # second direction: what came back encodes to the same bytes (sets re-sort, so only ordered containers)
    if "set" not in embed and not (mode == "size" and case["etype"] == "set"):
        with ctx.driver(["C01.reencode", "collection-framing"] + feat):
            data2 = typ.to_binary(back, pv)
        if not ctx._failures:
            ctx.check(data2 == data, ["C01.reencode.stable", "collection-framing"] + feat,
                      "%s pv=%d: decoded value re-encodes differently (%d -> %d bytes)" % (V.cql_name(tree), pv, len(data), len(data2)))


def interpret_spelling(case, ctx):
    """round trip of date / time / timestamp values given in every accepted python spelling"""
    tree, value, obj = _drv.spelling_build(case)
    pv = case["pv"]
    feat = "%s-from-%s" % (case["leaf"], case["form"])
    sub = ("pre-epoch" if case["n"] < 0 else "post-epoch") + ("-non-midnight" if case["tod_us"] else "")
    ctx.label("spelling", "sp:" + feat, "sp:" + feat + ":" + sub)
    ctx.nontrivial(True)
    got = None
    try:
        with ctx.driver(["C01.roundtrip.raises", feat, sub], expect=(V.NormaliseError,)):
            typ = _drv.build_type(tree)
            got = _drv.from_driver(tree, typ.from_binary(typ.to_binary(obj, pv), pv))
    except V.NormaliseError as e:
        ctx.fail(["C01.type", feat], str(e)[:300])
    if not ctx._failures:
        ctx.check(V.same(tree, value, got), ["C01.roundtrip", feat, sub],
                  "%s given as %r came back as %r, expected %r" % (V.cql_name(tree), obj, got, value))


def parts(tier):
    return [
        hyp_part("roundtrip", s_roundtrip_quick if tier == "quick" else s_roundtrip_thorough, interpret_roundtrip, tier,
                 quick=850, thorough=6000, quick_shards=4, thorough_shards=16,
                 # generator-degenerate guard: about one sixth of the fractions seen over five seeds
                 floors={"has:vector": 0.03, "has:udt": 0.03, "has:map": 0.04, "has:set": 0.04, "has:tuple": 0.03,
                         "f:null-inside": 0.035, "f:empty-collection": 0.03, "f:int-boundary": 0.025, "pv:v1-2": 0.06,
                         "pv:dse": 0.03, "depth:2": 0.04, "style:1": 0.03, "style:2": 0.03, "style:3": 0.03, "via:string": 0.04,
                         "f:aware-datetime": 0.004}),
        EnumPart("null", list(V.PROTOCOL_VERSIONS), null_cases, interpret_null),
        EnumPart("vint-size-boundaries", _drv.vsb_chunks(), _drv.vsb_cases, interpret_vint_size),
        EnumPart("input-spellings", _drv.spelling_chunks(), _drv.spelling_cases, interpret_spelling),
        hyp_part("framing-boundaries", s_framing, interpret_framing, tier, quick=800, thorough=4000, quick_shards=2,
                 thorough_shards=8,
                 floors={"fb:16-bit:size>=2^15": 0.05, "fb:16-bit:count>=2^15": 0.002, "fb:32-bit:size>=2^15": 0.03,
                         "fb:embed:list": 0.04, "fb:embed:set": 0.04, "fb:embed:map-key": 0.04, "fb:embed:map-value": 0.04}),
    ]
