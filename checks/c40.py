"""C40 -- GraphSON values survive serialization and deserialization.

Round trip  value -> GraphSON{1,2,3}Serializer -> json text -> json.loads -> matching
Deserializer / Reader -> value'   and   value' == value, judged by this module's own notion of
equality per type (never by the driver's __eq__ of its own classes).
"""
import datetime
import ipaddress
import json
import uuid
from decimal import Decimal

from hypothesis import strategies as st

from vlib.harness import hyp_part

THOROUGH_SCALE = 1.0
PID = "C40"
TITLE = "GraphSON values survive serialization and deserialization"
LEVEL = "exploration"
ENGINE = "models"
TECHNIQUE = "property-based testing (Hypothesis), inverse-function (round-trip) oracle with per-type equality defined in the check"
RULE = ("One part per GraphSON version.  A case is a JSON description of a value tree: scalars (int at the 16/32/64-bit "
        "boundaries and beyond, finite float / float32-representable float, text, bool, UUID, blob as bytes/bytearray/"
        "memoryview, finite Decimal, date (year 1..9999), time (us resolution), instant (naive, or tz-aware with an offset; "
        "us = 0 and != 0, before/after 1970), timedelta (whole-second, sub-second, < 100 us, negative, |days| >= 99000), "
        "inet v4/v6, Point/LineString/Polygon with finite coordinates; v3 also util.Duration and the to_bigint/to_int/"
        "to_smallint/to_double/to_float wrappers) and containers nested <= 3 (v2: dict with text keys; v3: list, set, map "
        "with any hashable key type, tuple).  Only types that have both a serializer and a deserializer in that version are "
        "drawn.  Every scalar leaf is round-tripped on its own (v1: GraphSON1Serializer.serialize -> json -> "
        "GraphSON1Deserializer.deserialize(tag) and .deserialize_<cqltype>; v2/v3: Serializer().serialize -> json text of "
        "{'result': ...} -> Reader.read, plus Deserializer.deserialize(tag, value)); then the whole tree.  Non-trivial: a "
        "container holding >= 2 element kinds, or a temporal value (time, instant, timedelta, Duration) with a sub-second or "
        "negative component.")
ASSUMPTIONS = [
    "json.dumps/json.loads of the standard library stand for the transport (what cluster._transform_params and Reader.read use)",
    "inet: the documented Python result type is str; equality is ipaddress.ip_address(result) == original",
    "tz-aware datetimes: equality is 'same instant', the result being the naive UTC datetime (driver convention)",
    "blobs compare by content (bytes(result) == bytes(original)); floats by ==, NaN/inf not drawn (not valid JSON)",
    "GraphSON2 dict keys are text other than '@type'/'@value' (untyped JSON maps cannot carry those by construction of the format)",
    "UDTs and namedtuples need cluster schema metadata and are not drawn; BigInteger/Int16 tags are only reachable through to_smallint (no serializer emits gx:BigInteger)",
    "geomet (installed in /venv) parses WKT for the geometric types, as in the driver's own from_wkt",
]
LEVEL_TEXT = ("no counterexample among the generated value trees; exploration, not proof.  The findings of the first runs "
              "(timedelta negative / < 100 us / beyond 2**33 s, blobs in hashed positions) are fixed in the tree and kept as "
              "regressions/C40/*.json, replayed on every run.")

_MIN = datetime.datetime.min
_MAX_US = (datetime.datetime.max - _MIN) // datetime.timedelta(microseconds=1)
_EPOCH_US = (datetime.datetime(1970, 1, 1) - _MIN) // datetime.timedelta(microseconds=1)
_YEAR_US = 366 * 86400 * 10 ** 6

SCALAR_KINDS = ("int", "float", "text", "bool", "uuid", "blob", "decimal", "date", "time", "instant", "timedelta",
                "inet", "point", "linestring", "polygon", "duration", "wrap")
TEMPORAL = ("time", "instant", "timedelta", "duration")


# ---------------------------------------------------------------------------------------------
# strategies (build JSON descriptions only)
# ---------------------------------------------------------------------------------------------

_INT_BOUNDS = [0, 1, -1, 127, -128, 2 ** 15 - 1, 2 ** 15, -2 ** 15, -2 ** 15 - 1, 2 ** 31 - 1, 2 ** 31, -2 ** 31,
               -2 ** 31 - 1, 2 ** 32 - 1, 2 ** 32, 2 ** 53 + 1, 2 ** 63 - 1, 2 ** 63, -2 ** 63, -2 ** 63 - 1, 2 ** 64,
               10 ** 30, -10 ** 30]


def _tag(t, **kw):
    d = {"t": t}
    d.update(kw)
    return d


def s_int():
    return st.one_of(st.sampled_from(_INT_BOUNDS), st.integers(-2 ** 70, 2 ** 70), st.integers(-70000, 70000)) \
        .map(lambda v: _tag("int", v=v))


def s_float():
    return st.one_of(st.floats(allow_nan=False, allow_infinity=False),
                     st.floats(allow_nan=False, allow_infinity=False, width=32),
                     st.sampled_from([0.0, -0.0, 0.1, 1e-5, 1e16, 1e22, 5e-324, 1.7976931348623157e308, 3.4028234663852886e38])) \
        .map(lambda v: _tag("float", v=v))


def s_text():
    return st.one_of(st.text(max_size=12), st.sampled_from(["", "@type", "P1DT2H", "g:Int32", "é中\U0001f600", "nan"])) \
        .map(lambda v: _tag("text", v=v))


def s_bool():
    return st.booleans().map(lambda v: _tag("bool", v=v))


def s_uuid():
    return st.one_of(st.uuids(), st.sampled_from([uuid.UUID(int=0), uuid.UUID(int=2 ** 128 - 1)])) \
        .map(lambda u: _tag("uuid", v=str(u)))


def s_blob(forms=("bytes", "bytearray", "memoryview")):
    return st.builds(lambda b, f: _tag("blob", v=b.hex(), form=f),
                     st.one_of(st.binary(max_size=24), st.sampled_from([b"", b"\x00", b"\xfb\xff", b"\xff\xfe\xfd", b">>>???"])),
                     st.sampled_from(list(forms)))


def s_decimal():
    return st.one_of(st.decimals(allow_nan=False, allow_infinity=False).map(str),
                     st.sampled_from(["0", "-0", "0.0", "0.10", "1E+100", "1E-100", "-1.5E-7",
                                      "123456789012345678901234567890.123456789"])) \
        .map(lambda s: _tag("decimal", v=s))


_DATE_BOUNDS = [datetime.date(1, 1, 1), datetime.date(99, 12, 31), datetime.date(999, 12, 31), datetime.date(1000, 1, 1),
                datetime.date(1899, 12, 31), datetime.date(1969, 12, 31), datetime.date(1970, 1, 1),
                datetime.date(2000, 2, 29), datetime.date(9999, 12, 31)]


def s_date():
    return st.one_of(st.sampled_from([d.toordinal() for d in _DATE_BOUNDS]),
                     st.integers(1, datetime.date.max.toordinal())).map(lambda o: _tag("date", ord=o))


_US_BOUNDS = [0, 1, 9, 10, 99, 100, 101, 999, 1000, 1001, 123000, 500000, 999000, 999999]


def s_us():
    return st.one_of(st.sampled_from(_US_BOUNDS), st.integers(0, 999999))


def s_time():
    return st.builds(lambda s, us: _tag("time", us=s * 10 ** 6 + us),
                     st.one_of(st.sampled_from([0, 1, 59, 60, 3599, 3600, 43200, 86399]), st.integers(0, 86399)), s_us())


def _instant_base(lo, hi):
    return st.one_of(st.integers(lo, hi),
                     st.integers(max(lo, _EPOCH_US - 10 ** 15), min(hi, _EPOCH_US + 3 * 10 ** 15)),
                     st.sampled_from([lo, hi, max(lo, _EPOCH_US - 1), _EPOCH_US, _EPOCH_US + 1]))


def s_instant():
    def fix(n, mode, us):
        if mode == "second":
            return n - n % 10 ** 6
        if mode == "milli":
            return n - n % 1000
        if mode == "us":
            return n - n % 10 ** 6 + us
        return n

    modes = st.sampled_from(["raw", "second", "milli", "us"])
    naive = st.builds(lambda n, m, us: _tag("instant", us=fix(n, m, us), tz=None), _instant_base(0, _MAX_US), modes, s_us())
    aware = st.builds(lambda n, m, us, tz: _tag("instant", us=fix(n, m, us), tz=tz),
                      _instant_base(_YEAR_US, _MAX_US - _YEAR_US), modes, s_us(),
                      st.one_of(st.sampled_from([0, 60, -60, 330, -720, 840, 1439, -1439]), st.integers(-1439, 1439)))
    return st.one_of(naive, naive, aware)


def s_timedelta():
    days = st.one_of(st.sampled_from([0, 0, 0, 0, 1, -1, -1, -2, 365, -365, 98999, -98999]), st.integers(-3650, 3650))
    huge = st.sampled_from([99000, -99000, 10 ** 6, -10 ** 6, 999999999, -999999999])
    secs = st.one_of(st.sampled_from([0, 0, 1, 59, 60, 61, 3599, 3600, 86399]), st.integers(0, 86399))
    ordinary = st.builds(lambda d, s, us: _tag("timedelta", d=d, s=s, us=us), days, secs, s_us())
    big = st.builds(lambda d, s, us: _tag("timedelta", d=d, s=s, us=us), huge, secs, s_us())
    return st.one_of(ordinary, ordinary, ordinary, ordinary, ordinary, big)


def s_duration():
    def mk(sign, mo, d, ns):
        return _tag("duration", mo=sign * mo, d=sign * d, ns=sign * ns)
    return st.builds(mk, st.sampled_from([1, 1, -1]),
                     st.one_of(st.sampled_from([0, 1, 12, 2 ** 31 - 1]), st.integers(0, 2 ** 31 - 1)),
                     st.one_of(st.sampled_from([0, 1, 31, 2 ** 31 - 1]), st.integers(0, 2 ** 31 - 1)),
                     st.one_of(st.sampled_from([0, 1, 999, 10 ** 9, 10 ** 9 + 1, 2 ** 63 - 1]), st.integers(0, 2 ** 63 - 1)))


def s_inet():
    return st.one_of(st.ip_addresses(v=4), st.ip_addresses(v=6),
                     st.sampled_from([ipaddress.ip_address(a) for a in
                                      ("0.0.0.0", "255.255.255.255", "::", "::1", "::ffff:1.2.3.4", "fe80::1")])) \
        .map(lambda a: _tag("inet", v=str(a)))


def _coord():
    return st.one_of(st.floats(allow_nan=False, allow_infinity=False),
                     st.floats(-180, 180),
                     st.sampled_from([0.0, -0.0, 1.0, -1.5, 1e-5, 1e-7, 1e16, 1e22, 5e-324, 1.7976931348623157e308]))


def _xy():
    return st.tuples(_coord(), _coord()).map(list)


def s_point():
    return _xy().map(lambda p: _tag("point", x=p[0], y=p[1]))


def s_linestring():
    return st.lists(_xy(), max_size=4).map(lambda c: _tag("linestring", c=c))


def _ring():
    return st.lists(_xy(), min_size=3, max_size=5).map(lambda c: c + [c[0]])


def s_polygon():
    return st.one_of(st.just(_tag("polygon", e=[], i=[])),
                     st.builds(lambda e, i: _tag("polygon", e=e, i=i), _ring(), st.lists(_ring(), max_size=2)))


def s_wrap():
    def w(kind, strat):
        return strat.map(lambda v: _tag("wrap", w=kind, v=v))
    return st.one_of(
        w("bigint", st.one_of(st.sampled_from([0, 1, -1, 2 ** 31, 2 ** 63 - 1, -2 ** 63]), st.integers(-2 ** 63, 2 ** 63 - 1))),
        w("int", st.one_of(st.sampled_from([0, 2 ** 31 - 1, -2 ** 31]), st.integers(-2 ** 31, 2 ** 31 - 1))),
        w("smallint", st.one_of(st.sampled_from([0, 2 ** 15 - 1, -2 ** 15]), st.integers(-2 ** 15, 2 ** 15 - 1))),
        w("double", st.floats(allow_nan=False, allow_infinity=False)),
        w("float", st.floats(allow_nan=False, allow_infinity=False, width=32)))


def s_timedelta_tame():
    """the classes DurationTypeIO handles: non-negative, below 99000 days, seconds field 0 or >= 1e-4"""
    def mk(d, s, us):
        if s % 60 == 0 and 0 < us < 100:
            us += 100
        return _tag("timedelta", d=d, s=s, us=us)
    return st.builds(mk, st.one_of(st.sampled_from([0, 0, 1, 365, 98999]), st.integers(0, 3650)),
                     st.one_of(st.sampled_from([0, 1, 59, 60, 3600, 86399]), st.integers(0, 86399)), s_us())


def s_scalar(ver, hashable=False, inner=False):
    """inner=True: element of a container (a failing leaf suspends the verdict on its container, so the plain classes
    get more weight there)"""
    td = weighted((2, s_timedelta_tame()), (1, s_timedelta())) if inner else weighted((1, s_timedelta_tame()), (3, s_timedelta()))
    alts = [(2, s_int()), (2, s_float()), (2, s_text()), (1, s_bool()), (1, s_uuid()), (2, s_decimal()), (2, s_date()),
            (2, s_time()), (4, s_instant()), (3 if inner else 6, td), (2, s_inet()),
            (1, s_point()), (1, s_linestring()), (2, s_polygon())]
    if hashable:
        # bytes only (bytearray is unhashable as an *input*)
        alts.append((2, s_blob(forms=("bytes",))))
    else:
        alts.append((3, s_blob()))
    if ver == 3 and not hashable:
        alts += [(3, s_duration()), (3, s_wrap())]
    return weighted(*alts)


def _safe_key(k):
    return k + "_" if k in ("@type", "@value") else k


def weighted(*pairs):
    """explicitly weighted choice (one_of flattens nested one_ofs, which would drown the containers)"""
    idx = [i for i, (w, _) in enumerate(pairs) for _ in range(w)]
    return st.sampled_from(idx).flatmap(lambda i: pairs[i][1])


def s_value_v2(depth):
    if depth == 0:
        return s_scalar(2, inner=True)
    sub = s_value_v2(depth - 1)
    d = st.lists(st.tuples(st.text(max_size=6).map(_safe_key), sub).map(list), max_size=4) \
        .map(lambda pairs: _tag("dict", v=pairs))
    return weighted((1, s_scalar(2, inner=True)), (1, d))


def s_hashable_v3(depth):
    if depth == 0:
        return s_scalar(3, hashable=True, inner=True)
    sub = s_hashable_v3(depth - 1)
    return weighted((5, s_scalar(3, hashable=True, inner=True)), (1, st.lists(sub, max_size=3).map(lambda v: _tag("tuple", v=v))))


def s_value_v3(depth):
    if depth == 0:
        return s_scalar(3, inner=True)
    sub = s_value_v3(depth - 1)
    hsub = s_hashable_v3(depth - 1)
    return weighted(
        (5, s_scalar(3, inner=True)),
        (2, st.lists(sub, max_size=4).map(lambda v: _tag("list", v=v))),
        (2, st.lists(hsub, max_size=4).map(lambda v: _tag("set", v=v))),
        (2, st.lists(st.tuples(hsub, sub).map(list), max_size=4).map(lambda v: _tag("map", v=v))),
        (2, st.lists(sub, max_size=4).map(lambda v: _tag("tuple", v=v))))


def s_case_v1():
    return s_scalar(1).map(lambda v: {"ver": 1, "value": v})


def s_case_v2():
    return weighted((2, s_scalar(2)), (1, s_value_v2(3))).map(lambda v: {"ver": 2, "value": v})


def s_case_v3():
    return weighted((1, s_scalar(3)), (2, s_value_v3(3))).map(lambda v: {"ver": 3, "value": v})


# ---------------------------------------------------------------------------------------------
# building the Python values
# ---------------------------------------------------------------------------------------------

class Node(object):
    __slots__ = ("kind", "vd", "obj", "kids")

    def __init__(self, kind, vd, obj, kids=None):
        self.kind, self.vd, self.obj, self.kids = kind, vd, obj, kids


def _tz(minutes):
    return datetime.timezone(datetime.timedelta(minutes=minutes))


def build(vd):
    from cassandra.util import Point, LineString, Polygon, Duration
    from cassandra.datastax.graph import graphson as G
    t = vd["t"]
    if t in ("int", "float", "text", "bool"):
        return Node(t, vd, vd["v"])
    if t == "uuid":
        return Node(t, vd, uuid.UUID(vd["v"]))
    if t == "blob":
        b = bytes.fromhex(vd["v"])
        return Node(t, vd, {"bytes": b, "bytearray": bytearray(b), "memoryview": memoryview(b)}[vd["form"]])
    if t == "decimal":
        return Node(t, vd, Decimal(vd["v"]))
    if t == "date":
        return Node(t, vd, datetime.date.fromordinal(vd["ord"]))
    if t == "time":
        s, us = divmod(vd["us"], 10 ** 6)
        return Node(t, vd, datetime.time(s // 3600, s // 60 % 60, s % 60, us))
    if t == "instant":
        naive = _MIN + datetime.timedelta(microseconds=vd["us"])
        if vd["tz"] is None:
            return Node(t, vd, naive)
        # `us` is the UTC instant; the object handed to the driver is that instant seen from the offset
        return Node(t, vd, naive.replace(tzinfo=datetime.timezone.utc).astimezone(_tz(vd["tz"])))
    if t == "timedelta":
        return Node(t, vd, datetime.timedelta(days=vd["d"], seconds=vd["s"], microseconds=vd["us"]))
    if t == "duration":
        return Node(t, vd, Duration(vd["mo"], vd["d"], vd["ns"]))
    if t == "inet":
        return Node(t, vd, ipaddress.ip_address(vd["v"]))
    if t == "point":
        return Node(t, vd, Point(vd["x"], vd["y"]))
    if t == "linestring":
        return Node(t, vd, LineString(tuple((x, y) for x, y in vd["c"])))
    if t == "polygon":
        return Node(t, vd, Polygon(tuple((x, y) for x, y in vd["e"]),
                                   [tuple((x, y) for x, y in r) for r in vd["i"]] or None))
    if t == "wrap":
        fn = {"bigint": G.to_bigint, "int": G.to_int, "smallint": G.to_smallint, "double": G.to_double,
              "float": G.to_float}[vd["w"]]
        return Node(t, vd, fn(vd["v"]))
    if t in ("list", "tuple"):
        kids = [build(x) for x in vd["v"]]
        objs = [k.obj for k in kids]
        return Node(t, vd, objs if t == "list" else tuple(objs), kids)
    if t == "set":
        # elements are distinct under Python equality (1, 1.0 and True are one element) AND under this check's
        # own equivalence (an aware and a naive datetime denoting the same UTC instant are one element)
        s, kids, seen = set(), [], set()
        for x in vd["v"]:
            k = build(x)
            i = ident(k)
            if i not in seen:
                seen.add(i)
                s.add(k.obj)
                kids.append(k)
        return Node(t, vd, s, kids)
    if t in ("map", "dict"):
        d, kids, first = {}, {}, {}
        for kx, vx in vd["v"]:
            kn = build(kx) if t == "map" else Node("text", {"t": "text", "v": kx}, kx)
            vn = build(vx)
            i = ident(kn)
            if i in first:
                kn = first[i]                           # dict keeps the first key object, the last value
            else:
                first[i] = kn
            kids[i] = (kn, vn)
            d[kn.obj] = vn.obj
        return Node(t, vd, d, list(kids.values()))
    raise ValueError("unknown value description %r" % (vd,))


def ident(node):
    """hashable identity of a value in a hashed position under the equivalence this check judges by"""
    if node.kind == "instant":
        return ("instant", node.vd["us"])
    if node.kind == "tuple":
        return ("tuple",) + tuple(ident(k) for k in node.kids)
    return node.obj


def leaves(node, out=None):
    out = [] if out is None else out
    if node.kids is None:
        out.append(node)
    elif node.kind in ("map", "dict"):
        for kn, vn in node.kids:
            leaves(kn, out)
            leaves(vn, out)
    else:
        for k in node.kids:
            leaves(k, out)
    return out


def feature(node):
    """minimal structural feature of a scalar used in finding keys (deterministic in the case)"""
    k, o = node.kind, node.obj
    if k == "timedelta":
        # ordered by which root cause strikes first in DurationTypeIO
        if o < datetime.timedelta(0):
            return "negative"
        if 0 < o.microseconds < 100 and o.seconds % 60 == 0:
            return "seconds-field<1e-4"
        if abs(o.days) >= 99000:
            return "magnitude>=99000days"
        return "sub-second" if o.microseconds else "whole-seconds"
    if k == "instant":
        return "aware" if node.vd["tz"] is not None else "naive"
    if k == "wrap":
        return node.vd["w"]
    if k == "blob":
        return node.vd["form"]
    return "-"


def temporal_nt(node):
    k, o = node.kind, node.obj
    if k == "time":
        return o.microsecond != 0
    if k == "instant":
        return o.microsecond != 0
    if k == "timedelta":
        return o.microseconds != 0 or o.days < 0
    if k == "duration":
        return o.nanoseconds % 10 ** 9 != 0 or min(o.months, o.days, o.nanoseconds) < 0
    return False


# ---------------------------------------------------------------------------------------------
# equality, defined here
# ---------------------------------------------------------------------------------------------

def _coords_equal(got, want):
    try:
        got = [tuple(p) for p in got]
    except TypeError:
        return False
    return len(got) == len(want) and all(len(g) == 2 and g[0] == w[0] and g[1] == w[1] for g, w in zip(got, want))


def scalar_equal(node, got):
    from cassandra.util import Point, LineString, Polygon, Duration
    k, o, vd = node.kind, node.obj, node.vd
    if k == "int":
        return isinstance(got, int) and not isinstance(got, bool) and got == o
    if k == "float":
        return isinstance(got, float) and got == o
    if k == "text":
        return isinstance(got, str) and got == o
    if k == "bool":
        return got is o
    if k == "uuid":
        return isinstance(got, uuid.UUID) and got.int == o.int
    if k == "blob":
        return isinstance(got, (bytes, bytearray, memoryview)) and bytes(got) == bytes.fromhex(vd["v"])
    if k == "decimal":
        return isinstance(got, Decimal) and got == o
    if k == "date":
        return type(got) is datetime.date and got == o
    if k == "time":
        return isinstance(got, datetime.time) and got.tzinfo is None and got == o
    if k == "instant":
        want = _MIN + datetime.timedelta(microseconds=vd["us"])
        return isinstance(got, datetime.datetime) and got.tzinfo is None and got == want
    if k == "timedelta":
        return isinstance(got, datetime.timedelta) and got == o
    if k == "duration":
        return (isinstance(got, Duration) and (got.months, got.days, got.nanoseconds) == (vd["mo"], vd["d"], vd["ns"])
                and all(type(x) is int for x in (got.months, got.days, got.nanoseconds)))
    if k == "inet":
        if isinstance(got, str):
            try:
                got = ipaddress.ip_address(got)
            except ValueError:
                return False
        return got == o
    if k == "point":
        return isinstance(got, Point) and got.x == vd["x"] and got.y == vd["y"]
    if k == "linestring":
        return isinstance(got, LineString) and _coords_equal(got.coords, vd["c"])
    if k == "polygon":
        if not isinstance(got, Polygon):
            return False
        if not _coords_equal(got.exterior.coords, vd["e"]) or len(got.interiors) != len(vd["i"]):
            return False
        return all(_coords_equal(r.coords, w) for r, w in zip(got.interiors, vd["i"]))
    if k == "wrap":
        v = vd["v"]
        if vd["w"] in ("double", "float"):
            return isinstance(got, float) and got == v
        return isinstance(got, int) and not isinstance(got, bool) and got == v
    raise ValueError(k)


def tree_diff(node, got, path=""):
    """None when equal, else the path (container kinds) to the first difference"""
    k = node.kind
    here = path + "/" + k if path else k
    if node.kids is None:
        return None if scalar_equal(node, got) else here
    if k in ("list", "tuple"):
        if type(got) is not (list if k == "list" else tuple) or len(got) != len(node.kids):
            return here + ":shape"
        for kid, g in zip(node.kids, got):
            d = tree_diff(kid, g, here)
            if d:
                return d
        return None
    if k == "set":
        if not isinstance(got, set):
            return here + ":not-a-set"
        if len(got) != len(node.kids):
            return here + ":size"
        rest = list(got)
        for kid in node.kids:
            for i, g in enumerate(rest):
                if tree_diff(kid, g, here) is None:
                    del rest[i]
                    break
            else:
                return here + ":element"
        return None
    if k in ("map", "dict"):
        if not isinstance(got, dict):
            return here + ":not-a-dict"
        if len(got) != len(node.kids):
            return here + ":size"
        rest = list(got.items())
        for kn, vn in node.kids:
            for i, (gk, gv) in enumerate(rest):
                if tree_diff(kn, gk, here) is None:
                    d = tree_diff(vn, gv, here + ":value")
                    if d:
                        return d
                    del rest[i]
                    break
            else:
                return here + ":key"
        return None
    raise ValueError(k)


# ---------------------------------------------------------------------------------------------
# the round trips
# ---------------------------------------------------------------------------------------------

# GraphSON 1 carries no type tags: the reader knows the type from the schema.  (tag, method) per kind, from the
# module's type table ("Supported types") -- written down here, not asked from the serializer.
_V1 = {
    "text": (None, None), "bool": (None, "deserialize_boolean"), "int": (None, "deserialize_int"),
    "float": (None, "deserialize_double"), "uuid": ("g:UUID", "deserialize_uuid"),
    "decimal": ("gx:BigDecimal", "deserialize_decimal"), "instant": ("gx:Instant", "deserialize_timestamp"),
    "blob": ("gx:ByteBuffer", "deserialize_blob"), "date": ("gx:LocalDate", "deserialize_date"),
    "time": ("gx:LocalTime", "deserialize_time"), "timedelta": ("gx:Duration", "deserialize_duration"),
    "inet": ("gx:InetAddress", "deserialize_inet"), "point": ("dse:Point", "deserialize_point"),
    "linestring": ("dse:LineString", "deserialize_linestring"), "polygon": ("dse:Polygon", "deserialize_polygon"),
}


class _StubCluster(object):
    _user_types = {}


def _ctx3():
    return {"cluster": _StubCluster(), "graph_name": "g"}


def roundtrips(ver, obj, kind, scalar):
    """yield (path_name, thunk) pairs; each thunk performs one complete round trip and returns the result"""
    from cassandra.datastax.graph import graphson as G
    if ver == 1:
        tag, meth = _V1[kind]

        def wire():
            return json.loads(json.dumps(G.GraphSON1Serializer.serialize(obj)))
        out = []
        if tag:
            out.append(("v1:deserialize(%s)" % tag, lambda: G.GraphSON1Deserializer.deserialize(tag, wire())))
            if kind == "blob":
                out.append(("v1:deserialize(dse:Blob)", lambda: G.GraphSON1Deserializer.deserialize("dse:Blob", wire())))
        if meth:
            out.append(("v1:" + meth, lambda: getattr(G.GraphSON1Deserializer, meth)(wire())))
            if kind == "int":
                out.append(("v1:deserialize_bigint", lambda: G.GraphSON1Deserializer.deserialize_bigint(wire())))
            if kind == "float":
                out.append(("v1:deserialize_float", lambda: G.GraphSON1Deserializer.deserialize_float(wire())))
        if not tag and not meth:
            out.append(("v1:json", wire))
        return out

    if ver == 2:
        ser_f, reader_f, des = (lambda: G.GraphSON2Serializer()), (lambda: G.GraphSON2Reader({"cluster": _StubCluster()})), G.GraphSON2Deserializer
    else:
        ser_f, reader_f, des = (lambda: G.GraphSON3Serializer(_ctx3())), (lambda: G.GraphSON3Reader({"cluster": _StubCluster()})), G.GraphSON3Deserializer

    def via_reader():
        text = json.dumps({"result": ser_f().serialize(obj)})
        return reader_f().read(text)["result"]

    out = [("v%d:reader" % ver, via_reader)]
    if scalar and kind not in ("duration", "text", "bool"):
        def via_deserializer():
            w = json.loads(json.dumps(ser_f().serialize(obj)))
            if not (isinstance(w, dict) and "@type" in w and "@value" in w):
                raise _Untagged(w)
            return des.deserialize(w["@type"], w["@value"])
        out.append(("v%d:deserializer" % ver, via_deserializer))
    return out


class _Untagged(Exception):
    pass


def check_scalar(ver, node, ctx):
    key = ["C40.scalar", node.kind, feature(node)]
    ok = True
    for name, thunk in roundtrips(ver, node.obj, node.kind, True):
        box = []
        n0 = len(ctx._failures)
        with ctx.driver(key, expect=(_Untagged,)):
            try:
                box.append(thunk())
            except _Untagged as e:
                ctx.fail(key + ["untagged"], "%s: serializer emitted no @type/@value for %r: %r" % (name, node.obj, e.args[0]))
        if len(ctx._failures) > n0:
            key_, msg = ctx._failures[-1]
            ctx._failures[-1] = (key_, "%s of %r: %s" % (name, node.obj, msg))
            ok = False
            continue
        if not scalar_equal(node, box[0]):
            ctx.fail(key + ["mismatch"], "%s: %r came back as %r" % (name, node.obj, box[0]))
            ok = False
    return ok


def _hashed_blob(node, hashed=False, in_tuple=False, acc=None):
    """blobs below a hashed position (set element / map key): set of {"direct", "in-tuple"}"""
    acc = set() if acc is None else acc
    if node.kids is None:
        if hashed and node.kind == "blob":
            acc.add("in-tuple" if in_tuple else "direct")
    elif node.kind == "set":
        for k in node.kids:
            _hashed_blob(k, True, False, acc)
    elif node.kind in ("map", "dict"):
        for kn, vn in node.kids:
            _hashed_blob(kn, True, False, acc)
            _hashed_blob(vn, hashed, in_tuple, acc)
    else:
        for k in node.kids:
            _hashed_blob(k, hashed, in_tuple or (hashed and node.kind == "tuple"), acc)
    return acc


def _max_mixed(node):
    """largest number of distinct element kinds held directly by one container below node"""
    if node.kids is None:
        return 0
    if node.kind in ("map", "dict"):
        best = max(len(set(kn.kind for kn, _ in node.kids)), len(set(vn.kind for _, vn in node.kids)))
        subs = [n for pair in node.kids for n in pair]
    else:
        best = len(set(k.kind for k in node.kids))
        subs = node.kids
    return max([best] + [_max_mixed(x) for x in subs])


def interpret(case, ctx):
    ver = case["ver"]
    root = build(case["value"])
    ctx.label("v%d" % ver, "v%d:top=%s" % (ver, root.kind))
    lv = leaves(root)
    nt = False
    all_ok = True
    seen = set()
    for leaf in lv:
        ctx.label("leaf:" + leaf.kind)
        if leaf.kind == "timedelta":
            ctx.label("timedelta:" + feature(leaf))
        if leaf.kind == "instant":
            ctx.label("instant:" + feature(leaf) + (":us" if leaf.obj.microsecond else ":whole"))
        if temporal_nt(leaf):
            nt = True
        ident = json.dumps(leaf.vd, sort_keys=True)
        if ident in seen:
            continue
        seen.add(ident)
        if not check_scalar(ver, leaf, ctx):
            all_ok = False
    if root.kids is not None:
        width = _max_mixed(root)
        if width >= 2:
            nt = True
            ctx.label("container:mixed-kinds")
        hz = _hashed_blob(root)
        hazard = "blob-in-tuple-in-hashed-position" if "in-tuple" in hz else ("blob-in-hashed-position" if hz else None)
        if hazard:
            ctx.label("container:" + hazard)
        ctx.label("container:judged" if all_ok else "container:suspended-by-failing-leaf")
        if all_ok:
            key = ["C40.container", hazard] if hazard else ["C40.container", "v%d" % ver, root.kind]
            for name, thunk in roundtrips(ver, root.obj, root.kind, False):
                box = []
                with ctx.driver(key):
                    box.append(thunk())
                if not box:
                    continue
                d = tree_diff(root, box[0])
                if d:
                    ctx.fail(key + ["mismatch", d], "%s: %r came back as %r" % (name, root.obj, box[0]))
    ctx.nontrivial(nt)


def parts(tier):
    return [
        hyp_part("v1", s_case_v1, interpret, tier, quick=300, thorough=3000, quick_shards=2, thorough_shards=8),
        hyp_part("v2", s_case_v2, interpret, tier, quick=300, thorough=3500, quick_shards=2, thorough_shards=12),
        hyp_part("v3", s_case_v3, interpret, tier, quick=400, thorough=4500, quick_shards=4, thorough_shards=16),
    ]
