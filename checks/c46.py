"""C46 -- per-statement options override profile and session defaults."""
from hypothesis import strategies as st

from checks import _simutil as U
from checks import _simctl as S
from sim import wire
from vlib.harness import hyp_part, EnumPart

import os

# the quick tier runs in one process unless VERIF_JOBS asks for more (the box is shared)
SERIAL = os.environ.get("VERIF_TIER") == "quick" and not os.environ.get("VERIF_JOBS")
PID = "C46"
TITLE = "Per-statement options override profile and session defaults"
LEVEL = "exploration"
ENGINE = "sim"
TECHNIQUE = ("combinatorial generation of option placements (Hypothesis + one-option-at-a-time full products) over the real "
             "Cluster/Session/ResponseFuture on the simulated network; first-set-wins reference; the request decoded at the "
             "fake server and the behaviour of the request (which host, which retry policy consulted, row shape, time of "
             "the client timeout, speculative execution) are the observations")
RULE = ("A case places each option on each level: consistency / serial consistency / retry policy / fetch size on the "
        "statement, on the PreparedStatement it was bound from, on the execution profile in effect (default, named, "
        "added after connect, a profile instance, a clone with overrides) or -- legacy mode -- on the session/cluster, and "
        "on a decoy profile that is NOT in effect; timeout as execute_async argument vs profile/session; row factory, "
        "load-balancing policy and speculative policy on profile vs decoy; statement kinds simple / bound / prepared "
        "passed directly / batch; protocol versions 1-5; consistency ANY (value 0) and fetch_size None are included as "
        "set values.  One of four probes follows (rows answered, retryable error answered, request held until the client "
        "timeout, request held past the speculative delay).  Non-trivial: at least two levels carry a different value for "
        "the same option (so precedence decides) .  Distinct by case digest.")
ASSUMPTIONS = ["network, clock, executor are simulated (sim/); Cluster, Session, statements, ResponseFuture, policies are real",
               "the reference is 'first level that has a value wins': statement, then PreparedStatement (bound statements), "
               "then the profile in effect / legacy session attribute, then the documented default",
               "a serial consistency on protocol v1 and a BatchStatement on v1 are rejected by the driver (documented) and "
               "not generated; a BatchStatement with a serial consistency in effect on v2 must be rejected with "
               "UnsupportedOperation (the v2 BATCH frame cannot carry it)"]

CL_CODE = {"ANY": 0, "ONE": 1, "TWO": 2, "THREE": 3, "QUORUM": 4, "ALL": 5, "LOCAL_QUORUM": 6, "EACH_QUORUM": 7,
           "SERIAL": 8, "LOCAL_SERIAL": 9, "LOCAL_ONE": 10}
CLS = ["ANY", "ONE", "TWO", "QUORUM", "ALL", "LOCAL_QUORUM", "EACH_QUORUM"]
SERIALS = ["SERIAL", "LOCAL_SERIAL"]
ADDRS = ["10.0.0.1", "10.0.0.2"]
Q = "SELECT k FROM t WHERE k=1"


def first(*vals, **kw):
    unset = kw.get("unset", None)
    for v in vals:
        if v is not unset and v != "unset":
            return v
    return "unset"


def reference(case):
    """-> dict of the values in effect"""
    s, p, b = case["stmt"], case["prep"], dict(case["base"])
    if case["use"] == "clone":
        for k, v in case["clone_over"].items():
            b[k] = v
    bound = case["kind"] in ("bound", "prepared")
    levels = [s] + ([p] if bound else [])
    if case["kind"] == "prepared":
        levels = [p]
    eff = {}
    cl = first(*([l["cl"] for l in levels] + [b["cl"]]))
    eff["cl"] = "LOCAL_ONE" if cl == "unset" or cl is None else cl
    ser = first(*([l["serial"] for l in levels] + [b["serial"]]))
    eff["serial"] = None if ser == "unset" else ser
    rp = first(*([l["retry"] for l in levels] + [b["retry"]]))
    eff["retry"] = "default" if rp == "unset" or rp is None else rp
    if case["kind"] == "batch" or case["pv"] == 1:
        eff["fetch"] = None
    else:
        fs = "unset"
        for l in levels:
            if l["fetch"] != "unset":
                fs = l["fetch"]
                break
        if fs == "unset":
            fs = 5000 if case["session_fetch"] == "unset" else case["session_fetch"]
        eff["fetch"] = fs
    t = case["timeout_arg"]
    if t == "unset":
        t = 10.0 if b["timeout"] == "unset" else b["timeout"]
    eff["timeout"] = t
    eff["rf"] = "named" if b["rf"] == "unset" else b["rf"]
    eff["lbp"] = b["lbp"]
    eff["spec"] = bool(b["spec"]) and case["mode"] == "profiles" and case["idempotent"]
    return eff


# ------------------------------------------------------------------ building the world
def _profile(desc, pol, tag):
    from cassandra import ConsistencyLevel as CL
    from cassandra.cluster import ExecutionProfile
    from cassandra.query import dict_factory, tuple_factory
    kw = {"load_balancing_policy": pol["lbp"][(tag, desc["lbp"])]}
    if desc["cl"] is not None:
        kw["consistency_level"] = getattr(CL, desc["cl"])
    if desc["serial"] is not None:
        kw["serial_consistency_level"] = getattr(CL, desc["serial"])
    if desc["retry"] is not None:
        kw["retry_policy"] = pol["retry"][desc["retry"]]
    if desc["timeout"] != "unset":
        kw["request_timeout"] = desc["timeout"]
    if desc["rf"] != "unset":
        kw["row_factory"] = {"tuple": tuple_factory, "dict": dict_factory}[desc["rf"]]
    if desc["spec"]:
        kw["speculative_execution_policy"] = pol["spec"][tag]
    return ExecutionProfile(**kw)


def interpret(case, ctx):
    sim = U.Sim(tape=[], granularity="blocking")
    try:
        with sim:
            _run(case, ctx, sim)
    except U.StepBudgetExceeded:
        ctx.stats.inconclusive += 1
        ctx.label("inconclusive:step-budget")


def _run(case, ctx, sim):
    from cassandra import ConsistencyLevel as CL, OperationTimedOut, Unavailable
    from cassandra.cluster import EXEC_PROFILE_DEFAULT, _NOT_SET
    from cassandra.policies import ConstantSpeculativeExecutionPolicy
    from cassandra.query import (BatchStatement, BoundStatement, FETCH_SIZE_UNSET, SimpleStatement, dict_factory,
                                 tuple_factory)
    pv, mode, use, kind = case["pv"], case["mode"], case["use"], case["kind"]
    net = sim.net

    def on_request(node, conn, req):
        if conn.is_control_connection:
            return None
        if req["op"] in ("EXECUTE", "BATCH") or (req["op"] == "QUERY" and req.get("query", "").startswith("SELECT k")):
            return ("hold",)
        return None
    for a in ADDRS:
        S.fix_legacy_rows(net.add_node(a)).on_request = on_request

    rlog = []
    pol = {"retry": dict((n, S.recording_retry_policy(n, rlog)) for n in ("r-stmt", "r-prep", "r-base", "r-other")),
           "lbp": {}, "spec": {}}
    for tag in ("base", "other"):
        for o in (0, 1):
            pol["lbp"][(tag, o)] = S.tagged(U.fixed_plan_policy(order=ADDRS if o == 0 else ADDRS[::-1]), "%s-%d" % (tag, o))
        pol["spec"][tag] = S.tagged(ConstantSpeculativeExecutionPolicy(0.5, 1), tag)

    base, other = case["base"], case["other"]
    late = None
    if mode == "legacy":
        kw = {"load_balancing_policy": pol["lbp"][("base", base["lbp"])]}
        if base["retry"] is not None:
            kw["default_retry_policy"] = pol["retry"][base["retry"]]
        cluster = sim.make_cluster(ADDRS[:1], protocol_version=pv, **kw)
    else:
        if use == "default":
            profs = {EXEC_PROFILE_DEFAULT: _profile(base, pol, "base"), "decoy": _profile(other, pol, "other")}
        else:
            profs = {EXEC_PROFILE_DEFAULT: _profile(other, pol, "other")}
            if use in ("named", "clone", "instance"):
                profs["p1"] = _profile(base, pol, "base")
            elif use == "added":
                late = _profile(base, pol, "base")
        cluster = sim.make_cluster(ADDRS[:1], protocol_version=pv, execution_profiles=profs)
    with ctx.driver(["C46.setup", "connect"]):
        session = sim.call(cluster.connect, wait_for_all_pools=True)
    if ctx._failures:
        return
    sim.settle()
    ep_arg = EXEC_PROFILE_DEFAULT
    with ctx.driver(["C46.setup", "configure", mode, use]):
        if mode == "legacy":
            if base["cl"] is not None:
                session.default_consistency_level = getattr(CL, base["cl"])
            if base["serial"] is not None:
                session.default_serial_consistency_level = getattr(CL, base["serial"])
            if base["timeout"] != "unset":
                session.default_timeout = base["timeout"]
            if base["rf"] != "unset":
                session.row_factory = {"tuple": tuple_factory, "dict": dict_factory}[base["rf"]]
        elif use == "named":
            ep_arg = "p1"
        elif use == "added":
            sim.call(cluster.add_execution_profile, "p2", late)
            sim.settle()
            ep_arg = "p2"
        elif use == "instance":
            ep_arg = _profile(base, pol, "base")
        elif use == "clone":
            over = {}
            co = case["clone_over"]
            if "cl" in co:
                over["consistency_level"] = getattr(CL, co["cl"])
            if "timeout" in co:
                over["request_timeout"] = co["timeout"]
            if "rf" in co:
                over["row_factory"] = {"tuple": tuple_factory, "dict": dict_factory}[co["rf"]]
            ep_arg = session.execution_profile_clone_update("p1", **over)
        if case["session_fetch"] != "unset":
            session.default_fetch_size = case["session_fetch"]
    if ctx._failures:
        return

    # ---- the statement
    s, p = case["stmt"], case["prep"]

    def opts(d):
        kw = {}
        if d["cl"] is not None:
            kw["consistency_level"] = getattr(CL, d["cl"])
        if d["serial"] is not None:
            kw["serial_consistency_level"] = getattr(CL, d["serial"])
        if d["retry"] is not None:
            kw["retry_policy"] = pol["retry"][d["retry"]]
        return kw
    params = None
    with ctx.driver(["C46.setup", "statement", kind]):
        if kind == "simple":
            kw = opts(s)
            if s["fetch"] != "unset":
                kw["fetch_size"] = s["fetch"]
            stmt = SimpleStatement(Q, is_idempotent=case["idempotent"], **kw)
        elif kind in ("bound", "prepared"):
            prepared = sim.call(session.prepare, Q)
            sim.settle()
            for k, v in opts(p).items():
                setattr(prepared, k, v)
            if p["fetch"] != "unset":
                prepared.fetch_size = p["fetch"]
            prepared.is_idempotent = case["idempotent"]
            if kind == "prepared":
                stmt, params = prepared, ()
            else:
                kw = opts(s)
                if s["fetch"] != "unset":
                    kw["fetch_size"] = s["fetch"]
                if case["bind_style"] == "ctor":
                    stmt = BoundStatement(prepared, **kw)
                else:
                    stmt = prepared.bind(())
                    for k, v in kw.items():
                        setattr(stmt, k, v)
        else:
            stmt = BatchStatement(**opts(s))
            stmt.add(SimpleStatement("INSERT INTO t (k) VALUES (1)", consistency_level=CL.THREE,
                                     serial_consistency_level=None))
            stmt.add("INSERT INTO t (k) VALUES (2)")
            stmt.is_idempotent = case["idempotent"]
    if ctx._failures:
        return
    eff = reference(case)
    targ = case["timeout_arg"]
    mark = len(net.requests)
    fut = None
    with ctx.driver(["C46.execute", kind, "v%d" % pv]):
        fut = sim.call(session.execute_async, stmt, params, timeout=_NOT_SET if targ == "unset" else targ,
                       execution_profile=ep_arg)
    if fut is None:
        return
    t0 = sim.world.now
    sim.settle()

    def mine():
        return [(n, c, r) for (n, c, r) in net.requests[mark:] if not c.is_control_connection and (
            r["op"] in ("EXECUTE", "BATCH") or (r["op"] == "QUERY" and r.get("query", "").startswith("SELECT k")))]
    sent = mine()
    feat = [kind, "v%d" % pv, mode if mode == "legacy" else use]
    if kind == "batch" and pv == 2 and eff["serial"] is not None:
        # a v2 BATCH frame cannot carry a serial consistency: the documented behaviour is a rejection
        # (UnsupportedOperation), never a frame that silently lacks the value in effect
        from cassandra import UnsupportedOperation
        errs = getattr(fut._final_exception, "errors", None) or {}
        rejected = isinstance(fut._final_exception, UnsupportedOperation) or (
            isinstance(errs, dict) and errs and all(isinstance(e, UnsupportedOperation) for e in errs.values()))
        if sent:
            ctx.fail(["C46.wire", "serial_consistency", "batch", "v2"],
                     "request carries serial consistency %r, in effect %r" % (sent[0][2].get("serial_consistency"), eff["serial"]))
        elif not rejected:
            ctx.fail(["C46.reject", "batch-serial-v2", "not-UnsupportedOperation"], "future: %r" % (fut._final_exception,))
        sim.call(cluster.shutdown)
        ctx.label("rejected:batch-serial-v2", "kind=batch", "v2")
        ctx.nontrivial(_conflicts(case) >= 1)
        return
    if not sent:
        ctx.fail(["C46.sent", "nothing"] + feat, "no request reached a server; future: %r" % (fut._final_exception,))
        return
    node, conn, req = sent[0]

    # ---- the encoded request
    if req.get("consistency") != CL_CODE[eff["cl"]]:
        ctx.fail(["C46.wire", "consistency", kind, _src(case, "cl")],
                 "request carries consistency %r, in effect %s (%d)" % (req.get("consistency"), eff["cl"], CL_CODE[eff["cl"]]))
    want_ser = None if eff["serial"] is None else CL_CODE[eff["serial"]]
    if req.get("serial_consistency") != want_ser:
        ctx.fail(["C46.wire", "serial_consistency", kind, "v%d" % pv if (kind == "batch" and pv == 2) else _src(case, "serial")],
                 "request carries serial consistency %r, in effect %r" % (req.get("serial_consistency"), eff["serial"]))
    if req.get("page_size") != eff["fetch"]:
        ctx.fail(["C46.wire", "page_size", kind, _src(case, "fetch")],
                 "request carries page size %r, in effect %r" % (req.get("page_size"), eff["fetch"]))
    # ---- the future
    if fut.timeout != eff["timeout"]:
        ctx.fail(["C46.future", "timeout", "arg=%s" % ("unset" if targ == "unset" else ("none" if targ is None else "set"))],
                 "future.timeout %r, in effect %r" % (fut.timeout, eff["timeout"]))
    got_rp = getattr(fut._retry_policy, "_tag", "default" if type(fut._retry_policy).__name__ == "RetryPolicy" else "?")
    if got_rp != eff["retry"]:
        ctx.fail(["C46.future", "retry_policy", kind, _src(case, "retry")],
                 "future carries retry policy %r, in effect %r" % (got_rp, eff["retry"]))
    want_lbp = "base-%d" % eff["lbp"]
    if getattr(fut._load_balancer, "_tag", "?") != want_lbp:
        ctx.fail(["C46.future", "load_balancer", mode if mode == "legacy" else use],
                 "future uses load balancer %r, in effect %r" % (getattr(fut._load_balancer, "_tag", "?"), want_lbp))
    want_node = ADDRS[0] if eff["lbp"] == 0 else ADDRS[1]
    if node.address != want_node:
        ctx.fail(["C46.behaviour", "first-host", mode if mode == "legacy" else use],
                 "request went to %s first; the policy in effect starts with %s" % (node.address, want_node))
    rf_name = {"tuple_factory": "tuple", "dict_factory": "dict", "named_tuple_factory": "named"}.get(
        getattr(fut.row_factory, "__name__", "?"), "?")
    if rf_name != eff["rf"]:
        ctx.fail(["C46.future", "row_factory", mode if mode == "legacy" else use],
                 "future.row_factory is %s, in effect %s" % (rf_name, eff["rf"]))

    # ---- behaviour
    probe = case["probe"]
    if probe == "rows":
        U.release(net, node, conn, req, "rows")
        sim.settle()
        rows = None
        with ctx.driver(["C46.behaviour", "rows", "result"]):
            rows = list(sim.call(fut.result))
        if rows is not None:
            if len(rows) != 1:
                ctx.fail(["C46.behaviour", "rows", "count"], "1 row answered, %d returned" % len(rows))
            else:
                r = rows[0]
                shape = "dict" if isinstance(r, dict) else ("named" if hasattr(r, "_fields") else (
                    "tuple" if type(r) is tuple else "?"))
                if shape != eff["rf"]:
                    ctx.fail(["C46.behaviour", "row-shape", mode if mode == "legacy" else use],
                             "rows are %s, row factory in effect is %s" % (shape, eff["rf"]))
    elif probe == "error":
        U.release(net, node, conn, req, "unavailable")
        sim.settle()
        consulted = [e["tag"] for e in rlog]
        if eff["retry"] == "default":
            # the stock RetryPolicy retries an Unavailable once on the next host
            if consulted:
                ctx.fail(["C46.behaviour", "retry-consulted", kind, _src(case, "retry")],
                         "policies consulted %r; in effect: the default policy" % (consulted,))
            elif len(mine()) != 2:
                ctx.fail(["C46.behaviour", "default-retry", kind], "default RetryPolicy should retry on the next host once; "
                         "requests seen %d" % len(mine()))
        elif consulted != [eff["retry"]]:
            ctx.fail(["C46.behaviour", "retry-consulted", kind, _src(case, "retry")],
                     "policies consulted %r; in effect %r" % (consulted, eff["retry"]))
        elif not isinstance(fut._final_exception, Unavailable):
            ctx.fail(["C46.behaviour", "rethrow"], "policy said RETHROW; future has %r" % (fut._final_exception,))
    elif probe == "timeout":
        t = eff["timeout"]
        if t is None:
            sim.advance(100.0)
            if fut._event.is_set():
                ctx.fail(["C46.behaviour", "timeout", "none-but-fired"], "no timeout in effect but the future completed: %r" % (
                    fut._final_exception,))
        elif not eff["spec"]:
            sim.advance(max(0.0, t0 + t - 0.01 - sim.world.now))
            if fut._event.is_set():
                ctx.fail(["C46.behaviour", "timeout", "early"], "timeout %r in effect; future completed before it: %r" % (
                    t, fut._final_exception,))
            sim.advance(0.02)
            if not fut._event.is_set() or not isinstance(fut._final_exception, OperationTimedOut):
                ctx.fail(["C46.behaviour", "timeout", "late"], "timeout %r in effect; at t+0.01 the future has %r" % (
                    t, fut._final_exception,))
    elif probe == "spec":
        t = eff["timeout"]
        if t is None or t > 1.0:
            sim.advance(0.6)
            n = len(mine())
            if n != (2 if eff["spec"] else 1):
                ctx.fail(["C46.behaviour", "speculative", "expected" if eff["spec"] else "unexpected",
                          mode if mode == "legacy" else use],
                         "%d request(s) after the speculative delay; speculative policy in effect: %r (idempotent=%r)" % (
                             n, eff["spec"], case["idempotent"]))
        plan_tag = getattr(fut._spec_execution_plan, "_policy_tag", None)
        want = "base" if eff["spec"] else None
        if plan_tag != want:
            ctx.fail(["C46.future", "spec_plan", mode if mode == "legacy" else use],
                     "speculative plan from policy %r, in effect %r" % (plan_tag, want))
    sim.call(cluster.shutdown)
    for nm, e in sim.world.actor_errors:
        ctx.fail(["C46.thread-error", type(e).__name__], "virtual thread %s died with %r" % (nm, e))
        break
    ctx.label("kind=" + kind, "v%d" % pv, "mode=" + (mode if mode == "legacy" else use), "probe=" + probe,
              "cl<-" + _src(case, "cl"), "serial<-" + _src(case, "serial"), "retry<-" + _src(case, "retry"),
              "fetch<-" + _src(case, "fetch"))
    ctx.nontrivial(_conflicts(case) >= 1)


def _levels(case):
    lv = []
    if case["kind"] != "prepared":
        lv.append(("stmt", case["stmt"]))
    if case["kind"] in ("bound", "prepared"):
        lv.append(("prep", case["prep"]))
    return lv


def _src(case, opt):
    """which level provides the value in effect"""
    for name, d in _levels(case):
        v = d[opt]
        if (opt == "fetch" and v != "unset") or (opt != "fetch" and v is not None):
            return name
    if opt == "fetch":
        return "session" if case["session_fetch"] != "unset" else "default"
    b = case["base"]
    if case["use"] == "clone" and opt in case["clone_over"]:
        return "clone"
    return "base" if b[opt] is not None else "default"


def _conflicts(case):
    n = 0
    for opt in ("cl", "serial", "retry"):
        vals = [d[opt] for _n, d in _levels(case)] + [case["base"][opt]]
        if len(set(v for v in vals if v is not None)) >= 2:
            n += 1
    fv = [d["fetch"] for _n, d in _levels(case)] + [case["session_fetch"]]
    if len(set(repr(v) for v in fv if v != "unset")) >= 2:
        n += 1
    if case["timeout_arg"] != "unset" and case["base"]["timeout"] != "unset" and case["timeout_arg"] != case["base"]["timeout"]:
        n += 1
    for opt in ("rf", "lbp", "spec"):
        if case["mode"] == "profiles" and case["base"][opt] != case["other"][opt]:
            n += 1
    return n


# ------------------------------------------------------------------ generation
s_cl = st.sampled_from([None, None] + CLS)
s_serial = st.sampled_from([None, None, "SERIAL", "LOCAL_SERIAL"])
s_fetch = st.sampled_from(["unset", "unset", None, 1, 7, 5000, 100000])
s_timeout = st.sampled_from(["unset", "unset", None, 0.7, 2.5, 10.0, 30.0])


def s_level(retry_name):
    return st.fixed_dictionaries({"cl": s_cl, "serial": s_serial, "retry": st.sampled_from([None, retry_name]),
                                  "fetch": s_fetch})


def s_prof(retry_name):
    return st.fixed_dictionaries({"cl": s_cl, "serial": s_serial, "retry": st.sampled_from([None, retry_name]),
                                  "timeout": s_timeout, "rf": st.sampled_from(["unset", "tuple", "dict"]),
                                  "lbp": st.integers(0, 1), "spec": st.booleans()})


@st.composite
def s_case(draw):
    pv = draw(st.sampled_from([1, 2, 3, 4, 4, 5, 5]))
    mode = draw(st.sampled_from(["profiles", "profiles", "legacy"]))
    use = draw(st.sampled_from(["default", "named", "added", "instance", "clone"])) if mode == "profiles" else "session"
    kind = draw(st.sampled_from(["simple", "bound", "bound", "prepared", "batch"] if pv >= 2 else ["simple", "bound", "prepared"]))
    case = {"pv": pv, "mode": mode, "use": use, "kind": kind,
            "stmt": draw(s_level("r-stmt")), "prep": draw(s_level("r-prep")),
            "base": draw(s_prof("r-base")), "other": draw(s_prof("r-other")),
            "session_fetch": draw(s_fetch), "timeout_arg": draw(s_timeout), "idempotent": draw(st.booleans()),
            "bind_style": draw(st.sampled_from(["ctor", "attrs"])),
            "probe": draw(st.sampled_from(["rows", "error", "timeout", "spec"])), "clone_over": {}}
    if use == "clone":
        co = {}
        if draw(st.booleans()):
            co["cl"] = draw(st.sampled_from(CLS))
        if draw(st.booleans()):
            co["timeout"] = draw(st.sampled_from([None, 0.7, 4.0]))
        if draw(st.booleans()):
            co["rf"] = draw(st.sampled_from(["tuple", "dict"]))
        case["clone_over"] = co
    return normalize(case)


def normalize(case):
    """keep the case inside the documented domain"""
    if case["pv"] == 1:
        for d in (case["stmt"], case["prep"], case["base"], case["other"]):
            d["serial"] = None
    if case["mode"] == "legacy":
        case["base"]["spec"] = False
        case["other"] = dict(case["base"])
    if case["kind"] == "batch":
        case["stmt"]["fetch"] = "unset"
    if case["kind"] not in ("bound", "prepared"):
        case["prep"] = {"cl": None, "serial": None, "retry": None, "fetch": "unset"}
    if case["kind"] == "prepared":
        case["stmt"] = {"cl": None, "serial": None, "retry": None, "fetch": "unset"}
    return case


# one option at a time: the full product of its placements
def enum_chunks(tier):
    opts = ("cl", "serial", "retry", "fetch", "timeout", "rf-lbp-spec")
    if tier == "thorough":
        return [{"opt": o, "pv": pv} for o in opts for pv in (1, 2, 3, 4, 5)]
    return [{"opt": o, "pv": 4} for o in opts] + [{"opt": "serial", "pv": 2}, {"opt": "fetch", "pv": 1}]


def enum_cases(chunk):
    opt, pv = chunk["opt"], chunk["pv"]
    blank_l = {"cl": None, "serial": None, "retry": None, "fetch": "unset"}
    blank_p = {"cl": None, "serial": None, "retry": None, "timeout": "unset", "rf": "unset", "lbp": 0, "spec": False}
    kinds = ["simple", "bound", "prepared", "batch"] if pv >= 2 else ["simple", "bound", "prepared"]
    uses = [("profiles", "default"), ("profiles", "named"), ("profiles", "instance"), ("legacy", "session")]
    vals = {"cl": [None, "ANY", "QUORUM"], "serial": [None, "SERIAL"], "retry": [None, True], "fetch": ["unset", None, 7]}
    for kind in kinds:
        for mode, use in uses:
            def mk(**kw):
                c = {"pv": pv, "mode": mode, "use": use, "kind": kind, "stmt": dict(blank_l), "prep": dict(blank_l),
                     "base": dict(blank_p), "other": dict(blank_p, lbp=1), "session_fetch": "unset", "timeout_arg": "unset",
                     "idempotent": True, "bind_style": "ctor", "probe": "rows", "clone_over": {}}
                c.update(kw)
                return c
            if opt in ("cl", "serial", "retry"):
                if opt == "serial" and pv == 1:
                    continue
                for a in vals[opt]:
                    for b in vals[opt]:
                        for c_ in vals[opt]:
                            for d in vals[opt][:2]:
                                case = mk(probe="error" if opt == "retry" else "rows")
                                names = ("r-stmt", "r-prep", "r-base", "r-other")
                                for lvl, v, nm in zip(("stmt", "prep", "base", "other"), (a, b, c_, d), names):
                                    if opt == "retry":
                                        v = nm if v else None
                                    elif v is not None and lvl in ("prep", "other") and opt == "cl":
                                        v = {"ANY": "TWO", "QUORUM": "ALL"}[v]     # distinct values per level
                                    case[lvl][opt] = v
                                yield normalize(case)
            elif opt == "fetch":
                for a in vals["fetch"]:
                    for b in vals["fetch"]:
                        for c_ in ["unset", None, 11]:
                            case = mk()
                            case["stmt"]["fetch"] = a
                            case["prep"]["fetch"] = b if b != 7 else 9
                            case["session_fetch"] = c_
                            yield normalize(case)
            elif opt == "timeout":
                for a in ["unset", None, 0.7]:
                    for b in ["unset", None, 2.5]:
                        for d in ["unset", 30.0]:
                            case = mk(probe="timeout", timeout_arg=a)
                            case["base"]["timeout"] = b
                            case["other"]["timeout"] = d
                            yield normalize(case)
            else:
                for rf in ["unset", "tuple", "dict"]:
                    for lbp in (0, 1):
                        for spec in (False, True):
                            for idem in (False, True):
                                case = mk(probe="spec" if spec or idem else "rows", idempotent=idem)
                                case["base"].update(rf=rf, lbp=lbp, spec=spec)
                                case["other"].update(rf="dict" if rf != "dict" else "tuple", lbp=1 - lbp, spec=not spec)
                                yield normalize(case)


def parts(tier):
    return [
        hyp_part("placements", s_case, interpret, tier, quick=130, thorough=2500, quick_shards=6, thorough_shards=14),
        EnumPart("one-option-products", enum_chunks(tier), enum_cases, interpret, exhaustive=(tier == "thorough")),
    ]
