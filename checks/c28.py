"""C28 -- type descriptors round-trip between Cassandra (marshal class) and CQL notation."""
import re

from hypothesis import strategies as st

from spec import cqllex
from spec import values as V
from vlib.harness import EnumPart, hyp_part

PID = "C28"
TITLE = "Type descriptors round-trip between Cassandra and CQL notation"
LEVEL = "exploration"
ENGINE = "codec"
TECHNIQUE = ("property-based testing (Hypothesis): two independent printers (marshal-class notation, CQL notation) of "
             "generated type trees, structural comparison of the parsed driver types with the tree, differential "
             "value-codec comparison between the parsed type and the type built directly from the tree "
             "(the statement does not ask cass_parameterized_type() to re-parse, so that is not checked)")
RULE = ("Type trees of depth <= 4 (<= 3 in quick) from spec.values.type_trees (all 21 scalars, list/set/map/tuple/udt/"
        "vector, frozen wrappers, reversed at top level only) whose UDT and field names are replaced by names drawn from "
        "classes (plain identifiers incl. names whose hex form is all decimal digits such as 'address', names needing "
        "quotes, names with \" ' \\ < > , characters, non-ASCII names); plus CompositeType / DynamicCompositeType / "
        "unknown custom classes for the unrecognised path.  The marshal descriptor is printed with/without the "
        "org.apache.cassandra.db.marshal. prefix and with optional whitespace; the CQL string with optional whitespace.  "
        "The CQL-string part adds, by construction, containers with several frozen<> parameters side by side and types nested "
        "3-5 levels in which a level without any frozen<> parameter has a frozen<> further down (class counters "
        "frozen-siblings / frozen-below-unfrozen-level).  "
        "Non-trivial: container depth >= 3, or a UDT/vector inside a collection, or >= 2 frozen wrappers, or a UDT name "
        "that is not a plain lower-case identifier, or a composite/custom class.")
ASSUMPTIONS = [
    "frozen<frozen<X>> is accepted as a spelling of frozen<X> (Cassandra's parser treats freezing as idempotent); every other difference in the CQL name counts",
    "ReversedType only occurs at the top of a clustering column type; its CQL name is taken through cassandra.metadata._cql_from_cass_type, as the schema parser does",
    "a bare UserType(...) descriptor denotes a frozen UDT (Cassandra 2.1/2.2, the only servers whose schema tables carry marshal descriptors); tuples are always frozen",
    "value-codec equality is differential: parsed type vs. the type built directly from the tree (checks/_drv.build_type) on values from spec.values.value_for; correctness of the codec itself is C01's business",
]

P = "org.apache.cassandra.db.marshal."
_CASS = {"ascii": "AsciiType", "bigint": "LongType", "blob": "BytesType", "boolean": "BooleanType",
         "counter": "CounterColumnType", "date": "SimpleDateType", "decimal": "DecimalType", "double": "DoubleType",
         "duration": "DurationType", "float": "FloatType", "inet": "InetAddressType", "int": "Int32Type",
         "smallint": "ShortType", "text": "UTF8Type", "varchar": "UTF8Type", "time": "TimeType",
         "timestamp": "TimestampType", "timeuuid": "TimeUUIDType", "tinyint": "ByteType", "uuid": "UUIDType",
         "varint": "IntegerType"}
# the CQL name Cassandra gives to the class (UTF8Type is 'text' whichever alias created the column)
_CQL_OF_CLASS = {v: k for k, v in _CASS.items() if k != "varchar"}

_PLAIN_NAMES = ["address", "user", "type", "mytype", "name", "a_b", "zone", "x9_", "location", "k", "model", "json_doc"]
_QUOTE_NAMES = ["My Type", "Upper", "with-dash", "select", "1abc", "true", "a.b"]
_HARD_NAMES = ['a"b', "a'b", "a\\b", "a>b", "a, b", "a<b", "é", "типы", "名前"]
_FIELD_NAMES = ["a", "b", "street", "zip", "id", "f1", "Name", "my field", "1st", 'q"q', "é", "from", "x'y"]


def _name_class(n):
    if not n.isascii():
        return "non-ascii"
    if "'" in n:
        return "squote"
    if "\\" in n:
        return "backslash"
    if '"' in n:
        return "dquote"
    if any(c in n for c in "<>,"):
        return "angle-comma"
    if cqllex.needs_quotes(n):
        return "needs-quotes"
    if n.encode().hex().isdigit():
        return "digit-hex"
    return "plain"


# ---------------------------------------------------------------------------------------------
# the two printers
# ---------------------------------------------------------------------------------------------
def _hex(s):
    return s.encode("utf-8").hex()


def to_cass(tree, full=lambda i: True, ws=lambda i: "", _n=None):
    """marshal-class notation; `full(i)` decides per node whether the package prefix is written,
    `ws(i)` gives optional whitespace after the i-th separator"""
    n = _n if _n is not None else [0]

    def pre():
        n[0] += 1
        return P if full(n[0]) else ""

    def sep(ch):
        n[0] += 1
        return ch + ws(n[0])

    t = tree["t"]
    if t in _CASS:
        return pre() + tree.get("alias", _CASS[t])
    if t in ("list", "set", "frozen", "reversed"):
        cls = {"list": "ListType", "set": "SetType", "frozen": "FrozenType", "reversed": "ReversedType"}[t]
        return "%s%s%s%s)" % (pre(), cls, sep("("), to_cass(tree["of"], full, ws, n))
    if t == "map":
        return "%sMapType%s%s%s%s)" % (pre(), sep("("), to_cass(tree["k"], full, ws, n), sep(","), to_cass(tree["v"], full, ws, n))
    if t == "tuple":
        head = "%sTupleType%s" % (pre(), sep("("))
        return head + "".join((sep(",") if i else "") + to_cass(c, full, ws, n) for i, c in enumerate(tree["of"])) + ")"
    if t == "udt":
        out = "%sUserType%s%s%s%s" % (pre(), sep("("), tree["ks"], sep(","), _hex(tree["name"]))
        for fname, ftype in tree["fields"]:
            out += "%s%s:%s" % (sep(","), _hex(fname), to_cass(ftype, full, ws, n))
        return out + ")"
    if t == "vector":
        return "%sVectorType%s%s %s%d)" % (pre(), sep("("), to_cass(tree["of"], full, ws, n), sep(","), tree["dim"])
    if t == "composite":
        head = "%sCompositeType%s" % (pre(), sep("("))
        return head + "".join((sep(",") if i else "") + to_cass(c, full, ws, n) for i, c in enumerate(tree["of"])) + ")"
    if t == "dynamic":
        head = "%sDynamicCompositeType%s" % (pre(), sep("("))
        return head + "".join((sep(",") if i else "") + "%s=>%s" % (a, to_cass(c, full, ws, n))
                              for i, (a, c) in enumerate(tree["aliases"])) + ")"
    if t == "custom":
        return tree["cls"]
    raise ValueError(t)


def _q(name):
    return name if not cqllex.needs_quotes(name) else cqllex.quote_ident(name)


def to_cql(tree, ws=lambda i: " ", descriptor=True, _n=None):
    """CQL notation.  descriptor=True: the CQL name of the type a marshal descriptor denotes (tuple and UDT
    always frozen, reversed transparent, varchar is text, composites/custom classes as quoted class strings).
    descriptor=False: the tree printed literally (frozen only where the tree says so), as system_schema does."""
    n = _n if _n is not None else [0]

    def sep():
        n[0] += 1
        return "," + ws(n[0])

    def rec(x):
        return to_cql(x, ws, descriptor, n)

    t = tree["t"]
    if t in _CASS:
        if descriptor:
            return _CQL_OF_CLASS[tree.get("alias", _CASS[t])] if tree.get("alias", _CASS[t]) in _CQL_OF_CLASS else "timestamp"
        return t
    if t in ("list", "set"):
        return "%s<%s>" % (t, rec(tree["of"]))
    if t == "map":
        return "map<%s%s%s>" % (rec(tree["k"]), sep(), rec(tree["v"]))
    if t == "frozen":
        return "frozen<%s>" % rec(tree["of"])
    if t == "reversed":
        return rec(tree["of"])
    if t == "tuple":
        body = "tuple<%s>" % "".join((sep() if i else "") + rec(c) for i, c in enumerate(tree["of"]))
        return "frozen<%s>" % body if descriptor else body
    if t == "udt":
        return "frozen<%s>" % _q(tree["name"]) if descriptor else _q(tree["name"])
    if t == "vector":
        return "vector<%s%s%d>" % (rec(tree["of"]), sep(), tree["dim"])
    if t in ("composite", "dynamic"):
        return "'%s'" % to_cass(tree)
    if t == "custom":
        return "'%s'" % tree["cls"]
    raise ValueError(t)


def remove_frozen(tree):
    t = tree["t"]
    if t == "frozen":
        return remove_frozen(tree["of"])
    out = dict(tree)
    if t in ("list", "set", "vector", "reversed"):
        out["of"] = remove_frozen(tree["of"])
    elif t == "map":
        out["k"], out["v"] = remove_frozen(tree["k"]), remove_frozen(tree["v"])
    elif t in ("tuple", "composite"):
        out["of"] = [remove_frozen(c) for c in tree["of"]]
    elif t == "udt":
        pass     # the CQL string of a UDT is just its name
    return out


def _squash(s):
    """remove whitespace outside double-quoted names (blanks inside a quoted *class string* do not count:
    Cassandra's TypeParser skips them)"""
    out, q = [], False
    for ch in s:
        if q:
            out.append(ch)
            if ch == '"':
                q = False
        elif ch == '"':
            q = True
            out.append(ch)
        elif not ch.isspace():
            out.append(ch)
    return "".join(out)


def _collapse_frozen(s):
    """frozen<frozen<X>> -> frozen<X>, repeatedly (on a whitespace-squashed string)"""
    prev = None
    while prev != s:
        prev = s
        s = _collapse_once(s)
    return s


def _collapse_once(s):
    key = "frozen<frozen<"
    i = s.find(key)
    while i >= 0:
        # find the '>' matching the inner frozen<
        j = i + len(key)
        depth, q = 1, None
        while j < len(s) and depth:
            ch = s[j]
            if q:
                if ch == q:
                    q = None
            elif ch in "\"'":
                q = ch
            elif ch == "<":
                depth += 1
            elif ch == ">":
                depth -= 1
            j += 1
        if depth == 0 and j < len(s) and s[j] == ">":
            return s[:i] + "frozen<" + s[i + len(key):j] + s[j + 1:]
        i = s.find(key, i + 1)
    return s


# ---------------------------------------------------------------------------------------------
# tree helpers
# ---------------------------------------------------------------------------------------------
def _children(tree):
    t = tree["t"]
    if t in ("list", "set", "frozen", "reversed", "vector"):
        return [tree["of"]]
    if t == "map":
        return [tree["k"], tree["v"]]
    if t in ("tuple", "composite"):
        return list(tree["of"])
    if t == "udt":
        return [f[1] for f in tree["fields"]]
    if t == "dynamic":
        return [a[1] for a in tree["aliases"]]
    return []


def _walk(tree):
    yield tree
    for c in _children(tree):
        for x in _walk(c):
            yield x


def _depth(tree):
    t = tree["t"]
    if t in _CASS or t == "custom":
        return 0
    if t in ("frozen", "reversed"):
        return _depth(tree["of"])
    return 1 + max([_depth(c) for c in _children(tree)] or [0])


def _nontrivial(tree):
    nodes = list(_walk(tree))
    frozen = sum(1 for x in nodes if x["t"] == "frozen")
    inside = any(c["t"] in ("udt", "vector") or (c["t"] == "frozen" and c["of"]["t"] in ("udt", "vector"))
                 for x in nodes if x["t"] in ("list", "set", "map") for c in _children(x))
    odd_name = any(x["t"] == "udt" and _name_class(x["name"]) != "plain" for x in nodes)
    exotic = any(x["t"] in ("composite", "dynamic", "custom") for x in nodes)
    return _depth(tree) >= 3 or inside or frozen >= 2 or odd_name or exotic


def _features(tree):
    f = set()
    for x in _walk(tree):
        if x["t"] == "udt":
            f.add("udt-name:" + _name_class(x["name"]))
            for fn, _ in x["fields"]:
                if _name_class(fn) not in ("plain", "digit-hex"):
                    f.add("udt-field:" + _name_class(fn))
        elif x["t"] in ("vector", "composite", "dynamic", "custom", "tuple", "reversed"):
            f.add(x["t"])
    return f


def _rename(tree, names, fnames):
    """replace UDT / field names by the drawn ones (walk order), keep (ks, name) unique per tree"""
    pos = [0, 0]
    seen = {}

    def walk(t):
        t = dict(t)
        k = t["t"]
        if k in ("list", "set", "vector", "frozen", "reversed"):
            t["of"] = walk(t["of"])
        elif k == "map":
            t["k"], t["v"] = walk(t["k"]), walk(t["v"])
        elif k == "tuple":
            t["of"] = [walk(c) for c in t["of"]]
        elif k == "udt":
            name = names[pos[0] % len(names)]
            pos[0] += 1
            c = seen.get(name, 0)
            seen[name] = c + 1
            if c:
                name = "%s_%d" % (name, c)
            used = set()
            fields = []
            for _fn, ft in t["fields"]:
                fn = fnames[pos[1] % len(fnames)]
                pos[1] += 1
                while fn in used:
                    fn = fn + "_"
                used.add(fn)
                fields.append([fn, walk(ft)])
            t["name"], t["fields"] = name, fields
        return t
    return walk(tree)


# ---------------------------------------------------------------------------------------------
# structural comparison of a parsed driver type with a tree
# ---------------------------------------------------------------------------------------------
def _structure(P_, tree, path="$"):
    """-> None or (node kind, message) for the first mismatch (children first)"""
    from cassandra import cqltypes as C
    t = tree["t"]
    if isinstance(P_, int) or not isinstance(P_, type):
        return (t, "%s: parsed to %r, not a type" % (path, P_))
    if t in _CASS:
        want = getattr(C, tree.get("alias", _CASS[t]))
        return None if P_ is want else ("scalar", "%s: %s parsed to %s" % (path, _CASS[t], P_.__name__))
    base = {"list": C.ListType, "set": C.SetType, "map": C.MapType, "tuple": C.TupleType, "udt": C.UserType,
            "frozen": C.FrozenType, "reversed": C.ReversedType, "vector": C.VectorType,
            "composite": C.CompositeType, "dynamic": C.DynamicCompositeType}.get(t)
    if t == "custom":
        ok = P_.typename == "'%s'" % tree["cls"] and P_.cassname == tree["cls"] and not P_.subtypes
        return None if ok else ("custom", "%s: class %s parsed to typename %r cassname %r" % (path, tree["cls"], P_.typename, P_.cassname))
    if not issubclass(P_, base) or P_ is base or (t == "tuple" and issubclass(P_, C.UserType)):
        return (t, "%s: expected a parameterised %s, got %s" % (path, base.__name__, P_.__name__))
    if t == "vector":
        if P_.vector_size != tree["dim"]:
            return (t, "%s: vector dimension %r, expected %d" % (path, P_.vector_size, tree["dim"]))
        return _structure(P_.subtype, tree["of"], path + ".of")
    subs = _children(tree)
    if len(P_.subtypes) != len(subs):
        return (t, "%s: %d subtypes, expected %d" % (path, len(P_.subtypes), len(subs)))
    for i, (ps, ts) in enumerate(zip(P_.subtypes, subs)):
        r = _structure(ps, ts, "%s.%d" % (path, i))
        if r:
            return r
    if t == "udt":
        if P_.keyspace != tree["ks"] or P_.typename != tree["name"]:
            return (t, "%s: UDT %r.%r parsed as %r.%r" % (path, tree["ks"], tree["name"], P_.keyspace, P_.typename))
        if tuple(P_.fieldnames) != tuple(f[0] for f in tree["fields"]):
            return (t, "%s: field names %r, expected %r" % (path, P_.fieldnames, [f[0] for f in tree["fields"]]))
    if t == "dynamic":
        if tuple(P_.fieldnames) != tuple(a[0] for a in tree["aliases"]):
            return (t, "%s: aliases %r, expected %r" % (path, P_.fieldnames, [a[0] for a in tree["aliases"]]))
    return None


def _norm_type(t):
    """type tree read from a CQL string -> comparable form (frozen<frozen<X>> == frozen<X>; blanks inside a quoted
    class string do not count: Cassandra's TypeParser skips them)"""
    k = t["t"]
    if k == "frozen":
        inner = _norm_type(t["of"])
        return inner if inner["t"] == "frozen" else {"t": "frozen", "of": inner}
    if k == "custom":
        return {"t": "custom", "cls": "".join(t["cls"].split())}
    out = dict(t)
    if k in ("list", "set", "vector"):
        out["of"] = _norm_type(t["of"])
    elif k == "map":
        out["k"], out["v"] = _norm_type(t["k"]), _norm_type(t["v"])
    elif k == "tuple":
        out["of"] = [_norm_type(c) for c in t["of"]]
    return out


def _same_cql_type(got_text, want_text):
    """two CQL type strings name the same type, as read by the independent CQL type parser (so an identifier
    the driver quotes although it need not is fine, whitespace is free)"""
    from spec import cqlterm
    want = _norm_type(cqlterm.parse_type(want_text))
    try:
        got = _norm_type(cqlterm.parse_type(got_text))
    except ValueError:
        return False
    return got == want


def _cql_name_of(Pt):
    from cassandra.metadata import _cql_from_cass_type
    return _cql_from_cass_type(Pt)


def _name_mismatch(Pt, tree):
    """smallest subtree whose CQL name differs: (kind/feature, got, want) or None"""
    t = tree["t"]
    psubs = None
    if t == "vector":
        psubs = [getattr(Pt, "subtype", None)]
    elif _children(tree):
        psubs = list(getattr(Pt, "subtypes", ()))
    if psubs and len(psubs) == len(_children(tree)):
        for ps, ts in zip(psubs, _children(tree)):
            if isinstance(ps, type):
                r = _name_mismatch(ps, ts)
                if r:
                    return r
    if t == "reversed":
        return None    # only judged through _cql_from_cass_type at the top
    raw = Pt.cql_parameterized_type()
    if _same_cql_type(raw, to_cql(tree)):
        return None
    feat = t
    if t == "udt":
        # one root cause for every name that needs quoting: the name is printed bare
        feat = "udt-name:needs-quotes" if cqllex.needs_quotes(tree["name"]) else "udt-name:" + _name_class(tree["name"])
    return (feat, raw, to_cql(tree))


# ---------------------------------------------------------------------------------------------
# part: descriptor
# ---------------------------------------------------------------------------------------------
def _style_fns(style):
    fmask, wmask = style["full"], style["ws"]
    full = (lambda i: True) if fmask == -1 else ((lambda i: False) if fmask == 0 else (lambda i: (fmask >> (i % 24)) & 1 == 1))
    ws = (lambda i: "") if wmask == 0 else (lambda i: " " if (wmask >> (i % 24)) & 1 else "")
    return full, ws


def interpret_descriptor(case, ctx):
    import logging
    from cassandra import cqltypes as C
    logging.getLogger("cassandra").addHandler(logging.NullHandler())
    logging.getLogger("cassandra").propagate = False
    tree = case["tree"]
    full, ws = _style_fns(case["style"])
    text = to_cass(tree, full, ws)
    feats = sorted(_features(tree))
    for f in feats:
        ctx.label("has:" + f)
    ctx.label("depth:%d" % min(_depth(tree), 5))
    ctx.nontrivial(_nontrivial(tree))

    parsed = None
    try:
        parsed = C.lookup_casstype(text)
    except Exception as e:  # noqa -- attributed structurally below
        cause = _blame(tree, e)
        ctx.fail(["C28.lookup", cause, "raises", type(e).__name__], "lookup_casstype(%r) raised %s: %s" % (text[:300], type(e).__name__, str(e)[:200]))
        return
    r = _structure(parsed, tree)
    if r:
        ctx.fail(["C28.parse.structure", r[0]], "%s  [descriptor %r]" % (r[1], text[:300]))
        return

    # --- same CQL name
    with ctx.driver(["C28.cql_name", "raises"]):
        r = _name_mismatch(parsed, tree)
        if r:
            ctx.fail(["C28.cql_name", r[0]], "CQL name %r, Cassandra calls it %r  [descriptor %r]" % (r[1], r[2], text[:200]))
        elif tree["t"] == "reversed":
            got, want = _cql_name_of(parsed), to_cql(tree)
            ctx.check(_same_cql_type(got, want), ["C28.cql_name", "reversed"], "CQL name %r, expected %r" % (got, want))
        ctx.check(C.cql_typename(text) == parsed.cql_parameterized_type(), ["C28.cql_typename.differs"],
                  "cql_typename(s) != lookup_casstype(s).cql_parameterized_type()")

    # --- same value codec as the type built directly from the tree
    if case.get("value") is not None:
        _codec(case, ctx, parsed)


def _blame(tree, exc):
    """which generated feature a parse failure is attributed to (deterministic function of case + exception)"""
    msg = str(exc)
    udts = [x for x in _walk(tree) if x["t"] == "udt"]
    if "codec can't decode" in msg and any(not n.isascii() for x in udts for n in [x["name"]] + [f[0] for f in x["fields"]]):
        return "udt-names:non-ascii"      # type and field names go through the same decoder
    if "'int' object" in msg and any(_hex(x["name"]).isdigit() for x in udts):
        return "udt-name:digit-hex"
    for x in _walk(tree):
        if x["t"] in ("vector", "udt", "dynamic", "composite", "custom"):
            return x["t"]
    return "plain"


def _codec(case, ctx, parsed):
    from checks import _drv
    tree, value, pv = case["tree"], case["value"], case["pv"]
    try:
        direct = _drv.build_type(tree, "direct")
        obj = _drv.to_driver(tree, value)
        want = direct.to_binary(obj, pv)
    except Exception:  # noqa -- the direct route refusing a value is not C28's business
        ctx.label("codec:skipped")
        return
    got = None
    with ctx.driver(["C28.codec.serialize"]):
        got = parsed.to_binary(obj, pv)
    if got is None:
        return
    if not ctx.check(got == want, ["C28.codec.bytes", V.core(tree)["t"]],
                     "parsed type serialises %r as %s, directly built type as %s" % (obj, got.hex()[:120], want.hex()[:120])):
        return
    try:
        back_direct = repr(direct.from_binary(want, pv))
    except Exception:  # noqa
        ctx.label("codec:decode-skipped")
        return
    with ctx.driver(["C28.codec.deserialize"]):
        back = repr(parsed.from_binary(want, pv))
        ctx.check(back == back_direct, ["C28.codec.value", V.core(tree)["t"]],
                  "parsed type decodes to %s, directly built type to %s" % (back[:200], back_direct[:200]))
    ctx.label("codec:compared")


def s_style():
    return st.fixed_dictionaries({"full": st.one_of(st.just(-1), st.just(-1), st.just(0), st.integers(1, 2 ** 24 - 1)),
                                  "ws": st.one_of(st.just(0), st.just(0), st.integers(1, 2 ** 24 - 1))})


def _names():
    name = st.one_of(st.sampled_from(_PLAIN_NAMES), st.sampled_from(_PLAIN_NAMES),
                     st.sampled_from(_QUOTE_NAMES), st.sampled_from(_HARD_NAMES))
    fname = st.one_of(st.sampled_from(_FIELD_NAMES[:6]), st.sampled_from(_FIELD_NAMES))
    return st.lists(name, min_size=1, max_size=4), st.lists(fname, min_size=1, max_size=6)


def _max_depth():
    import os
    return 4 if os.environ.get("VERIF_TIER") == "thorough" else 3


def s_udt_tree():
    """a UDT with drawn names at the top, inside a collection or inside another UDT (keeps the name classes populated)"""
    scalar = st.sampled_from(sorted(k for k in _CASS if k != "counter")).map(lambda n: {"t": n})
    small = st.one_of(scalar, scalar, scalar.map(lambda x: {"t": "list", "of": x}),
                      st.tuples(scalar, scalar).map(lambda kv: {"t": "frozen", "of": {"t": "map", "k": {"t": "text"}, "v": kv[1]}}))

    def udt(fields):
        return {"t": "udt", "ks": "ks", "name": "x", "fields": [["f", f] for f in fields]}
    inner = st.lists(small, min_size=1, max_size=3).map(udt)
    outer = st.tuples(inner, st.lists(small, min_size=0, max_size=2)).map(lambda p: udt([{"t": "frozen", "of": p[0]}] + p[1]))
    u = st.one_of(inner, inner, outer)
    return st.one_of(u, u.map(lambda x: {"t": "list", "of": {"t": "frozen", "of": x}}),
                     u.map(lambda x: {"t": "map", "k": {"t": "int"}, "v": {"t": "frozen", "of": x}}),
                     u.map(lambda x: {"t": "frozen", "of": x}), u.map(lambda x: {"t": "tuple", "of": [{"t": "int"}, x]}),
                     u.map(lambda x: {"t": "vector", "of": x, "dim": 2}))


def s_tree():
    names, fnames = _names()
    base = st.one_of(V.type_trees(max_depth=_max_depth()), V.type_trees(max_depth=_max_depth()), s_udt_tree())
    return st.builds(_rename, base, names, fnames)


def s_descriptor_case():
    def with_value(tree):
        plain = all(x["t"] != "udt" or _name_class(x["name"]) in ("plain", "needs-quotes") for x in _walk(tree))
        val = V.value_for(tree) if plain else st.none()
        return st.fixed_dictionaries({"tree": st.just(tree), "style": s_style(), "value": st.one_of(st.none(), val, val),
                                      "pv": st.sampled_from([3, 4, 5])})
    exotic = st.fixed_dictionaries({"tree": s_exotic(), "style": s_style(), "value": st.none(), "pv": st.just(4)})
    return st.one_of(s_tree().flatmap(with_value), s_tree().flatmap(with_value), s_tree().flatmap(with_value), exotic)


_CUSTOM = ["com.example.MyType", P + "LexicalUUIDType", "org.apache.cassandra.db.marshal.geometry.Foo", "x.Y_z1", "EmptyType",
           "com.datastax.bdp.search.solr.core.types.SolrType"]


def s_exotic():
    scalar = st.sampled_from(sorted(k for k in _CASS if k not in ("varchar", "counter"))).map(lambda n: {"t": n})
    comp_el = st.one_of(scalar, scalar, scalar.map(lambda s: {"t": "reversed", "of": s}),
                        scalar.map(lambda s: {"t": "frozen", "of": {"t": "list", "of": s}}))
    composite = st.lists(comp_el, min_size=1, max_size=4).map(lambda l: {"t": "composite", "of": l})
    dynamic = st.lists(st.tuples(st.sampled_from("abistuxl"), scalar), min_size=1, max_size=4,
                       unique_by=lambda a: a[0]).map(lambda l: {"t": "dynamic", "aliases": [list(a) for a in l]})
    custom = st.sampled_from(_CUSTOM).map(lambda c: {"t": "custom", "cls": c})
    legacy = st.sampled_from([{"t": "timestamp", "alias": "DateType"}, {"t": "timestamp", "alias": "TimestampType"}])
    inner = st.one_of(custom, legacy, composite, scalar)
    return st.one_of(composite, dynamic, custom, legacy,
                     inner.map(lambda x: {"t": "list", "of": x}),
                     st.tuples(scalar, inner).map(lambda kv: {"t": "map", "k": kv[0], "v": kv[1]}),
                     inner.map(lambda x: {"t": "reversed", "of": x}))


# ---------------------------------------------------------------------------------------------
# part: cql strings (cqltype_to_python / python_to_cqltype / strip_frozen)
# ---------------------------------------------------------------------------------------------
def _string_feature(tree):
    """risk class of a CQL type string for the string-level helpers; most specific first"""
    order = ["custom", "udt-name:squote", "udt-name:backslash", "udt-name:non-ascii", "udt-name:angle-comma",
             "udt-name:dquote", "udt-name:needs-quotes", "vector"]
    f = _features(tree)
    for o in order:
        if o in f:
            return o
    return "plain"


def _py_expect(tree):
    """the documented list form: int -> ['int'];  frozen<tuple<text, int>> -> ['frozen', ['tuple', ['text', 'int']]]"""
    def node(t):
        k = t["t"]
        if k in _CASS:
            return [k]
        if k in ("list", "set", "frozen"):
            return [k, node(t["of"])]
        if k == "map":
            return ["map", node(t["k"]) + node(t["v"])]
        if k == "tuple":
            out = []
            for c in t["of"]:
                out += node(c)
            return ["tuple", out]
        if k == "udt":
            return [_q(t["name"])]
        if k == "vector":
            return ["vector", node(t["of"]) + [str(t["dim"])]]
        if k == "custom":
            return ["'%s'" % t["cls"]]
        raise ValueError(k)
    return node(tree)


def interpret_cqlstring(case, ctx):
    from cassandra import cqltypes as C
    tree = case["tree"]
    wmask = case["ws"]
    ws = (lambda i: " ") if wmask == -1 else ((lambda i: "") if wmask == 0 else (lambda i: "  " if (wmask >> (i % 24)) & 1 else " "))
    s = to_cql(tree, ws, descriptor=False)
    feat = _string_feature(tree)
    ctx.label("cql:" + feat, "depth:%d" % min(_depth(tree), 5))
    n_frozen = sum(1 for x in _walk(tree) if x["t"] == "frozen")
    ctx.label("frozen:%d" % min(n_frozen, 3))
    if _frozen_siblings(tree):
        ctx.label("frozen-siblings")
    if _frozen_below_unfrozen(tree):
        ctx.label("frozen-below-unfrozen-level")
    ctx.nontrivial(_nontrivial(tree) or n_frozen >= 1)

    with ctx.driver(["C28.cqltype_roundtrip", feat]):
        py = C.cqltype_to_python(s)
        back = C.python_to_cqltype(py)
        ctx.check(_squash(back) == _squash(s), ["C28.cqltype_roundtrip", feat], "%r -> %r -> %r" % (s, py, back))
    if ctx._failures:
        return    # strip_frozen is built on the two functions above: same root cause, one key
    with ctx.driver(["C28.strip_frozen", feat]):
        got = C.strip_frozen(s)
        want = to_cql(remove_frozen(tree), descriptor=False)
        ctx.check(_squash(got) == _squash(want), ["C28.strip_frozen", feat], "strip_frozen(%r) = %r, expected %r" % (s, got, want))


def s_frozen_siblings():
    """containers with two or more frozen<> children next to each other (and frozen inside frozen)"""
    scalar = st.sampled_from(["int", "text", "uuid", "timestamp", "boolean", "blob"]).map(lambda n: {"t": n})
    coll = st.one_of(scalar.map(lambda x: {"t": "list", "of": x}), scalar.map(lambda x: {"t": "set", "of": x}),
                     st.tuples(scalar, scalar).map(lambda kv: {"t": "map", "k": kv[0], "v": kv[1]}))
    fro = coll.map(lambda c: {"t": "frozen", "of": c})
    fro2 = st.one_of(fro, fro.map(lambda f: {"t": "frozen", "of": {"t": "list", "of": f}}))
    member = st.one_of(fro2, fro2, scalar)
    tup = st.lists(member, min_size=2, max_size=4).map(lambda l: {"t": "tuple", "of": l})
    mp = st.tuples(fro, fro2).map(lambda kv: {"t": "map", "k": kv[0], "v": kv[1]})
    return st.one_of(tup, mp, tup.map(lambda t: {"t": "frozen", "of": t}),
                     tup.map(lambda t: {"t": "list", "of": {"t": "frozen", "of": t}}),
                     st.tuples(mp, tup).map(lambda p: {"t": "tuple", "of": [{"t": "frozen", "of": p[0]}, {"t": "frozen", "of": p[1]}]}))


def s_frozen_below():
    """types nested 3-5 levels in which some level has NO frozen<> among its parameters while a deeper level has one
    (tuple<int, list<frozen<my_udt>>>, set<set<frozen<list<text>>>>, frozen<tuple<list<frozen<set<uuid>>>>>)"""
    scalar = st.sampled_from(["int", "text", "uuid", "timestamp", "boolean", "blob", "double"]).map(lambda n: {"t": n})
    udt = st.sampled_from(_PLAIN_NAMES + _QUOTE_NAMES[:3]).map(
        lambda n: {"t": "udt", "ks": "ks", "name": n, "fields": [["a", {"t": "int"}]]})
    core = st.one_of(scalar.map(lambda x: {"t": "list", "of": x}), scalar.map(lambda x: {"t": "set", "of": x}),
                     st.tuples(scalar, scalar).map(lambda kv: {"t": "map", "k": kv[0], "v": kv[1]}),
                     st.lists(scalar, min_size=1, max_size=3).map(lambda l: {"t": "tuple", "of": l}), udt)
    bottom = core.map(lambda c: {"t": "frozen", "of": c})

    def wrap(inner):
        """strategy of a container holding `inner` and otherwise only scalars (so this level has no frozen of its own
        unless `inner` is one)"""
        return st.integers(0, 5).flatmap(lambda i: [
            st.just({"t": "list", "of": inner}),
            st.just({"t": "set", "of": inner}),
            scalar.map(lambda k: {"t": "map", "k": k, "v": inner}),
            st.tuples(st.lists(scalar, max_size=2), st.lists(scalar, max_size=2)).map(
                lambda ab: {"t": "tuple", "of": ab[0] + [inner] + ab[1]}),
            st.integers(1, 3).map(lambda d: {"t": "vector", "of": inner, "dim": d}),
            scalar.map(lambda k: {"t": "map", "k": inner, "v": k}),
        ][i])

    level1 = bottom.flatmap(wrap)                 # X<frozen<..>>         : frozen directly inside
    level2 = level1.flatmap(wrap)                 # Y<X<frozen<..>>>      : Y has no frozen of its own
    level3 = level2.flatmap(wrap)
    deep = st.one_of(level2, level2, level3)
    # sometimes a second, directly frozen parameter next to the unfrozen branch, and sometimes a frozen<> around it all
    beside = st.tuples(deep, bottom).map(lambda p: {"t": "tuple", "of": [p[0], p[1]]})
    return st.one_of(deep, deep, deep.map(lambda t: {"t": "frozen", "of": t}), beside,
                     deep.map(lambda t: {"t": "list", "of": {"t": "frozen", "of": t}}))


def _frozen_below_unfrozen(tree):
    """some container level has no frozen<> among its own parameters but one further down"""
    for x in _walk(tree):
        kids = _children(x)
        if x["t"] in ("frozen", "reversed") or not kids:
            continue
        if any(c["t"] == "frozen" for c in kids):
            continue
        if any(y["t"] == "frozen" for c in kids for y in _walk(c)):
            return True
    return False


def _frozen_siblings(tree):
    return any(sum(1 for c in _children(x) if c["t"] == "frozen") >= 2 for x in _walk(tree))


def s_cqlstring_case():
    names, fnames = _names()
    tricky = st.sampled_from(["frozenx", "frozen_t", "xfrozen", "Frozen", "frozen x"])   # UDT names around the word
    names2 = st.lists(st.one_of(tricky, st.sampled_from(_PLAIN_NAMES)), min_size=1, max_size=3)
    t1 = st.builds(_rename, st.one_of(V.type_trees(max_depth=_max_depth()), s_udt_tree()), names, fnames)
    t2 = st.builds(_rename, st.one_of(V.type_trees(max_depth=2), s_udt_tree()), names2, fnames)
    sib = s_frozen_siblings()
    below = s_frozen_below()
    # quoted names with the characters that are special to Python source / CQL quoting, always present
    qnames = st.lists(st.sampled_from(['a"b', "a'b", "a\\b", "x\"y'z\\w", "\\", "'", '"', "it's", "tab\\t", "a\\'b"]),
                      min_size=1, max_size=3)
    t3 = st.builds(_rename, s_udt_tree(), qnames, fnames)
    tree = st.integers(0, 12).flatmap(
        lambda i: t1 if i < 5 else (t2 if i < 7 else (sib if i < 9 else (below if i < 11 else t3)))).map(_no_reversed)
    return st.fixed_dictionaries({"tree": tree, "ws": st.one_of(st.just(-1), st.just(0), st.integers(1, 2 ** 24 - 1))})


def _no_reversed(tree):
    return tree["of"] if tree["t"] == "reversed" else tree


# ---------------------------------------------------------------------------------------------
# part: exhaustive small domain
# ---------------------------------------------------------------------------------------------
def _small_chunks():
    return sorted(_CASS)


def _small_cases(scalar):
    s = {"t": scalar}
    k = {"t": "int"}
    shapes = [s, {"t": "list", "of": s}, {"t": "frozen", "of": {"t": "list", "of": s}}, {"t": "map", "k": k, "v": s},
              {"t": "tuple", "of": [s, k]}, {"t": "reversed", "of": s}, {"t": "list", "of": {"t": "frozen", "of": {"t": "map", "k": k, "v": s}}},
              {"t": "udt", "ks": "ks", "name": "mytype", "fields": [["f", s]]}]
    if scalar not in ("duration", "counter"):
        shapes.append({"t": "set", "of": s})
        shapes.append({"t": "map", "k": s, "v": k})
    for tree in shapes:
        for full in (-1, 0):
            for ws in (0, 0xffffff):
                yield {"tree": tree, "style": {"full": full, "ws": ws}, "value": None, "pv": 4}


def interpret_small(case, ctx):
    interpret_descriptor(case, ctx)
    ctx.nontrivial(True)
    tree = case["tree"]
    if tree["t"] != "reversed" and case["style"]["full"] == -1:
        interpret_cqlstring({"tree": tree, "ws": -1 if case["style"]["ws"] else 0}, ctx)


def parts(tier):
    return [
        hyp_part("descriptor", s_descriptor_case, interpret_descriptor, tier, quick=250, thorough=2500, quick_shards=6),
        hyp_part("cqlstring", s_cqlstring_case, interpret_cqlstring, tier, quick=500, thorough=2500, quick_shards=2, thorough_shards=8),
        EnumPart("small", _small_chunks(), _small_cases, interpret_small),
    ]
