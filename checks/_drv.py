"""Driver-side glue for the value/codec checks (C01, C02 and whoever else needs driver objects for
spec.values type trees / tagged values).  Everything that imports cassandra.* lives here so that
spec/values.py stays independent.

PUBLIC API
    build_type(tree, via="direct"|"string") -> cassandra.cqltypes type class
         direct: apply_parameters / UserType.make_udt_class / VectorType.apply_parameters
         string: lookup_casstype(spec.values.cass_name(tree))     (the Cassandra class-name notation)
    FACTORY                       spec.values factory producing cassandra.util Date/Time/Duration/OrderedMap/
                                  SortedSet, UDT namedtuples and UDT attribute objects
    to_driver(tree, value, style=0) -> python object to pass to Type.to_binary / bind
    from_driver(tree, obj) -> tagged value          (= spec.values.normalise)
    shape_problems(tree, obj) -> [str]              documented python shapes of decoded values
                                                     (SortedSet, OrderedMapSerializedKey, tuple, list, namedtuple)
    shape(tree) -> short structural label for finding keys ("int", "list<text>", "map<*>")
    null_in_16bit_collection(tree, value, pv) -> bool   value has a null where protocol v1/v2 cannot express one
    string_path_ok(tree) -> bool                    lookup_casstype can parse cass_name(tree) (see C28 note inside)
    codec_cases(max_depth, ...) -> hypothesis strategy of {"tree","value","pv","style","via"} cases
    label_case(ctx, tree, value, pv) -> set of feature labels (also reported through ctx.label)
    spelling_chunks() / spelling_cases(leaf) / spelling_build(case)   alternate python spellings of date, time and
                                  timestamp values (datetime for a date column incl. pre-epoch non-midnight, strings, ...)
    sized_element(etype, size) / vsb_chunks() / vsb_cases(etype) / vsb_build(case)   vectors of variable-width elements
                                  whose encoding has an exact size (unsigned-vint size prefix boundaries)
"""
from __future__ import annotations

import logging
from collections import namedtuple

from hypothesis import strategies as st

from cassandra import cqltypes, util
from spec import values as V

# UDT classes with field names that are not python identifiers log warnings; keep runs quiet
logging.getLogger("cassandra").addHandler(logging.NullHandler())
logging.getLogger("cassandra").propagate = False


class _UdtObject(object):
    """what a user-registered mapped class instance looks like to the serializer: attributes only"""

    def __init__(self, names, values):
        for n, v in zip(names, values):
            setattr(self, n, v)

    def __repr__(self):
        return "UdtObject(%r)" % (self.__dict__,)


class DriverFactory(object):
    def date(self, days):
        return util.Date(days)

    def time(self, nanos):
        return util.Time(nanos)

    def duration(self, m, d, n):
        return util.Duration(m, d, n)

    def ordered_map(self, pairs):
        return util.OrderedMap(pairs)

    def sorted_set(self, items):
        return util.SortedSet(items)

    def udt_tuple(self, tree, values):
        # registered under a module-level name so that instances stay picklable (OrderedMap pickles its keys)
        names = tuple(f[0] for f in tree["fields"])
        cname = "udt_nt_%s" % V._hex("\x00".join(names))
        nt = globals().get(cname)
        if nt is None:
            nt = namedtuple(cname, names, rename=True)
            nt.__module__ = __name__
            globals()[cname] = nt
        return nt(*values)

    def udt_object(self, tree, values):
        return _UdtObject([f[0] for f in tree["fields"]], values)


FACTORY = DriverFactory()


def build_type(tree, via="direct"):
    if via == "string":
        return cqltypes.lookup_casstype(V.cass_name(tree))
    return _build(tree)


def _build(tree):
    t = tree["t"]
    if t in V.SCALARS:
        return cqltypes._cqltypes[t]
    if t == "list":
        return cqltypes.ListType.apply_parameters([_build(tree["of"])])
    if t == "set":
        return cqltypes.SetType.apply_parameters([_build(tree["of"])])
    if t == "map":
        return cqltypes.MapType.apply_parameters([_build(tree["k"]), _build(tree["v"])])
    if t == "tuple":
        return cqltypes.TupleType.apply_parameters([_build(c) for c in tree["of"]])
    if t == "udt":
        return cqltypes.UserType.make_udt_class(tree["ks"], tree["name"],
                                                tuple(f[0] for f in tree["fields"]),
                                                tuple(_build(f[1]) for f in tree["fields"]))
    if t == "vector":
        return cqltypes.VectorType.apply_parameters([_build(tree["of"]), tree["dim"]], None)
    if t == "frozen":
        return cqltypes.FrozenType.apply_parameters([_build(tree["of"])])
    if t == "reversed":
        return cqltypes.ReversedType.apply_parameters([_build(tree["of"])])
    raise ValueError(t)


def to_driver(tree, value, style=0):
    return V.to_python(tree, value, style=style, factory=FACTORY)


def from_driver(tree, obj):
    return V.normalise(tree, obj)


def shape(tree):
    c = V.core(tree)
    t = c["t"]
    if t in V.SCALARS:
        return t
    ls = sorted(set(V.leaves(c)))
    inner = ls[0] if len(ls) == 1 and V.depth(c) == 1 else "*"
    return "%s<%s>" % (t, inner)


_SORT_CHECKED = frozenset(("tinyint", "smallint", "int", "bigint", "varint", "text", "varchar", "ascii", "blob",
                           "timestamp", "date", "time", "boolean"))


def shape_problems(tree, obj):
    """python shapes the driver documents for decoded values; returns list of (kind, message)"""
    out = []
    _shape(tree, obj, out)
    return out


def _shape(tree, obj, out):
    if obj is None or len(out) > 4:
        return
    t = tree["t"]
    if t in ("frozen", "reversed"):
        return _shape(tree["of"], obj, out)
    if t in V.SCALARS:
        return
    if t in ("list", "vector"):
        if type(obj) is not list:
            out.append((t + "-not-list", "%s decoded as %s" % (t, type(obj).__name__)))
            return
        for x in obj:
            _shape(tree["of"], x, out)
    elif t == "set":
        if not isinstance(obj, util.SortedSet):
            out.append(("set-not-sortedset", "set decoded as %s" % type(obj).__name__))
            return
        items = list(obj)
        sub = V.core(tree["of"])["t"]
        if sub in _SORT_CHECKED and None not in items:
            if any(not (a < b) for a, b in zip(items, items[1:])):
                out.append(("set-unsorted", "set of %s iterates unsorted: %r" % (sub, items[:6])))
        for x in items:
            _shape(tree["of"], x, out)
    elif t == "map":
        if not isinstance(obj, util.OrderedMapSerializedKey):
            out.append(("map-not-orderedmap", "map decoded as %s" % type(obj).__name__))
            return
        for k, v in obj._items:
            _shape(tree["k"], k, out)
            _shape(tree["v"], v, out)
    elif t == "tuple":
        if type(obj) is not tuple:
            out.append(("tuple-not-tuple", "tuple decoded as %s" % type(obj).__name__))
            return
        if len(obj) != len(tree["of"]):
            out.append(("tuple-not-padded", "tuple of %d fields decoded with %d" % (len(tree["of"]), len(obj))))
            return
        for sub, x in zip(tree["of"], obj):
            _shape(sub, x, out)
    elif t == "udt":
        if not isinstance(obj, tuple):
            out.append(("udt-not-tuple", "udt decoded as %s" % type(obj).__name__))
            return
        if len(obj) != len(tree["fields"]):
            out.append(("udt-not-padded", "udt of %d fields decoded with %d" % (len(tree["fields"]), len(obj))))
            return
        names = [f[0] for f in tree["fields"]]
        if all(n.isidentifier() and not n.startswith("_") for n in names) and tree["name"].isidentifier():
            import keyword
            if not any(keyword.iskeyword(n) for n in names + [tree["name"]]):
                if getattr(obj, "_fields", None) != tuple(names):
                    out.append(("udt-not-namedtuple", "udt with fields %r decoded as %r" % (names, type(obj).__name__)))
        for f, x in zip(tree["fields"], obj):
            _shape(f[1], x, out)


def null_in_16bit_collection(tree, value, pv, top=True):
    """protocol v1/v2 top-level collections (16-bit lengths) cannot express a null element; a vector hands
    the protocol version to its elements unchanged, so the same holds below a top-level vector"""
    if pv >= 3 or value is None or not top:
        return False
    t = tree["t"]
    if t in ("frozen", "reversed"):
        return null_in_16bit_collection(tree["of"], value, pv, top)
    if t in ("list", "set"):
        return any(x is None for x in value)
    if t == "map":
        return any(k is None or v is None for k, v in value)
    if t == "vector":
        return any(null_in_16bit_collection(tree["of"], x, pv, True) for x in value)
    return False


def string_path_ok(tree):
    """lookup_casstype() reads a UDT name whose hex form consists of decimal digits only (e.g. 'address'
    = 61646472657373) as a vector dimension and fails -- that belongs to C28 (type descriptors), so the
    codec checks only take the type-string route for trees it can express."""
    if tree["t"] == "udt" and V._hex(tree["name"]).isdigit():
        return False
    return all(string_path_ok(c) for c in V.children(tree))


def codec_cases(max_depth=3, nulls=True, short_tuples=True, short_udts=False, styles=(0, 0, 1, 2, 3, 4), vias=("direct", "direct", "string")):
    def mk(tv, pv, style, via):
        if via == "string" and not string_path_ok(tv[0]):
            via = "direct"
        return {"tree": tv[0], "value": tv[1], "pv": pv, "style": style, "via": via}
    return st.builds(mk, V.typed_values(max_depth, nulls=nulls, short_tuples=short_tuples, short_udts=short_udts),
                     V.protocol_versions(), st.sampled_from(list(styles)), st.sampled_from(list(vias)))


# ----------------------------------------------------------------------------------------------------------------
# alternate input spellings of date / time / timestamp values, enumerated (values given as *python objects*)
# ----------------------------------------------------------------------------------------------------------------

SPELL_DAYS = (V.MIN_PYDATE_DAYS, V.MIN_PYDATE_DAYS + 1, -141428, -141427, -25567, -11017, -366, -365, -31, -2, -1,
              0, 1, 2, 59, 365, 11016, 16741, 24855, 47482, V.MAX_PYDATE_DAYS - 1, V.MAX_PYDATE_DAYS)
SPELL_TODS_US = (0, 1, 1000000, 43200000000, 86399999999)
SPELL_EMBEDS = ("bare", "list", "set", "map-key", "tuple")


def spelling_chunks():
    return ["date", "time", "timestamp"]


def spelling_cases(leaf):
    """plain-data cases {"leaf","n","form","tod_us","embed","pv"}; n is the tagged value (days / nanos / ms)"""
    if leaf == "date":
        for d in SPELL_DAYS:
            for i, emb in enumerate(SPELL_EMBEDS):
                for tod in SPELL_TODS_US:
                    yield {"leaf": leaf, "n": d, "form": "datetime", "tod_us": tod, "embed": emb, "pv": (2, 4)[(i + d) % 2]}
                for form in ("string", "date", "Date"):
                    yield {"leaf": leaf, "n": d, "form": form, "tod_us": 0, "embed": emb, "pv": (2, 4)[(i + d) % 2]}
    elif leaf == "time":
        for n in (0, 1, 999, 1000, 10 ** 9 - 1, 10 ** 9, 3661 * 10 ** 9 + 5, 43200 * 10 ** 9, 86399999999000, 86399999999999):
            for i, emb in enumerate(SPELL_EMBEDS):
                for form in ("string", "int", "Time") + (("time",) if n % 1000 == 0 else ()):
                    yield {"leaf": leaf, "n": n, "form": form, "tod_us": 0, "embed": emb, "pv": (2, 4)[i % 2]}
    else:
        for d in SPELL_DAYS:
            for i, emb in enumerate(SPELL_EMBEDS):
                for form in ("date", "float", "int", "datetime", "aware"):
                    yield {"leaf": leaf, "n": d * 86400000, "form": form, "tod_us": 0, "embed": emb, "pv": (2, 4)[(i + d) % 2]}
                for form in (("float", "datetime", "aware") if d * 86400000 - 1 >= V.MIN_TIMESTAMP_MS else ()):
                    yield {"leaf": leaf, "n": d * 86400000 - 1, "form": form, "tod_us": 0, "embed": emb, "pv": 4}


def spelling_build(case):
    """-> (tree, tagged value, python object to hand to the driver)"""
    import datetime
    leaf, n, form, emb = case["leaf"], case["n"], case["form"], case["embed"]
    if leaf == "date":
        obj = {"datetime": lambda: V.date_as_datetime(n, case["tod_us"]), "string": lambda: V.date_as_string(n),
               "date": lambda: V.date_as_datetime(n, 0).date(), "Date": lambda: util.Date(n)}[form]()
    elif leaf == "time":
        obj = {"string": lambda: V.time_as_string(n), "int": lambda: n, "Time": lambda: util.Time(n),
               "time": lambda: V._pytime(n)}[form]()
    else:
        obj = {"date": lambda: V.pydatetime(n).date(), "float": lambda: float(n), "int": lambda: n,
               "datetime": lambda: V.pydatetime(n), "aware": lambda: V.aware_datetime(n)}[form]()
    S = V.T(leaf)
    if emb == "bare":
        return S, n, obj
    if emb == "list":
        return V.t_list(S), [n], [obj]
    if emb == "set":
        return V.t_set(S), [n], {obj}
    if emb == "map-key":
        return V.t_map(S, V.T("int")), [[n, 1]], {obj: 1}
    return V.t_tuple([V.T("int"), S]), [1, n], (1, obj)


def label_case(ctx, tree, value, pv):
    feats = V.features(tree, value, pv)
    c = V.core(tree)
    d = V.depth(tree)
    ctx.label("top:" + c["t"] if c["t"] not in V.SCALARS else "top:scalar",
              "depth:%d" % min(d, 4),
              "pv:%s" % ("v1-2" if pv < 3 else ("dse" if pv >= 0x41 else "v3-6")))
    for lf in sorted(set(V.leaves(tree))):
        ctx.label("leaf:" + lf)
    for f in sorted(feats):
        ctx.label("f:" + f)
    for k in ("vector", "udt", "frozen", "reversed", "tuple", "map", "set"):
        if V.contains(tree, k):
            ctx.label("has:" + k)
    return feats


# ----------------------------------------------------------------------------------------------------------------
# variable-width vector elements of an exact encoded size (the unsigned-vint size prefix boundaries)
# ----------------------------------------------------------------------------------------------------------------

VSB_SIZES = (0, 1, 126, 127, 128, 129, 255, 256, 16383, 16384, 16385, 2 ** 21 - 1, 2 ** 21, 2 ** 21 + 1)
VSB_ETYPES = ("text", "ascii", "blob", "varint", "decimal", "list", "set", "map", "tuple")
_VSB_BIG_OK = ("text", "list")                  # 2 MiB elements only where the driver's codec is linear (and only a few: CPU budget)
_VSB_LAYOUTS = ((1, 0), (2, 0), (2, 1), (3, 0), (3, 1), (3, 2))     # (dimension, position of the sized element)


def sized_element(etype, size):
    """(element type tree, tagged value) whose reference encoding is exactly `size` bytes, or None when the
    type has no value of that size"""
    T = V.T
    if etype == "text":
        return T("text"), "q" * size
    if etype == "ascii":
        return T("ascii"), "a" * size
    if etype == "blob":
        return T("blob"), "5a" * size
    if etype == "varint":
        return (T("varint"), 1 << (8 * size - 2)) if size >= 1 else None
    if etype == "decimal":
        # (python refuses int<->str beyond 4300 digits, for the driver as for everybody: stay below)
        return (T("decimal"), [1, str(1 << (8 * (size - 4) - 2)), -2]) if 5 <= size <= 1024 else None
    if etype in ("list", "set"):
        mk = V.t_list if etype == "list" else V.t_set
        if size == 4:
            return mk(T("text")), []
        return (mk(T("text")), ["e" * (size - 8)]) if size >= 8 else None
    if etype == "map":
        if size == 4:
            return V.t_map(T("int"), T("text")), []
        return (V.t_map(T("int"), T("text")), [[7, "m" * (size - 16)]]) if size >= 16 else None
    if etype == "tuple":
        return (V.t_tuple([T("text")]), ["t" * (size - 4)]) if size >= 4 else None
    raise ValueError(etype)


def vsb_chunks():
    return list(VSB_ETYPES)


def vsb_cases(etype):
    """plain-data cases {"etype","size","dim","pos","pv"} for one element type"""
    for size in VSB_SIZES:
        if sized_element(etype, min(size, 64) if size > 2 ** 20 else size) is None:
            continue
        big = size > 2 ** 20
        if big and etype not in _VSB_BIG_OK:
            continue
        if etype == "varint" and size > 2 ** 15:
            continue
        if sized_element(etype, size) is None:
            continue
        for dim, pos in ((((1, 0), (2, 1)) if size == 2 ** 21 else ((2, 1),)) if big else _VSB_LAYOUTS):
            yield {"etype": etype, "size": size, "dim": dim, "pos": pos, "pv": 4 if (size + dim) % 2 else 5}


def vsb_build(case):
    """-> (vector tree, tagged value) of a case: the sized element at `pos`, small fillers elsewhere"""
    etype, size, dim, pos = case["etype"], case["size"], case["dim"], case["pos"]
    sub, el = sized_element(etype, size)
    filler = sized_element(etype, {"decimal": 6, "map": 17, "list": 9, "set": 9, "tuple": 5}.get(etype, 2))[1]
    value = [el if i == pos else filler for i in range(dim)]
    return V.t_vector(sub, dim), value
