"""C36 -- cqlengine column values are stored as the core driver would store them."""
import datetime
import os

from hypothesis import strategies as st

from spec import cqlterm
from spec import values as V
from vlib.harness import hyp_part

PID = "C36"
TITLE = "cqlengine column values are stored as the core driver would store them"
LEVEL = "exploration"
ENGINE = "codec"
SERIAL = os.environ.get("VERIF_TIER") == "quick"
TECHNIQUE = ("property-based testing (Hypothesis): the CQL literal cqlengine sends for a column value (session encoder applied to "
             "Column.to_database(value)) is read with an independent model of Cassandra's literal conversion for the column's CQL "
             "type and compared with the core driver's prepared-statement encoding of the original Python value decoded by the "
             "independent codec spec.values; datetimes additionally against the exact instant computed with integer arithmetic, "
             "and a datetime given to a date column additionally against its own calendar day (from the generated ordinal)")
RULE = ("One case = (column description, value description).  Columns: every cqlengine scalar column class (Text, Ascii, Blob, Inet, "
        "Integer, TinyInt, SmallInt, BigInt, VarInt, DateTime, Date, Time, Duration, UUID, TimeUUID, Boolean, Float, Double, Decimal), "
        "List/Set/Map of them (nested once more for list/map values), Tuple and UserDefinedType columns.  Values are built by "
        "construction per column: ints at the width boundaries, text with quotes/non-BMP characters, floats incl. 17-digit/"
        "sub-normal/non-finite, decimals with up to 40 digits (digit counts around and above 28, the default decimal context precision, weighted) and "
        "exponents to +-400, dates over years 1-9999 and util.Date over the "
        "whole 32-bit range, date columns also given datetimes (naive or aware in every zone kind below, any time of day, weighted to "
        "the hours after and before midnight, top level and as list element / map value / tuple member; part 'dates' generates date "
        "columns only), times with nanoseconds, datetimes over years 1-9999 with arbitrary microseconds, naive or aware in "
        "hand-built fixed-offset zones, hand-built DST-rule zones (US / EU / southern rule; days of the switch and wall-clock hours "
        "around it are weighted), datetime.timezone, zoneinfo and pytz zones (localize()).  Non-trivial: a DateTime whose zone offset "
        "at that instant differs from the zone's offset at the epoch, or with microseconds that are not whole milliseconds, or in a "
        "year < 1900 or > 2100; for other columns a collection/tuple/UDT, or a boundary class value (|int| >= 2^31, float with > 15 "
        "significant digits or non-finite, any decimal, date outside 1900-2100, an aware datetime given to a date column whose UTC calendar day is not its own "
        "calendar day (time of day within |UTC offset| of midnight), time with sub-microsecond part, duration, text "
        "with a quote or non-ASCII character, IPv6).")
ASSUMPTIONS = [
    "spec/cqllex.py + spec/cqlterm.py stand for Cassandra's lexer, term grammar and literal conversion (server time zone UTC)",
    "the core prepared path is cqltypes.<Type>.to_binary(value, protocol 4) of the column's CQL type, decoded by spec.values.decode; "
    "values that path refuses (raises) are skipped and counted under 'core:refused'",
    "the literal is produced by the encoder of a session registered with cqlengine (Connection.setup_session maps tuple to a tuple "
    "literal) exactly as Session.execute substitutes simple-statement parameters (cassandra.query.bind_params)",
    "valid values: the documented Python type of each column (a float given to a Decimal column, a str given to a UUID column and "
    "non-bool values for Boolean are conveniences cqlengine converts differently from the core path by design and are not generated)",
    "a datetime given to a date column denotes its own (wall-clock) calendar day, as cassandra.util.Date(value) and therefore the core "
    "encoding take it (value.timetuple()); the value reaches Column.to_database un-normalised as it does on attribute assignment + "
    "save()/update(), queryset update() and filter values (Model(...)/create() kwargs pass through to_python first and are not modelled)",
    "zone offsets of zoneinfo/pytz zones are taken from the library (value.utcoffset()); hand-built zones from their rule",
]

_EPOCH_ORD = datetime.date(1970, 1, 1).toordinal()
_MAX_ORD = datetime.date.max.toordinal()

# ---------------------------------------------------------------------------------------------------------
# strategies
# ---------------------------------------------------------------------------------------------------------
_TEXT_SPECIAL = ["'", "''", '"', "$$", ";", "--", "/*", "\\", "%s", "%(0)s", "%", "\n", "\x00", "é", "\U0001f600", "中", "NULL", ""]


def _pick(weighted):
    weighted = list(weighted)
    total = sum(w for w, _s in weighted)

    def choose(i):
        for w, strat in weighted:
            if i < w:
                return strat
            i -= w
        return weighted[-1][1]
    return st.integers(0, total - 1).flatmap(choose)


def s_text(ascii_only=False):
    word = st.text(alphabet="abcxyz019_ ", max_size=6)
    if ascii_only:
        special = [s for s in _TEXT_SPECIAL if s.isascii()]
        return st.one_of(st.builds("".join, st.lists(st.one_of(st.sampled_from(special), word), max_size=4)), word)
    return st.one_of(st.builds("".join, st.lists(st.one_of(st.sampled_from(_TEXT_SPECIAL), word, st.text(max_size=3)), max_size=4)), word)


def _bounds(bits):
    out = []
    for k in bits:
        out += [2 ** k - 1, 2 ** k, -2 ** k, -2 ** k + 1]
    return out


def s_int(bits):
    lo, hi = -2 ** (bits - 1), 2 ** (bits - 1) - 1
    inside = [b for b in _bounds([7, 15, 31, 53, 63]) + [0, 1, -1, lo, hi, lo + 1, hi - 1] if lo <= b <= hi]
    return st.one_of(st.sampled_from(inside), st.integers(lo, hi), st.integers(max(lo, -1000), min(hi, 1000)))


def s_varint():
    return st.one_of(st.sampled_from(_bounds([7, 31, 63, 64, 100, 300]) + [0, 1, -1]), st.integers(-2 ** 80, 2 ** 80), st.integers(-1000, 1000))


def s_float32():
    special = st.sampled_from(["nan", "inf", "-inf", 0.0, -0.0, 1.401298464324817e-45, 3.4028234663852886e+38, 0.10000000149011612, 1.5, -2.5, 16777216.0])
    return st.one_of(special, st.floats(width=32, allow_nan=False, allow_infinity=False), st.integers(-1000, 1000).map(float),
                     st.floats(-1e30, 1e30, allow_nan=False))


def s_double():
    special = st.sampled_from(["nan", "inf", "-inf", 0.0, -0.0, 5e-324, 2.2250738585072014e-308, 1.7976931348623157e+308, 0.1, 1e16, 1e-7,
                               123456789.12345679, 1e22, 1e23, 9007199254740993.0, 0.30000000000000004])
    return st.one_of(special, st.floats(allow_nan=False, allow_infinity=False), st.floats(-1e6, 1e6), st.integers(-1000, 1000).map(float))


def s_decimal():
    # 28 significant digits is the precision of the default decimal context: digit counts around and above it are a class of their own
    digits = st.one_of(st.integers(0, 10 ** 6), st.integers(10 ** 15, 10 ** 18), st.integers(10 ** 25, 10 ** 40),
                       st.integers(26, 40).flatmap(lambda n: st.integers(10 ** (n - 1), 10 ** n - 1)),
                       st.text(alphabet="0123456789", min_size=26, max_size=40).map(int),
                       st.sampled_from([0, 1, 10, 100, 11, 110, 1234567890123456789, 10 ** 28 - 1, 10 ** 28 + 1, 10 ** 29 - 1,
                                        12345678901234567890123456789, 10 ** 39 + 7]))
    exp = st.one_of(st.integers(-6, 6), st.integers(-30, 30), st.sampled_from([-400, -325, -20, 0, 20, 308, 309, 400]))
    dec = st.builds(lambda s, dg, e: {"dec": "%s%dE%d" % ("-" if s else "", dg, e)}, st.booleans(), digits, exp)
    plain = st.builds(lambda s, a, b: {"dec": "%s%d.%s" % ("-" if s else "", a, b)}, st.booleans(), st.integers(0, 10 ** 9),
                      st.text(alphabet="0123456789", min_size=1, max_size=12))
    return st.one_of(dec, dec, plain, s_varint().map(lambda n: {"int": n}))


def _rule_switch_days(rule):
    """ordinals of the switch days of a rule for a spread of years (and the day before/after)"""
    from checks import _cqle
    sm, sn, em, en, _h = _cqle._DST_RULES[rule]
    out = []
    for y in (1583, 1850, 1969, 1970, 1971, 1999, 2000, 2024, 2025, 2038, 2100, 5000, 9998):
        for m, n in ((sm, sn), (em, en)):
            o = datetime.date(y, m, _cqle._nth_sunday(y, m, n)).toordinal()
            out += [o, o, o - 1, o + 1]
    return out


_ZONE_NAMES = ["America/New_York", "Europe/Berlin", "Australia/Sydney", "Asia/Kolkata", "America/Sao_Paulo", "Europe/London",
               "Pacific/Apia", "Africa/Casablanca", "Asia/Kathmandu", "UTC"]
_LIB_SWITCH_DAYS = [datetime.date(y, m, d).toordinal() for y in (1975, 2000, 2021, 2024, 2030) for (m, d) in
                    ((3, 10), (3, 14), (3, 31), (3, 28), (4, 7), (10, 6), (10, 27), (10, 31), (11, 3), (11, 7), (1, 1), (7, 1))]


def s_tz():
    from checks import _cqle
    fixed = st.sampled_from([0, 60, -60, 330, 345, -300, -480, 840, -720, 1, -1, 765]).map(lambda m: {"kind": "fixed", "min": m})
    tzone = st.sampled_from([0, 120, -300, 330, 840, -720]).map(lambda m: {"kind": "timezone", "min": m})
    rule = st.builds(lambda std, r: {"kind": "rule", "std": std, "rule": r},
                     st.sampled_from([-300, -480, 60, 0, 120, 600, -180, 570]), st.sampled_from(["us", "eu", "south"]))
    opts = [(3, fixed), (2, tzone), (8, rule)]
    if _cqle.have_zoneinfo():
        opts.append((4, st.sampled_from(_ZONE_NAMES).map(lambda n: {"kind": "zoneinfo", "name": n})))
    if _cqle.have_pytz():
        opts.append((4, st.sampled_from(_ZONE_NAMES).map(lambda n: {"kind": "pytz", "name": n})))
    return _pick(opts)


_US = st.one_of(st.sampled_from([0, 1, 999, 1000, 3000, 500, 999999, 999000, 123000, 123456, 1999, 500000]),
                st.integers(0, 999).map(lambda k: k * 1000), st.integers(0, 999999))
_SOD = st.one_of(st.integers(0, 86399), st.integers(0, 4 * 3600), st.sampled_from([0, 3599, 3600, 7199, 7200, 7201, 10799, 10800, 86399, 5400, 9000]))


def s_datetime():
    naive_ord = st.one_of(st.integers(1, _MAX_ORD), st.integers(_EPOCH_ORD - 800, _EPOCH_ORD + 25000),
                          st.sampled_from([1, 2, 366, _MAX_ORD, _MAX_ORD - 1, _EPOCH_ORD, _EPOCH_ORD - 1, _EPOCH_ORD + 1]))
    naive = st.builds(lambda o, s, u: {"ord": o, "sod": s, "us": u, "tz": None, "fold": 0}, naive_ord, _SOD, _US)

    def aware_for(tz):
        # one year of margin at both ends: normalising to UTC must not leave the year range
        base = [st.integers(400, _MAX_ORD - 400), st.integers(_EPOCH_ORD - 800, _EPOCH_ORD + 25000),
                st.integers(_EPOCH_ORD + 150, _EPOCH_ORD + 250), st.sampled_from([_EPOCH_ORD, _EPOCH_ORD - 1, _EPOCH_ORD + 1, 400, _MAX_ORD - 400])]
        if tz["kind"] == "rule":
            base += [st.sampled_from(_rule_switch_days(tz["rule"]))] * 3
        elif tz["kind"] in ("zoneinfo", "pytz"):
            base += [st.sampled_from(_LIB_SWITCH_DAYS)] * 2
        return st.builds(lambda o, s, u, f: {"ord": o, "sod": s, "us": u, "tz": tz, "fold": f}, st.one_of(base), _SOD, _US,
                         st.sampled_from([0, 0, 0, 1]))
    aware = s_tz().flatmap(aware_for)
    as_date = st.one_of(st.integers(1, _MAX_ORD), st.integers(_EPOCH_ORD - 800, _EPOCH_ORD + 25000)).map(lambda o: {"date": o})
    return _pick([(8, naive), (12, aware), (1, as_date)])


def s_date():
    ordinal = st.one_of(st.integers(1, _MAX_ORD), st.integers(_EPOCH_ORD - 400, _EPOCH_ORD + 25000),
                        st.sampled_from([1, 365, 366, 364877, 364878, _MAX_ORD, _EPOCH_ORD]))
    ext = st.one_of(st.integers(-2 ** 31, 2 ** 31 - 1), st.integers(-800000, 3000000),
                    st.sampled_from([-2 ** 31, 2 ** 31 - 1, 0, -1, -719162, -719163, 2932896, 2932897]))
    return _pick([(5, ordinal.map(lambda o: {"ord": o})), (4, ext.map(lambda n: {"days": n})), (1, ordinal.map(lambda o: {"dt": o})),
                  (5, s_date_from_datetime())])


def s_date_from_datetime():
    """a datetime (naive or aware in any of the zones of s_tz, any time of day) given to a `date` column: {"dtv": datetime description}.
    The time of day of s_datetime is weighted towards the hours after midnight; half of the cases mirror it to the hours before
    midnight, so that aware values whose UTC calendar day is the previous / the next day of their own calendar day are both common."""
    dt = s_datetime().filter(lambda d: "date" not in d)
    # (the mirror flag is drawn first: a choice drawn after a large sub-strategy comes out skewed towards its first alternative)
    return st.builds(lambda late, d: {"dtv": dict(d, sod=86399 - d["sod"]) if late else d}, st.booleans(), dt)


def s_time():
    ns = st.one_of(st.integers(0, 86399999999999), st.sampled_from([0, 1, 999, 1000, 86399999999999, 86399999999000, 3600 * 10 ** 9, 1000000]))
    return st.builds(lambda n, f: {"ns": n - n % 1000 if f == "time" else n, "form": f}, ns, st.sampled_from(["time", "Time", "Time", "int"]))


def s_duration():
    comp = st.one_of(st.integers(0, 100), st.sampled_from([0, 1, 2 ** 31 - 1]))
    nanos = st.one_of(st.integers(0, 10 ** 12), st.sampled_from([0, 1, 2 ** 63 - 1]))
    return st.builds(lambda m, d, n, neg: [-m if neg else m, -d if neg else d, -n if neg else n], comp, comp, nanos, st.booleans())


def s_uuid(v1=False):
    def fix(u):
        h = u.hex
        if v1:
            h = h[:12] + "1" + h[13:16] + "89ab"[int(h[16], 16) % 4] + h[17:]
        return {"hex": h}
    return st.uuids().map(fix)


def s_inet():
    addr = st.one_of(st.ip_addresses(v=4), st.ip_addresses(v=6), st.sampled_from(["::", "::1", "0.0.0.0", "255.255.255.255", "::ffff:1.2.3.4", "fe80::1"]))
    return st.builds(lambda a, o: {"a": str(a), "obj": o}, addr, st.sampled_from([False, False, True]))


def s_scalar_value(kind):
    if kind == "Text":
        return s_text()
    if kind == "Ascii":
        return s_text(ascii_only=True)
    if kind == "Blob":
        return st.builds(lambda b, ba: {"hex": b.hex(), "ba": ba}, st.binary(max_size=12), st.booleans())
    if kind == "Inet":
        return s_inet()
    if kind == "Integer":
        return s_int(32)
    if kind == "TinyInt":
        return s_int(8)
    if kind == "SmallInt":
        return s_int(16)
    if kind == "BigInt":
        return s_int(64)
    if kind == "VarInt":
        return s_varint()
    if kind == "Boolean":
        return st.booleans()
    if kind == "Float":
        return s_float32()
    if kind == "Double":
        return s_double()
    if kind == "Decimal":
        return s_decimal()
    if kind == "UUID":
        return s_uuid()
    if kind == "TimeUUID":
        return s_uuid(v1=True)
    if kind == "DateTime":
        return s_datetime()
    if kind == "Date":
        return s_date()
    if kind == "Time":
        return s_time()
    if kind == "Duration":
        return s_duration()
    raise ValueError(kind)


_SCALARS = ["Text", "Ascii", "Blob", "Inet", "Integer", "TinyInt", "SmallInt", "BigInt", "VarInt", "DateTime", "Date", "Time", "Duration",
            "UUID", "TimeUUID", "Boolean", "Float", "Double", "Decimal"]
_SCALAR_W = {"DateTime": 12, "Decimal": 3, "Double": 3, "Float": 2, "Text": 3, "Date": 3, "Time": 2}
# element kinds of sets / map keys (python-hashable after to_database is *expected* by the column: all declared hashable)
_KEYS = ["Text", "Integer", "BigInt", "UUID", "DateTime", "Date", "Boolean", "Inet", "Decimal", "Time", "Blob", "Double", "VarInt"]


def _hkey(kind, v):
    """identity of a value description under python equality of the built objects (set elements / map keys)"""
    import json
    if kind in ("Integer", "BigInt", "VarInt", "Boolean"):
        return ("n", int(v))
    if kind == "Double":
        return ("f", repr(v))
    if kind == "Decimal":
        import decimal
        d = decimal.Decimal(v["dec"]) if "dec" in v else decimal.Decimal(v["int"])
        return ("d", str(d.normalize()) if d == d else "nan")
    if kind == "DateTime":
        return ("t", json.dumps(v, sort_keys=True))
    if kind == "Blob":
        return ("b", v["hex"])
    if kind == "Inet":
        return ("i", v["a"])
    if kind == "Time":
        return ("T", v["ns"])
    if kind == "Date":
        if "dtv" in v:
            return ("D", v["dtv"]["ord"] - _EPOCH_ORD)
        return ("D", v.get("days", v.get("ord", v.get("dt", 0)) - _EPOCH_ORD))
    return (kind, json.dumps(v, sort_keys=True))


def _unique(kind, items):
    seen, out = set(), []
    for it in items:
        k = _hkey(kind, it)
        if k not in seen:
            seen.add(k)
            out.append(it)
    return out


def _key_value(kind):
    """values usable as set elements / map keys: datetimes naive (mixing naive and aware in one python set is not comparable)"""
    if kind == "DateTime":
        return s_datetime().filter(lambda d: "date" not in d and d["tz"] is None)
    if kind == "Double":
        return s_double().filter(lambda f: f != "nan")
    if kind == "Date":
        return s_date().filter(lambda d: "dt" not in d and "dtv" not in d)
    if kind == "Time":
        return s_time().filter(lambda d: d["form"] != "int")
    if kind == "Inet":
        return s_inet().map(lambda d: {"a": d["a"], "obj": False})
    if kind == "Blob":
        return s_scalar_value("Blob").map(lambda d: {"hex": d["hex"], "ba": False})
    return s_scalar_value(kind)


def s_col_and_value(depth):
    """strategy of (coldesc, valdesc)"""
    scalar = _pick([(_SCALAR_W.get(k, 1), st.just(k)) for k in _SCALARS]).flatmap(
        lambda k: s_scalar_value(k).map(lambda v: ({"c": k}, v)))
    if depth <= 0:
        return scalar

    inner = s_col_and_value(depth - 1)

    def list_of(kind_or_none):
        if kind_or_none is None:
            # nested: every element shares the inner column description
            return inner.flatmap(lambda cv: _same_col_values(cv[0]).map(lambda vs: ({"c": "List", "of": cv[0]}, vs)))
        return st.lists(s_scalar_value(kind_or_none), max_size=4).map(lambda vs: ({"c": "List", "of": {"c": kind_or_none}}, vs))

    def set_of(kind):
        return st.lists(_key_value(kind), max_size=4).map(lambda vs: ({"c": "Set", "of": {"c": kind}}, _unique(kind, vs)))

    def map_of(kk):
        return inner.flatmap(lambda cv: st.tuples(st.lists(_key_value(kk), max_size=3), _same_col_values(cv[0], 3, 3)).map(
            lambda p: ({"c": "Map", "k": {"c": kk}, "v": cv[0]}, [[a, b] for a, b in zip(_unique(kk, p[0]), p[1])])))

    def tuple_of():
        return st.lists(s_col_and_value(0), min_size=1, max_size=3).flatmap(
            lambda cvs: st.lists(st.booleans(), min_size=len(cvs), max_size=len(cvs)).map(
                lambda nulls: ({"c": "Tuple", "of": [c for c, _v in cvs]}, [None if (n and i > 0) else v for (i, ((_c, v), n)) in enumerate(zip(cvs, nulls))])))

    def udt_of():
        return st.lists(s_col_and_value(0), min_size=1, max_size=3).flatmap(
            lambda cvs: st.lists(st.sampled_from([False, False, True]), min_size=len(cvs), max_size=len(cvs)).map(
                lambda nulls: ({"c": "UDT", "name": "u%d" % len(cvs), "fields": [["f%d" % i, c] for i, (c, _v) in enumerate(cvs)]},
                               [None if n else v for ((_c, v), n) in zip(cvs, nulls)])))

    kinds = st.sampled_from(_SCALARS)
    keys = st.sampled_from(_KEYS)
    return _pick([
        (5, kinds.flatmap(list_of)),
        (2, list_of(None)),
        (4, keys.flatmap(set_of)),
        (4, keys.flatmap(map_of)),
        (3, tuple_of()),
        (2, udt_of()),
    ])


def _same_col_values(col, lo=0, hi=3):
    """lists of value descriptions for a given column description"""
    return st.lists(s_value_for(col), min_size=lo, max_size=hi)


def s_value_for(col):
    c = col["c"]
    if c in _SCALARS:
        return s_scalar_value(c)
    if c == "List":
        return st.lists(s_value_for(col["of"]), max_size=3)
    if c == "Set":
        k = col["of"]["c"]
        return st.lists(_key_value(k), max_size=3).map(lambda vs: _unique(k, vs))
    if c == "Map":
        k = col["k"]["c"]
        return st.tuples(st.lists(_key_value(k), max_size=3), st.lists(s_value_for(col["v"]), min_size=3, max_size=3)).map(
            lambda p: [[a, b] for a, b in zip(_unique(k, p[0]), p[1])])
    if c == "Tuple":
        return st.tuples(*[s_value_for(x) for x in col["of"]]).map(list)
    if c == "UDT":
        return st.tuples(*[s_value_for(x) for _n, x in col["fields"]]).map(list)
    raise ValueError(c)


def s_case():
    return _pick([(10, s_col_and_value(0)), (6, s_col_and_value(1)), (3, s_col_and_value(2))]).map(lambda cv: {"col": cv[0], "v": cv[1]})


def s_datetime_case():
    return s_datetime().map(lambda v: {"col": {"c": "DateTime"}, "v": v})


def s_date_case():
    """Date columns only: top level, or as list element / tuple member / map value"""
    top = s_date().map(lambda v: {"col": {"c": "Date"}, "v": v})
    lst = st.lists(s_date(), min_size=1, max_size=3).map(lambda vs: {"col": {"c": "List", "of": {"c": "Date"}}, "v": vs})
    mp = st.tuples(s_int(32), s_date()).map(lambda kv: {"col": {"c": "Map", "k": {"c": "Integer"}, "v": {"c": "Date"}}, "v": [[kv[0], kv[1]]]})
    tup = st.tuples(s_int(32), s_date()).map(lambda kv: {"col": {"c": "Tuple", "of": [{"c": "Integer"}, {"c": "Date"}]}, "v": [kv[0], kv[1]]})
    return _pick([(8, top), (2, lst), (1, mp), (1, tup)])


# ---------------------------------------------------------------------------------------------------------
# classification
# ---------------------------------------------------------------------------------------------------------
def colsig(d):
    c = d["c"]
    if c in ("List", "Set"):
        return "%s<%s>" % (c, colsig(d["of"]))
    if c == "Map":
        return "Map<%s,%s>" % (colsig(d["k"]), colsig(d["v"]))
    if c == "Tuple":
        return "Tuple<%s>" % ",".join(colsig(x) for x in d["of"])
    if c == "UDT":
        return "UDT<%s>" % ",".join(colsig(x) for _n, x in d["fields"])
    return c


def shape(d):
    """coarse column shape for finding keys"""
    c = d["c"]
    if c in ("List", "Set"):
        return "%s<%s>" % (c, d["of"]["c"])
    if c == "Map":
        return "Map<%s,%s>" % (d["k"]["c"], d["v"]["c"])
    return c


def _leaf_pairs(col, v):
    if v is None:
        return
    c = col["c"]
    if c in ("List", "Set"):
        for x in v:
            for p in _leaf_pairs(col["of"], x):
                yield p
    elif c == "Map":
        for a, b in v:
            for p in _leaf_pairs(col["k"], a):
                yield p
            for p in _leaf_pairs(col["v"], b):
                yield p
    elif c == "Tuple":
        for sub, x in zip(col["of"], v):
            for p in _leaf_pairs(sub, x):
                yield p
    elif c == "UDT":
        for (_n, sub), x in zip(col["fields"], v):
            for p in _leaf_pairs(sub, x):
                yield p
    else:
        yield c, v


def _offset_seconds(d, pyval):
    from checks import _cqle
    m = _cqle.rule_offset_minutes(d)
    if m is not None:
        return m * 60
    off = pyval.utcoffset()
    return off.days * 86400 + off.seconds


def _epoch_offset_seconds(d):
    """offset the same zone has on 1970-01-01T00:00 wall clock (what a conversion that looks the offset up at the epoch uses)"""
    from checks import _cqle
    tzd = d.get("tz")
    if tzd is None:
        return 0
    if tzd["kind"] == "pytz":
        return None
    e = dict(d, ord=_EPOCH_ORD, sod=0, us=0, fold=0)
    m = _cqle.rule_offset_minutes(e)
    if m is not None:
        return m * 60
    off = _cqle.build_datetime(e).utcoffset()
    return off.days * 86400 + off.seconds


def _dt_nontrivial(d, pyval):
    if "date" in d:
        y = datetime.date.fromordinal(d["date"]).year
        return y < 1900 or y > 2100
    y = datetime.date.fromordinal(d["ord"]).year
    if d["us"] % 1000 or y < 1900 or y > 2100:
        return True
    if d.get("tz") is not None:
        e = _epoch_offset_seconds(d)
        return e is not None and e != _offset_seconds(d, pyval)
    return False


def _date_day_shift(v):
    """for a datetime given to a date column: (UTC calendar day) - (the datetime's own calendar day), i.e. -1 / 0 / +1; the date
    stored is the datetime's own calendar day (cassandra.util.Date takes value.timetuple()), not the day of the instant in UTC"""
    from checks import _cqle
    d = v["dtv"]
    if d.get("tz") is None:
        return 0
    off = _offset_seconds(d, _cqle.build_datetime(d))
    return (d["sod"] - off) // 86400


def _nontrivial_leaf(kind, v):
    if kind in ("Integer", "BigInt", "VarInt"):
        return abs(v) >= 2 ** 31 - 1
    if kind in ("Float", "Double"):
        return isinstance(v, str) or len(repr(v)) > 16 or "e" in repr(v)
    if kind in ("Decimal", "Duration"):
        return True
    if kind == "Date":
        if "days" in v:
            return True
        if "dtv" in v:
            y = datetime.date.fromordinal(v["dtv"]["ord"]).year
            return y < 1900 or y > 2100 or _date_day_shift(v) != 0
        y = datetime.date.fromordinal(v.get("ord", v.get("dt"))).year
        return y < 1900 or y > 2100
    if kind == "Time":
        return v["ns"] % 1000 != 0
    if kind in ("Text", "Ascii"):
        return "'" in v or not v.isascii()
    if kind == "Inet":
        return ":" in v["a"]
    return False


def _ts_cause(diff):
    """root-cause class of a millisecond difference"""
    if diff == 0:
        return None
    if abs(diff) == 1:
        return "off-by-1ms"
    if abs(diff) > 26 * 3600 * 1000 + 1:
        return "other"              # no zone offset explains more than a day
    r = diff % 1000
    if r == 0:
        return "utc-offset"         # whole seconds: the zone offset was taken at another instant
    if r in (1, 999):
        return "utc-offset+1ms"
    return "other"


def _known_formula_ms(d, epoch_off):
    """what the float formula of the two catalogued DateTime.to_database defects yields for a datetime description:
    int((total_seconds(wall clock - 1970-01-01) - offset at the epoch) * 1000).  Only used to tell those two known behaviours
    from any other deviation in the finding key."""
    wall = datetime.timedelta(days=d["ord"] - _EPOCH_ORD, seconds=d["sod"], microseconds=d["us"])
    return int((wall.total_seconds() - epoch_off) * 1000)


def _honest(ms, us):
    """is `ms` the exact millisecond of the instant `us` (or, without an exact one, one of its two neighbours)"""
    return isinstance(ms, int) and (abs(ms * 1000 - us) < 1000 if us % 1000 else ms * 1000 == us)


def _dt_cause(got, us, off, epoch_off, d):
    """None when `got` is right; else the root-cause class of the stored milliseconds of a top-level datetime"""
    if _honest(got, us):
        return None
    if epoch_off is None:
        epoch_off = off
    if not isinstance(got, int) or got != _known_formula_ms(d, epoch_off):
        return "other"
    shift = (off - epoch_off) * 1000
    if shift and _honest(got - shift, us):
        return "utc-offset"
    if shift == 0:
        return "off-by-1ms"
    return "utc-offset+1ms"


def _first_diff(tree, a, b, path=""):
    """(leaf type name, a, b) of the first position where two tagged values differ"""
    t = tree["t"]
    if t in ("frozen", "reversed"):
        return _first_diff(tree["of"], a, b, path)
    if a is None or b is None or isinstance(a, dict) or isinstance(b, dict):
        return t, a, b
    if t == "list" and len(a) == len(b):
        for x, y in zip(a, b):
            if not cqlterm.same_value(tree["of"], x, y):
                return _first_diff(tree["of"], x, y)
    if t == "map" and len(a) == len(b):
        for (ka, va), (kb, vb) in zip(a, b):
            if not cqlterm.same_value(tree["k"], ka, kb):
                return _first_diff(tree["k"], ka, kb)
            if not cqlterm.same_value(tree["v"], va, vb):
                return _first_diff(tree["v"], va, vb)
    if t in ("tuple", "udt"):
        subs = tree["of"] if t == "tuple" else [f[1] for f in tree["fields"]]
        for sub, x, y in zip(subs, a, b):
            if not cqlterm.same_value(sub, x, y):
                return _first_diff(sub, x, y)
    if t == "set" and len(a) == len(b) == 1:
        return _first_diff(tree["of"], a[0], b[0])
    return t, a, b


# ---------------------------------------------------------------------------------------------------------
# oracle
# ---------------------------------------------------------------------------------------------------------
def _has_udt(d):
    c = d["c"]
    if c == "UDT":
        return True
    if c in ("List", "Set"):
        return _has_udt(d["of"])
    if c == "Map":
        return _has_udt(d["k"]) or _has_udt(d["v"])
    if c == "Tuple":
        return any(_has_udt(x) for x in d["of"])
    return False


def _blob_key(d):
    """a Blob column used as set element or map key somewhere in the column"""
    c = d["c"]
    if c == "Set":
        return d["of"]["c"] == "Blob" or _blob_key(d["of"])
    if c == "Map":
        return d["k"]["c"] == "Blob" or _blob_key(d["k"]) or _blob_key(d["v"])
    if c == "List":
        return _blob_key(d["of"])
    if c == "Tuple":
        return any(_blob_key(x) for x in d["of"])
    if c == "UDT":
        return any(_blob_key(x) for _n, x in d["fields"])
    return False


def _udts(d, out):
    c = d["c"]
    if c == "UDT":
        out.append(d)
        for _n, x in d["fields"]:
            _udts(x, out)
    elif c in ("List", "Set"):
        _udts(d["of"], out)
    elif c == "Map":
        _udts(d["k"], out)
        _udts(d["v"], out)
    elif c == "Tuple":
        for x in d["of"]:
            _udts(x, out)
    return out


def interpret(case, ctx):
    from checks import _cqle, _drv
    col_d, val_d = case["col"], case["v"]
    tree = _cqle.tree_of(col_d)
    sig = shape(col_d)
    ctx.label("col:" + (col_d["c"] if col_d["c"] in _cqle.SCALAR_KINDS else col_d["c"]))
    for kind, _v in _leaf_pairs(col_d, val_d):
        ctx.label("leaf:" + kind)

    with _cqle.connected() as session:
        for u in _udts(col_d, []):
            session.cluster.declare_udt("ks", u["name"], [n for n, _x in u["fields"]])
            _cqle.udt_class(u).register_for_keyspace("ks", connection=_cqle.CONNECTION)
        column = _cqle.make_column(col_d)
        column.set_column_name("c")
        value = _cqle.build_value(col_d, val_d)
        core_value = _cqle.build_value(col_d, val_d)

        # ---- classification
        nt = col_d["c"] not in _cqle.SCALAR_KINDS
        dt_top = col_d["c"] == "DateTime" and "date" not in val_d
        for kind, v in _leaf_pairs(col_d, val_d):
            if kind == "DateTime":
                pv = _cqle.build_value({"c": "DateTime"}, v)
                if _dt_nontrivial(v, pv):
                    nt = True
                if "date" in v:
                    ctx.label("dt:date-object")
                elif v.get("tz") is None:
                    ctx.label("dt:naive")
                else:
                    ctx.label("dt:aware:" + v["tz"]["kind"])
                    e = _epoch_offset_seconds(v)
                    if e is not None and e != _offset_seconds(v, pv):
                        ctx.label("dt:offset-differs-from-epoch-offset")
                if "date" not in v and v["us"] % 1000:
                    ctx.label("dt:sub-ms")
            elif kind == "Date" and "dtv" in v:
                d = v["dtv"]
                shift = _date_day_shift(v)
                # (the evidence keeps the 60 most frequent labels: few, coarse labels here)
                ctx.label("date:from-datetime:" + ("naive" if d.get("tz") is None else "aware"))
                if shift:
                    ctx.label("date:from-datetime:utc-day-%s" % ("before" if shift < 0 else "after"))
                if _nontrivial_leaf(kind, v):
                    nt = True
            elif kind == "Decimal":
                nt = True
                digs = (v["dec"].split("E")[0] if "dec" in v else str(v["int"])).replace("-", "").replace(".", "").lstrip("0")
                if len(digs.rstrip("0")) > 28:
                    ctx.label("decimal:>28-significant-digits")
            elif _nontrivial_leaf(kind, v):
                nt = True
        ctx.nontrivial(nt)

        # ---- what cqlengine sends
        db = literal = None
        with ctx.driver(["C36.to_database", "blob-as-set-element-or-map-key" if _blob_key(col_d) else sig]):
            # Model.save()/validate() runs the column validator before the value is converted
            validated = column.validate(value)
            db = column.to_database(validated)
            literal = session.encoder.cql_encode_all_types(db)
        if ctx._failures:
            return
        if not isinstance(literal, str):
            ctx.fail(["C36.literal", sig, "not-text"], "the encoder returned %r" % (type(literal).__name__,))
            return
        try:
            term = cqlterm.parse_term(literal)
        except ValueError as e:
            ctx.fail(["C36.literal", sig, "unparseable"], "the value literal %r is not one CQL term: %s" % (literal[:200], e))
            return
        try:
            got = cqlterm.denote(term, tree)
        except cqlterm.Invalid as e:
            ctx.fail(["C36.literal", sig, "invalid"], "Cassandra rejects %r for %s: %s" % (literal[:200], cqlterm.type_name(tree), e))
            return

        # ---- the instant of a datetime, independently of the core path
        dt_cause = None
        if dt_top:
            off = _offset_seconds(val_d, value)
            us = (((val_d["ord"] - _EPOCH_ORD) * 86400 + val_d["sod"]) - off) * 10 ** 6 + val_d["us"]
            dt_cause = _dt_cause(got, us, off, _epoch_offset_seconds(val_d), val_d)
            if dt_cause is not None:
                ctx.fail(["C36.instant", dt_cause], "%r is the instant %d us since the epoch, cqlengine stores %r ms (difference %s ms)" % (
                    value, us, got, (got - us // 1000) if isinstance(got, int) else "?"))

        # ---- the day of a datetime given to a date column, independently of the core path: its own calendar day
        date_cause = None
        if col_d["c"] == "Date" and "dtv" in val_d:
            want_day = val_d["dtv"]["ord"] - _EPOCH_ORD
            if got != want_day:
                shift = _date_day_shift(val_d)
                date_cause = "utc-day" if shift and isinstance(got, int) and got == want_day + shift else "other"
                ctx.fail(["C36.day", date_cause], "%r has the calendar day %d (days since the epoch), cqlengine sends %r which reads as %r" % (
                    value, want_day, literal[:80], got))

        # ---- equality with the core prepared encoding of the original value
        try:
            wire = _drv.build_type(tree, "direct").to_binary(core_value, 4)
            want = V.decode(tree, wire, 4, validate=False)
        except Exception as e:  # noqa -- the core path refuses the value
            ctx.label("core:refused", "core:refused:" + type(e).__name__)
            return
        if not cqlterm.same_value(tree, got, want):
            leaf, a, b = _first_diff(tree, want, got)
            if dt_top:
                key = ["C36.value", "timestamp", dt_cause or "core-differs"]
            elif col_d["c"] == "DateTime":
                key = ["C36.value", "timestamp", "date-object"]
            elif leaf == "timestamp" and isinstance(a, int) and isinstance(b, int):
                key = ["C36.value", "timestamp", _ts_cause(b - a)]
            elif date_cause is not None:
                key = ["C36.value", "date", date_cause]
            else:
                key = ["C36.value", leaf]
            ctx.fail(key, "%s value %r: cqlengine sends %r which reads as %s, the prepared path sends %s" % (
                colsig(col_d), value if len(repr(value)) < 200 else "...", literal[:200], _short(got), _short(want)))
        else:
            ctx.label("equal")


def _short(v):
    s = repr(v)
    return s if len(s) < 160 else s[:160] + "..."


def parts(tier):
    cqlterm.self_test()
    return [
        hyp_part("values", s_case, interpret, tier, quick=1500, thorough=12000),
        hyp_part("datetimes", s_datetime_case, interpret, tier, quick=1500, thorough=10000),
        hyp_part("dates", s_date_case, interpret, tier, quick=500, thorough=6000),
    ]
