"""C37 -- cqlengine statements bind every placeholder to its own clause's value."""
import datetime
import json
import os

from hypothesis import strategies as st

from spec import cqlparse, cqlterm
from spec import values as V
from vlib.harness import hyp_part

PID = "C37"
TITLE = "cqlengine statements bind every placeholder to its own clause's value"
LEVEL = "exploration"
ENGINE = "cql"
SERIAL = os.environ.get("VERIF_TIER") == "quick"
TECHNIQUE = ("property-based testing (Hypothesis): generated query-set chains, model operations and batches run against a fake session "
             "registered as cqlengine connection; the statement text with its %(n)s markers and the context dict, and the text after the "
             "driver's own parameter substitution, are parsed by an independent CQL statement parser (spec.cqlparse) and compared with "
             "the requested filters / conditions / assignments, every value carrying a tag that is unique to its clause; the DELETE a conditional "
             "write issues for nulled columns must repeat every requested condition on a column the preceding UPDATE does not assign")
RULE = ("One case = a model (1-2 partition key columns, 0-2 clustering columns, 2-6 other columns among scalar/set/list/map/static, "
        "some with a db_field name different from the attribute name, some indexed) and a program: one operation, or 2-5 DML "
        "operations inside one BatchQuery.  Operations: select chains (filter with =, IN, >, >=, <, <=, CONTAINS, LIKE, IS NOT NULL, "
        "pk__token comparisons and token range scans, keyword and Model.col == v forms; order_by, limit, only/defer, allow_filtering, distinct; iterate / "
        "count / first), Model.create (ttl, timestamp, if_not_exists, explicit None / empty collections), queryset update (scalar "
        "assignment, None, collection assignment, __add/__remove/__append/__prepend/__update with possibly empty collections, iff "
        "conditions with =, !=, <, <=, >, >=, if_exists, ttl, timestamp), queryset delete, and save/update/delete of an instance "
        "loaded through Model.get (changed scalars, nulled columns, collections grown at the end, the front or both ends in one save, shrunk or replaced, iff, if_exists).  "
        "Up to three iff conditions per write, each drawn either among all scalar columns or among the scalar columns the same operation assigns.  "
        "Two in seven cases are built around a conditional write that assigns one column and nulls another in the same call (the mapper then "
        "queues an UPDATE and a DELETE that share the WHERE / IF clause objects) with 2-3 conditions, the first on an assigned column, on a model "
        "with at least two scalar columns; that write is executed alone, as the first, a middle or the last operation of a batch (labels "
        "cond-write:set+null:{alone,batch-first,batch-later} and ...:conds>=2,mixed:... count how often the DELETE has to drop a condition that "
        "precedes one it keeps).  Every "
        "requested value is built from a counter so that no two clauses share a scalar.  Non-trivial: a statement with >= 3 clauses "
        "of >= 2 kinds, or a batch of >= 2 statements, or a collection clause with an empty collection (every set+null conditional write "
        "qualifies: two statements or >= 3 clauses of SET, WHERE and IF).")
ASSUMPTIONS = [
    "spec/cqllex.py + spec/cqlterm.py + spec/cqlparse.py stand for Cassandra's lexer and DML grammar; a statement they reject is rejected by Cassandra",
    "the fake session substitutes parameters exactly like Session.execute for simple statements (cassandra.query.bind_params with the session's Encoder)",
    "for save()/update() of a loaded instance the choice between overwriting a collection and partial add/remove/append/prepend is "
    "left to the mapper (its effect on whole histories is the business of C35); here every changed column must be touched, no other column, "
    "every value must belong to the clause's own column, and the clauses of one column applied to the loaded value (prepend / append / add / "
    "remove / element assignment / element deletion, each with the operand bound to its own placeholder) must give the instance's new value",
    "a map assignment through queryset update may be rendered as whole-map assignment or as one element assignment per key",
    "the null-column DELETE that follows the UPDATE of a conditional write may omit the conditions on columns that UPDATE has just assigned "
    "(they could no longer hold inside the same batch); it may not omit or alter any other requested condition",
    "DateTime values are whole seconds (the millisecond conversion defects of C36 are not re-reported here); option combinations "
    "Cassandra itself rejects (custom timestamp with conditions, iff together with if_exists) are not generated",
]

_KEY_KINDS = ["Integer", "BigInt", "Text", "UUID", "Blob", "Time", "Date", "DateTime"]
_SCALAR_KINDS = ["Integer", "Text", "Boolean", "Blob", "Double", "UUID", "DateTime", "BigInt"]
_ELEM_KINDS = ["Integer", "Text"]
_EPOCH_ORD = datetime.date(1970, 1, 1).toordinal()
_CMP = {"EQ": "=", "NE": "!=", "GT": ">", "GTE": ">=", "LT": "<", "LTE": "<=", "IN": "IN", "CONTAINS": "CONTAINS", "LIKE": "LIKE"}


# ---------------------------------------------------------------------------------------------------------
# case strategies (structure only; values are derived from a tag counter inside interpret)
# ---------------------------------------------------------------------------------------------------------
def s_coldesc():
    scalar = st.sampled_from(_SCALAR_KINDS).map(lambda k: {"c": k})
    elem = st.sampled_from(_ELEM_KINDS).map(lambda k: {"c": k})
    coll = st.one_of(elem.map(lambda e: {"c": "Set", "of": e}), elem.map(lambda e: {"c": "List", "of": e}),
                     st.tuples(elem, elem).map(lambda p: {"c": "Map", "k": p[0], "v": p[1]}))
    return st.one_of(scalar, scalar, coll, coll, coll)


def s_model(min_scalar=0):
    """min_scalar: that many of the non-key columns are scalar for sure (conditions can only be put on scalar columns)"""
    def col_of(t):
        return st.fixed_dictionaries({"t": t, "db": st.sampled_from([False, False, True]), "index": st.sampled_from([0, 0, 1, 2]),
                                      "static": st.sampled_from([False, False, False, True])})
    col = col_of(s_coldesc())
    cols = st.lists(col, min_size=2, max_size=6)
    if min_scalar:
        sure = st.lists(col_of(st.sampled_from(_SCALAR_KINDS).map(lambda k: {"c": k})), min_size=min_scalar, max_size=min_scalar)
        cols = st.tuples(sure, st.lists(col, min_size=max(0, 2 - min_scalar), max_size=6 - min_scalar), st.integers(0, 6)).map(
            lambda t: t[1][:t[2]] + t[0] + t[1][t[2]:])
    key = st.sampled_from(_KEY_KINDS)
    return st.fixed_dictionaries({
        "pk": st.lists(key, min_size=1, max_size=2), "pk_db": st.lists(st.sampled_from([False, False, True]), min_size=2, max_size=2),
        "ck": st.lists(key, min_size=0, max_size=2), "ck_db": st.lists(st.sampled_from([False, False, True]), min_size=2, max_size=2),
        "cols": cols})


_I = st.integers(0, 11)
_SIZE = st.sampled_from([0, 1, 1, 2, 3])


def s_options(lwt=True, cond=False):
    """cond=True: the options of a conditional write with two or three iff conditions, the first of them aimed at a column the
    operation itself writes (iff_on[i] says whether condition i is drawn among the written scalar columns or among all of them)"""
    cmp_op = st.sampled_from(["EQ", "EQ", "NE", "GT", "GTE", "LT", "LTE"])
    if cond:
        return st.fixed_dictionaries({
            "ttl": st.sampled_from([None, None, 5, 3600]), "ts": st.just(False),
            "iff": st.lists(st.tuples(_I, cmp_op), min_size=2, max_size=3),
            "iff_on": st.tuples(st.just(True), st.booleans(), st.booleans()).map(list), "if_exists": st.just(False)})
    return st.fixed_dictionaries({
        "ttl": st.sampled_from([None, None, 5, 3600]), "ts": st.sampled_from([False, False, True]),
        "iff": st.lists(st.tuples(_I, cmp_op), max_size=3) if lwt else st.just([]),
        "iff_on": st.lists(st.sampled_from([False, False, True]), min_size=3, max_size=3),
        "if_exists": st.sampled_from([False, False, True]) if lwt else st.just(False)})


def s_select():
    fop_ck = st.sampled_from(["EQ", "EQ", "IN", "GT", "GTE", "LT", "LTE"])
    return st.fixed_dictionaries({
        "op": st.just("select"), "mode": st.sampled_from(["pk", "pk", "pk", "token", "token", "scan"]),
        "pk_ops": st.lists(st.sampled_from(["EQ", "EQ", "IN"]), min_size=2, max_size=2), "n_in": st.integers(0, 3),
        "token_op": st.sampled_from(["EQ", "GT", "GTE", "LT", "LTE"]),
        "ck": st.lists(fop_ck, max_size=2), "extra": st.lists(st.tuples(_I, st.sampled_from(["EQ", "CONTAINS", "LIKE", "GT", "IN"])), max_size=2),
        "notnull": st.lists(_I, max_size=1), "order": st.sampled_from([0, 0, 1, 2]), "limit": st.sampled_from(["default", "default", None, 0, 1, 77]),
        "only": st.one_of(st.none(), st.none(), st.lists(_I, min_size=1, max_size=3)), "defer": st.lists(_I, max_size=2),
        "allow": st.booleans(), "distinct": st.sampled_from([False, False, False, True]),
        "terminal": st.sampled_from(["iter", "iter", "count", "first"]), "form": st.sampled_from(["kw", "kw", "expr"])})


def s_create():
    return st.fixed_dictionaries({"op": st.just("create"), "given": st.lists(st.tuples(_I, st.sampled_from(["value", "value", "none", "empty"]), _SIZE), max_size=5),
                                  "ttl": st.sampled_from([None, None, 5]), "ts": st.sampled_from([False, False, True]),
                                  "ine": st.sampled_from([False, False, True])})


def s_qupdate(cond=False):
    kinds = st.sampled_from(["set", "set", "none", "add", "remove", "append", "prepend", "update", "mremove"])
    if cond:
        # a conditional update that assigns at least one column and nulls at least one other in the same call (UPDATE + DELETE)
        head = st.tuples(st.tuples(_I, st.just("set"), _SIZE), st.tuples(_I, st.just("none"), _SIZE), st.booleans()).map(
            lambda t: [t[0], t[1]] if t[2] else [t[1], t[0]])
        sets = st.tuples(head, st.lists(st.tuples(_I, kinds, _SIZE), max_size=3)).map(lambda t: t[0] + t[1])
        return st.fixed_dictionaries({"op": st.just("qupdate"), "cond": st.just(True), "sets": sets, "opt": s_options(cond=True)})
    return st.fixed_dictionaries({"op": st.just("qupdate"), "sets": st.lists(st.tuples(_I, kinds, _SIZE), min_size=1, max_size=5), "opt": s_options()})


def s_qdelete():
    return st.fixed_dictionaries({"op": st.just("qdelete"), "n_ck": st.integers(0, 2), "opt": s_options()})


def s_iupdate(cond=False):
    change = st.sampled_from(["set", "set", "none", "grow", "grow_front", "grow_both", "grow_both", "grow_both", "shrink", "replace", "clear", "mix"])
    if cond:
        # every column stored; at least one column gets a new value and at least one other is nulled, under 2-3 iff conditions
        head = st.tuples(st.tuples(_I, st.just("set"), _SIZE), st.tuples(_I, st.just("none"), _SIZE), st.booleans()).map(
            lambda t: [t[0], t[1]] if t[2] else [t[1], t[0]])
        changes = st.tuples(head, st.lists(st.tuples(_I, change, _SIZE), max_size=2)).map(lambda t: t[0] + t[1])
        return st.fixed_dictionaries({"op": st.just("iupdate"), "cond": st.just(True),
                                      "stored": st.lists(st.tuples(st.just(True), st.sampled_from([1, 2, 3])), min_size=6, max_size=6),
                                      "changes": changes, "method": st.sampled_from(["save", "update", "update_kw"]), "opt": s_options(cond=True)})
    return st.fixed_dictionaries({"op": st.just("iupdate"), "stored": st.lists(st.tuples(st.booleans(), st.sampled_from([1, 2, 3])), min_size=6, max_size=6),
                                  "changes": st.lists(st.tuples(_I, change, _SIZE), min_size=1, max_size=4),
                                  "method": st.sampled_from(["save", "update", "update_kw"]), "opt": s_options()})


def s_idelete():
    return st.fixed_dictionaries({"op": st.just("idelete"), "stored": st.lists(st.tuples(st.booleans(), st.sampled_from([1, 2])), min_size=6, max_size=6),
                                  "opt": s_options()})


def s_case():
    dml = st.one_of(s_create(), s_qupdate(), s_qupdate(), s_qdelete(), s_iupdate(), s_iupdate(), s_idelete(), s_qupdate(cond=True), s_iupdate(cond=True))
    single = st.one_of(s_select(), s_select(), s_select(), dml, dml, dml).map(lambda o: [o])
    batch = st.fixed_dictionaries({"type": st.sampled_from([None, None, "UNLOGGED"]), "ts": st.sampled_from([False, False, True])})
    # a conditional write that assigns and nulls columns in one call, at any position of a batch (or alone), on a model with enough
    # scalar columns to carry conditions both on written and on untouched columns
    cond = st.one_of(s_qupdate(cond=True), s_iupdate(cond=True))
    around = st.tuples(st.lists(dml, max_size=1), cond, st.lists(dml, max_size=2)).map(lambda t: t[0] + [t[1]] + t[2])
    return st.one_of(
        st.fixed_dictionaries({"model": s_model(), "prog": single, "batch": st.none()}),
        st.fixed_dictionaries({"model": s_model(), "prog": single, "batch": st.none()}),
        st.fixed_dictionaries({"model": s_model(), "prog": single, "batch": st.none()}),
        st.fixed_dictionaries({"model": s_model(), "prog": st.lists(dml, min_size=1, max_size=5), "batch": batch}),
        st.fixed_dictionaries({"model": s_model(), "prog": st.lists(dml, min_size=1, max_size=5), "batch": batch}),
        st.fixed_dictionaries({"model": s_model(min_scalar=2), "prog": around, "batch": batch}),
        st.fixed_dictionaries({"model": s_model(min_scalar=2), "prog": cond.map(lambda o: [o]), "batch": st.one_of(st.none(), batch)}))


# ---------------------------------------------------------------------------------------------------------
# tagged values
# ---------------------------------------------------------------------------------------------------------
class Tags(object):
    """every scalar handed to cqlengine is derived from a fresh counter value, and remembers which clause it was made for"""

    def __init__(self):
        self.n = 100
        self.owner = {}

    def scalar(self, kind, owner):
        """-> (python object, tagged value)"""
        from cassandra import util
        import uuid
        self.n += 1
        t = self.n
        if kind in ("Integer", "BigInt"):
            py, tg = t, t
        elif kind == "Text":
            py = tg = "v%d" % t
        elif kind == "Boolean":
            py = tg = bool(t % 2)
        elif kind == "Blob":
            py, tg = t.to_bytes(3, "big"), t.to_bytes(3, "big").hex()
        elif kind == "Double":
            py = tg = t + 0.5
        elif kind == "UUID":
            py, tg = uuid.UUID(int=t), "%032x" % t
        elif kind == "Time":
            py, tg = util.Time(t * 1000), t * 1000
        elif kind == "Date":
            py, tg = util.Date(t), t
        elif kind == "DateTime":
            py, tg = datetime.datetime(2001, 1, 1) + datetime.timedelta(seconds=t), (978307200 + t) * 1000
        else:
            raise ValueError(kind)
        if kind != "Boolean":
            self.owner[_skey(kind, tg)] = owner
        return py, tg

    def value(self, col, owner, size=2):
        """(python, tagged) for a column description; collections get `size` fresh elements"""
        c = col["c"]
        if c in ("Set", "List"):
            items = [self.scalar(col["of"]["c"], owner) for _ in range(size)]
            py = [p for p, _t in items]
            return (set(py) if c == "Set" else py), [t for _p, t in items]
        if c == "Map":
            ks = [self.scalar(col["k"]["c"], owner) for _ in range(size)]
            vs = [self.scalar(col["v"]["c"], owner) for _ in range(size)]
            return dict((k[0], v[0]) for k, v in zip(ks, vs)), [[k[1], v[1]] for k, v in zip(ks, vs)]
        return self.scalar(c, owner)


def _skey(kind, tagged):
    return "%s:%s" % (_TREE_OF_KIND.get(kind, kind), json.dumps(tagged, sort_keys=True))


_TREE_OF_KIND = {"Integer": "int", "BigInt": "bigint", "Text": "text", "Blob": "blob", "Double": "double", "UUID": "uuid", "Time": "time",
                 "Date": "date", "DateTime": "timestamp", "Boolean": "boolean"}


def _scalars(tree, tagged, out):
    """flatten a tagged value into (scalar type name, tagged scalar)"""
    if tagged is None:
        return out
    t = tree["t"]
    if t in ("frozen", "reversed"):
        return _scalars(tree["of"], tagged, out)
    if t in ("list", "set"):
        for x in tagged:
            _scalars(tree["of"], x, out)
    elif t == "map":
        for a, b in tagged:
            _scalars(tree["k"], a, out)
            _scalars(tree["v"], b, out)
    else:
        out.append((t, tagged))
    return out


def _vkey(tree, tagged):
    return json.dumps(V.canon(tree, tagged), sort_keys=True)


# ---------------------------------------------------------------------------------------------------------
# model
# ---------------------------------------------------------------------------------------------------------
class Col(object):
    def __init__(self, attr, db, role, desc, index=0):
        from checks import _cqle
        self.attr, self.db, self.role, self.desc, self.index = attr, db, role, desc, index
        self.tree = _cqle.tree_of(desc)
        self.kind = desc["c"]

    @property
    def collection(self):
        return self.kind in ("Set", "List", "Map")


def build_model(m):
    """-> (Model class, [Col])"""
    from checks import _cqle
    cols, defs = [], []
    for i, k in enumerate(m["pk"]):
        attr = "p%d" % i
        db = "dbp%d" % i if m["pk_db"][i] else attr
        cols.append(Col(attr, db, "pk", {"c": k}))
        defs.append((attr, _cqle.make_column({"c": k}, partition_key=True, db_field=db if db != attr else None)))
    for i, k in enumerate(m["ck"]):
        attr = "c%d" % i
        db = "dbc%d" % i if m["ck_db"][i] else attr
        cols.append(Col(attr, db, "ck", {"c": k}))
        defs.append((attr, _cqle.make_column({"c": k}, primary_key=True, db_field=db if db != attr else None)))
    for i, c in enumerate(m["cols"]):
        attr = "a%d" % i
        db = "dba%d" % i if c["db"] else attr
        static = bool(c["static"] and m["ck"])
        kw = {"db_field": db if db != attr else None, "static": static}
        if c["index"] == 1:
            kw["index"] = True
        elif c["index"] == 2:
            kw["custom_index"] = True
        cols.append(Col(attr, db, "static" if static else "regular", c["t"], c["index"]))
        defs.append((attr, _cqle.make_column(c["t"], **kw)))
    return _cqle.make_model("M37", defs), cols


# ---------------------------------------------------------------------------------------------------------
# observed statements -> normal form
# ---------------------------------------------------------------------------------------------------------
class Bad(Exception):
    def __init__(self, key, msg):
        Exception.__init__(self, msg)
        self.key, self.msg = key, msg


def _denote(term, tree, where):
    try:
        return cqlterm.denote(term, tree)
    except cqlterm.Invalid as e:
        raise Bad(["C37.literal", "invalid", where], "Cassandra rejects the literal %s for %s (%s): %s" % (
            cqlterm.render(term)[:120], cqlterm.type_name(tree), where, e))
    except cqlterm.Unsupported as e:
        raise Bad(["C37.literal", "not-a-literal", where], "%s is not a literal (%s): %s" % (cqlterm.render(term)[:120], where, e))


def _elem_tree(col, op):
    t = V.core(col.tree)
    if op == "CONTAINS KEY":
        return t["k"]
    if op == "CONTAINS":
        return t["v"] if t["t"] == "map" else t["of"]
    return col.tree


def norm_rel(rel, by_db, pk_cols, where):
    """relation / condition AST -> (lhs key, op, value key, [(type, scalar)..])"""
    scal = []
    if "token" in rel.get("lhs", {}):
        names = rel["lhs"]["token"]
        rhs = rel["rhs"]
        if rhs["k"] != "call" or rhs["name"] != "token":
            raise Bad(["C37.%s" % where, "token-rhs"], "token(...) is compared with %s" % cqlterm.render(rhs)[:100])
        if len(rhs["args"]) != len(names):
            raise Bad(["C37.%s" % where, "token-arity"], "token(%s) compared with %d values" % (",".join(names), len(rhs["args"])))
        vals = []
        for n, a in zip(names, rhs["args"]):
            col = by_db.get(n)
            if col is None:
                raise Bad(["C37.%s" % where, "unknown-column"], "token() over %r which is not a column of the table" % n)
            v = _denote(a, col.tree, where + ":token")
            vals.append(_vkey(col.tree, v))
            _scalars(col.tree, v, scal)
        return ("token:" + ",".join(names), rel["op"], json.dumps(vals), scal)
    name = rel["lhs"]["col"] if "lhs" in rel else rel["col"]
    col = by_db.get(name)
    if col is None:
        raise Bad(["C37.%s" % where, "unknown-column"], "%s clause on %r which is not a column of the table" % (where, name))
    op = rel["op"]
    if op == "IS NOT NULL":
        return (name, op, "null", scal)
    tree = _elem_tree(col, op)
    if op == "IN":
        if not isinstance(rel["rhs"], list):
            raise Bad(["C37.%s" % where, "in-rhs"], "IN is followed by %s" % cqlterm.render(rel["rhs"])[:100])
        vals = []
        for a in rel["rhs"]:
            v = _denote(a, tree, where + ":IN:" + col.kind)
            vals.append(_vkey(tree, v))
            _scalars(tree, v, scal)
        return (name, op, json.dumps(vals), scal)
    v = _denote(rel["rhs"], tree, where + ":" + col.kind)
    _scalars(tree, v, scal)
    return (name, op, _vkey(tree, v), scal)


def _int_of(term, what):
    if term is None:
        return None
    if term["k"] != "integer":
        raise Bad(["C37.option", what], "%s is %s" % (what, cqlterm.render(term)[:60]))
    return int(term["text"])


def norm_statement(ast, by_db, pk_cols):
    """parsed (substituted) statement -> comparable dict; raises Bad"""
    k = ast["stmt"]
    out = {"stmt": k, "table": [ast.get("ks"), ast.get("table")]}
    own = []        # (db column | None, clause label, [(type, scalar)])

    def rels(items, where):
        res = []
        for r in items:
            lhs, op, vk, scal = norm_rel(r, by_db, pk_cols, where)
            if "key" in r:
                raise Bad(["C37.%s" % where, "element-condition"], "unexpected element condition")
            res.append([lhs, op, vk])
            own.append((lhs, where, scal))
        return sorted(res)

    if k == "select":
        out["distinct"] = ast["distinct"]
        sels = ast["selectors"]
        out["count"] = False
        if sels == "*":
            out["columns"] = "*"
        else:
            names = []
            for s in sels:
                if s["sel"] == "count":
                    out["count"] = True
                elif s["sel"] == "col":
                    names.append(s["name"])
                elif s["sel"] == "call" and s["name"] == "count":
                    out["count"] = True
                    names.extend(a["name"] for a in s["args"] if a["sel"] == "col")
                else:
                    raise Bad(["C37.select", "selector"], "unexpected selector %r" % (s,))
            out["columns"] = names
        out["where"] = rels(ast["where"], "where")
        out["order"] = ast["order"]
        out["limit"] = _int_of(ast["limit"], "LIMIT")
        out["allow_filtering"] = ast["allow_filtering"]
        if ast["json"] or ast["per_partition_limit"] is not None:
            raise Bad(["C37.select", "modifier"], "unrequested JSON / PER PARTITION LIMIT")
    elif k == "insert":
        if len(ast["columns"]) != len(ast["values"]):
            raise Bad(["C37.insert", "arity"], "%d columns, %d values" % (len(ast["columns"]), len(ast["values"])))
        assign = {}
        for n, t in zip(ast["columns"], ast["values"]):
            col = by_db.get(n)
            if col is None:
                raise Bad(["C37.insert", "unknown-column"], "INSERT names %r which is not a column of the table" % n)
            if n in assign:
                raise Bad(["C37.insert", "duplicate-column"], "INSERT names %r twice" % n)
            v = _denote(t, col.tree, "insert:" + col.kind)
            assign[n] = _vkey(col.tree, v)
            own.append((n, "insert", _scalars(col.tree, v, [])))
        out["assign"] = assign
        out["ine"] = ast["if_not_exists"]
        out["ttl"], out["ts"] = _int_of(ast["ttl"], "TTL"), _int_of(ast["timestamp"], "TIMESTAMP")
    elif k == "update":
        sets = []
        for a in ast["set"]:
            col = by_db.get(a["col"])
            if col is None:
                raise Bad(["C37.set", "unknown-column"], "SET names %r which is not a column of the table" % a["col"])
            core = V.core(col.tree)
            scal = []
            if a["op"] == "setelem":
                if core["t"] != "map":
                    raise Bad(["C37.set", "element-of-non-map"], "element assignment on %s column" % core["t"])
                kv = _denote(a["key"], core["k"], "set:key:" + col.kind)
                vv = _denote(a["value"], core["v"], "set:elem:" + col.kind)
                _scalars(core["k"], kv, scal)
                _scalars(core["v"], vv, scal)
                sets.append([a["col"], "setelem", _vkey(core["k"], kv), _vkey(core["v"], vv)])
            else:
                tree = col.tree
                if a["op"] == "sub" and core["t"] == "map":
                    tree = {"t": "set", "of": core["k"]}
                v = _denote(a["value"], tree, "set:" + col.kind)
                _scalars(tree, v, scal)
                sets.append([a["col"], a["op"], None, _vkey(tree, v)])
            own.append((a["col"], "set", scal))
        out["set"] = sorted(sets, key=json.dumps)
        out["where"] = rels(ast["where"], "where")
        out["if"] = rels(ast["if"], "if")
        out["if_exists"] = ast["if_exists"]
        out["ttl"], out["ts"] = _int_of(ast["ttl"], "TTL"), _int_of(ast["timestamp"], "TIMESTAMP")
    elif k == "delete":
        tg = []
        for t in ast["targets"]:
            col = by_db.get(t["col"])
            if col is None:
                raise Bad(["C37.delete", "unknown-column"], "DELETE names %r which is not a column of the table (columns: %s)" % (
                    t["col"], ", ".join(sorted(by_db))))
            if "key" in t:
                core = V.core(col.tree)
                if core["t"] != "map":
                    raise Bad(["C37.delete", "element-of-non-map"], "element deletion on %s column" % core["t"])
                kv = _denote(t["key"], core["k"], "delete:key:" + col.kind)
                tg.append([t["col"], _vkey(core["k"], kv)])
                own.append((t["col"], "delete", _scalars(core["k"], kv, [])))
            else:
                tg.append([t["col"], None])
        out["targets"] = sorted(tg, key=json.dumps)
        out["where"] = rels(ast["where"], "where")
        out["if"] = rels(ast["if"], "if")
        out["if_exists"] = ast["if_exists"]
        out["ts"] = _int_of(ast["timestamp"], "TIMESTAMP")
    else:
        raise Bad(["C37.statement", "kind"], "unexpected statement kind %s" % k)
    return out, own


# ---------------------------------------------------------------------------------------------------------
# running operations
# ---------------------------------------------------------------------------------------------------------
def _ts_value(tags):
    tags.n += 1
    dt = datetime.datetime(2020, 1, 1) + datetime.timedelta(seconds=tags.n, microseconds=tags.n % 7)
    return dt, (1577836800 + tags.n) * 10 ** 6 + tags.n % 7


class World(object):
    def __init__(self, case, ctx):
        self.case, self.ctx = case, ctx
        self.tags = Tags()
        self.stored_row = None

    # the backend of the fake session: canned answers
    def backend(self, text, ex):
        up = text.lstrip().upper()
        if up.startswith("SELECT"):
            if "COUNT(" in up.split("FROM")[0]:
                return ["count"], [{"count": 0}]
            if self.stored_row is not None:
                return list(self.stored_row), [dict(self.stored_row)]
        return [], []


def _rel_expect(col, fop, tags, n_in=2):
    """-> (filter kw name, python value, expected [lhs, op, valuekey])"""
    owner = (col.db, "where")
    if fop == "IN":
        items = [tags.value(col.desc, owner) for _ in range(n_in)]
        return [p for p, _t in items], [col.db, "IN", json.dumps([_vkey(col.tree, t) for _p, t in items])]
    if fop == "CONTAINS":
        core = V.core(col.tree)
        ek = col.desc["v"] if col.kind == "Map" else col.desc["of"]
        et = core["v"] if col.kind == "Map" else core["of"]
        p, t = tags.value(ek, owner)
        return p, [col.db, "CONTAINS", _vkey(et, t)]
    if fop == "LIKE":
        p, t = tags.value(col.desc, owner)
        return p + "%", [col.db, "LIKE", _vkey(col.tree, t + "%")]
    p, t = tags.value(col.desc, owner)
    return p, [col.db, _CMP[fop], _vkey(col.tree, t)]


def _apply_options(target, opt, cols, tags, expect_if, kind, written=()):
    """target: queryset or instance; returns (target, ttl, ts_us, if_exists); fills expect_if.
    written: the scalar columns the operation assigns a value to; a condition whose iff_on flag is set is put on one of them"""
    ttl = ts = None
    lwt = bool(opt["iff"]) or opt["if_exists"]
    iff_kw = {}
    others = [c for c in cols if c.role in ("regular", "static") and not c.collection]
    if opt["iff"] and others and not opt["if_exists"]:
        on = opt.get("iff_on") or []
        written = [c for c in written if c in others]
        for n_cond, (idx, fop) in enumerate(opt["iff"]):
            col = others[idx % len(others)]
            if written and n_cond < len(on) and on[n_cond]:
                col = written[idx % len(written)]
            if fop != "EQ" and col.kind in ("Boolean", "Blob", "UUID"):
                fop = "EQ"
            name = col.attr if fop == "EQ" else "%s__%s" % (col.attr, fop.lower())
            if name in iff_kw or any(k.split("__")[0] == col.attr for k in iff_kw):
                continue
            p, t = tags.value(col.desc, (col.db, "if"))
            iff_kw[name] = p
            expect_if.append([col.db, _CMP[fop], _vkey(col.tree, t)])
    if kind == "instance":
        target = target.iff(**iff_kw)
        target = target.if_exists(bool(opt["if_exists"]))
    else:
        if iff_kw:
            target = target.iff(**iff_kw)
        if opt["if_exists"]:
            target = target.if_exists()
    if opt["ttl"] is not None and kind != "delete-only":
        ttl = opt["ttl"]
    if opt["ts"] and not lwt:
        dt, ts = _ts_value(tags)
        target = target.timestamp(dt)
    elif kind == "instance":
        target = target.timestamp(None)
    return target, ttl, ts, bool(opt["if_exists"]), bool(iff_kw)


def _pk_filter(cols, tags, n_ck=None):
    """equality filter on the whole primary key (or the first n_ck clustering columns) -> (kwargs, expected where)"""
    kw, exp = {}, []
    cks = [c for c in cols if c.role == "ck"]
    use = [c for c in cols if c.role == "pk"] + (cks if n_ck is None else cks[:n_ck])
    for col in use:
        p, t = tags.value(col.desc, (col.db, "where"))
        kw[col.attr] = p
        exp.append([col.db, "=", _vkey(col.tree, t)])
    return kw, sorted(exp)


def run_select(w, M, cols, op, tags):
    """-> (callable performing the query, expected normal form)"""
    from cassandra.cqlengine import functions, query, statements
    pks = [c for c in cols if c.role == "pk"]
    cks = [c for c in cols if c.role == "ck"]
    others = [c for c in cols if c.role in ("regular", "static")]
    kw, exprs, where = {}, [], []
    eq_filtered = set()
    allow = op["allow"]

    def add(col, fop, n_in=2):
        w.ctx.label("filter:%s:%s" % (fop, col.role))
        val, exp = _rel_expect(col, fop, tags, n_in)
        where.append(exp)
        if fop == "EQ":
            eq_filtered.add(col.db)
        if op["form"] == "expr" and fop in ("EQ", "GT", "GTE", "LT", "LTE", "IN", "CONTAINS"):
            attr = getattr(M, col.attr)
            exprs.append({"EQ": lambda: attr == val, "GT": lambda: attr > val, "GTE": lambda: attr >= val, "LT": lambda: attr < val,
                          "LTE": lambda: attr <= val, "IN": lambda: attr.in_(val), "CONTAINS": lambda: attr.contains_(val)}[fop]())
        else:
            kw[col.attr if fop == "EQ" else "%s__%s" % (col.attr, fop.lower())] = val

    if op["mode"] == "pk":
        for i, col in enumerate(pks):
            add(col, op["pk_ops"][i], max(1, op["n_in"]))
    elif op["mode"] == "token":
        vals, keys = [], []
        for col in pks:
            p, t = tags.value(col.desc, ("token:" + ",".join(c.db for c in pks), "where"))
            vals.append(p)
            keys.append(_vkey(col.tree, t))
        name = "pk__token" if op["token_op"] == "EQ" else "pk__token__%s" % op["token_op"].lower()
        w.ctx.label("filter:token:" + op["token_op"])
        kw[name] = functions.Token(*vals)
        where.append(["token:" + ",".join(c.db for c in pks), _CMP[op["token_op"]], json.dumps(keys)])
        # a token range scan: the second bound follows the first token() clause in the same WHERE
        second = {"GT": "LTE", "GTE": "LT", "LT": "GTE", "LTE": "GT"}.get(op["token_op"])
        if second and op["ck"]:
            vals2, keys2 = [], []
            for col in pks:
                p2, t2 = tags.value(col.desc, ("token:" + ",".join(c.db for c in pks), "where"))
                vals2.append(p2)
                keys2.append(_vkey(col.tree, t2))
            w.ctx.label("filter:token-range")
            kw["pk__token__%s" % second.lower()] = functions.Token(*vals2)
            where.append(["token:" + ",".join(c.db for c in pks), _CMP[second], json.dumps(keys2)])
    else:
        allow = True
    if op["mode"] != "token":
        seen_range = False
        for i, fop in enumerate(op["ck"][:len(cks)]):
            if seen_range:
                break
            if fop not in ("EQ", "IN"):
                seen_range = True
            add(cks[i], fop)
    for idx, fop in op["extra"]:
        if not others:
            break
        col = others[idx % len(others)]
        if any(col.db == wdb for wdb, _o, _v in where):
            continue
        if fop == "CONTAINS" and not col.collection:
            fop = "EQ"
        if fop == "LIKE" and not (col.kind == "Text" and col.index == 2):
            fop = "EQ"
        if col.collection and fop != "CONTAINS":
            fop = "CONTAINS"
        if fop in ("GT", "IN") and col.kind in ("Boolean",):
            fop = "EQ"
        if not (fop == "EQ" and col.index):
            allow = True
        add(col, fop)
    for idx in op["notnull"]:
        if others and op["mode"] == "scan":
            col = others[idx % len(others)]
            if not any(col.db == wdb for wdb, _o, _v in where):
                exprs.append(statements.IsNotNull(col.db))
                where.append([col.db, "IS NOT NULL", "null"])
    order = []
    if op["order"] and cks and op["mode"] == "pk" and op["terminal"] != "count" and not op["distinct"]:
        order = [[cks[0].db, "DESC" if op["order"] == 2 else "ASC"]]
    visible = None
    if op["only"] and not op["distinct"]:
        visible = sorted(set(cols[i % len(cols)].attr for i in op["only"]))
    defer = sorted(set(cols[i % len(cols)].attr for i in op["defer"])) if (op["defer"] and not op["distinct"] and not visible) else []

    def perform():
        q = M.objects
        if exprs or kw:
            q = q.filter(*exprs, **kw)
        if order:
            q = q.order_by(("-" if order[0][1] == "DESC" else "") + [c for c in cks if c.db == order[0][0]][0].attr)
        if op["limit"] != "default":
            q = q.limit(op["limit"])
        if visible:
            q = q.only(visible)
        if defer:
            q = q.defer(defer)
        if allow:
            q = q.allow_filtering()
        if op["distinct"]:
            q = q.distinct()
        if op["terminal"] == "count":
            return q.count()
        if op["terminal"] == "first":
            return q.first()
        return list(q)

    by_attr = dict((c.attr, c) for c in cols)
    all_db = [c.db for c in cols]
    if op["distinct"]:
        want_cols = ("exact", [c.db for c in pks])
    elif visible:
        want_cols = ("visible", [by_attr[a].db for a in visible])
    elif defer:
        want_cols = ("visible", [d for d in all_db if d not in set(by_attr[a].db for a in defer)])
    else:
        want_cols = ("visible", all_db)
    limit = 10000 if op["limit"] == "default" else (op["limit"] or None)
    expect = {"stmt": "select", "distinct": bool(op["distinct"]), "count": op["terminal"] == "count", "columns": want_cols,
              "eq_filtered": sorted(eq_filtered), "pk": [c.db for c in pks], "where": sorted(where), "order": order, "limit": limit,
              "allow_filtering": bool(allow)}
    return perform, [expect]


def _instance_expectations(cols, hm_old, hm_new, changed, expect_if, if_exists, ttl, ts, method):
    """lite expectations for save()/update() of a loaded instance: see ASSUMPTIONS"""
    return {"stmt": "instance", "changed": changed, "old": hm_old, "new": hm_new, "if": sorted(expect_if), "if_exists": if_exists,
            "ttl": ttl, "ts": ts}


def interpret(case, ctx):
    from cassandra.cqlengine import query
    from cassandra.cqlengine.query import BatchQuery, DoesNotExist, LWTException, QueryException
    from checks import _cqle
    w = World(case, ctx)
    tags = w.tags
    prog = case["prog"]
    with _cqle.connected(w.backend) as session:
        try:
            M, cols = build_model(case["model"])
        except Exception as e:  # noqa -- the generated model is not a valid cqlengine model
            ctx.label("model:rejected:" + type(e).__name__)
            return
        by_db = dict((c.db, c) for c in cols)
        by_attr = dict((c.attr, c) for c in cols)
        pks = [c for c in cols if c.role == "pk"]
        cks = [c for c in cols if c.role == "ck"]
        others = [c for c in cols if c.role in ("regular", "static")]
        in_batch = case["batch"] is not None
        batch = None
        batch_ts = None
        if in_batch:
            bkw = {}
            if case["batch"]["type"]:
                bkw["batch_type"] = case["batch"]["type"]
            if case["batch"]["ts"]:
                dt, batch_ts = _ts_value(tags)
                bkw["timestamp"] = dt
            batch = BatchQuery(**bkw)

        expected = []           # per statement expectations, in emission order
        empty_collection_clause = False
        for op in prog:
            kind = op["op"]
            ctx.label("op:" + kind)
            start = len(session.log)
            if kind == "select":
                perform, exp = run_select(w, M, cols, op, tags)
                with ctx.driver(["C37.select.run"], expect=(QueryException, DoesNotExist)):
                    try:
                        perform()
                    except (QueryException, DoesNotExist) as e:
                        ctx.label("select:refused:" + type(e).__name__)
                        return
                expected.extend(exp)
            elif kind == "create":
                kw, assign, nulls = {}, {}, []
                for col in pks + cks:
                    p, t = tags.value(col.desc, (col.db, "insert"))
                    kw[col.attr] = p
                    assign[col.db] = _vkey(col.tree, t)
                for idx, what, size in op["given"]:
                    if not others:
                        break
                    col = others[idx % len(others)]
                    if col.attr in kw:
                        continue
                    if what == "none" or (what == "empty" and not col.collection):
                        kw[col.attr] = None
                        nulls.append(col.db)
                    elif what == "empty" or (col.collection and size == 0):
                        kw[col.attr] = {"Set": set(), "List": [], "Map": {}}[col.kind]
                        nulls.append(col.db)
                        empty_collection_clause = True
                    else:
                        p, t = tags.value(col.desc, (col.db, "insert"), max(1, size))
                        kw[col.attr] = p
                        assign[col.db] = _vkey(col.tree, t)
                ts = None
                q = M.objects
                if in_batch:
                    q = q.batch(batch)
                if op["ttl"]:
                    q = q.ttl(op["ttl"])
                ine = op["ine"]
                if op["ts"] and not ine:
                    dt, ts = _ts_value(tags)
                    q = q.timestamp(dt)
                if ine:
                    q = q.if_not_exists()
                with ctx.driver(["C37.create.run"]):
                    q.create(**kw)
                where = sorted([c.db, "=", assign[c.db]] for c in pks + cks)
                expected.append({"stmt": "insert", "assign": assign, "ine": bool(ine), "ttl": op["ttl"], "ts": ts})
                if nulls:
                    static_only = bool(cks) and all(by_db[n].role == "static" for n in nulls)
                    expected.append({"stmt": "delete", "targets": sorted([[n, None] for n in nulls], key=json.dumps),
                                     "where": sorted([c.db, "=", assign[c.db]] for c in (pks if static_only else pks + cks)),
                                     "where_alt": where, "if": [], "if_exists": False, "ts": None})
            elif kind == "qupdate":
                fkw, where = _pk_filter(cols, tags)
                q = M.objects.filter(**fkw)
                if in_batch:
                    q = q.batch(batch)
                exp_if = []
                plan, updated = [], set()
                for idx, what, size in op["sets"]:
                    if not others:
                        break
                    col = others[idx % len(others)]
                    col = _cond_target(op, others, idx, what, col, lambda c: c.attr in updated)
                    if col.attr in updated:
                        continue
                    legal = {"Set": ("set", "none", "add", "remove"), "List": ("set", "none", "append", "prepend"),
                             "Map": ("set", "none", "update", "mremove")}.get(col.kind, ("set", "none"))
                    if what not in legal:
                        what = legal[(idx + size) % len(legal)]
                    updated.add(col.attr)
                    plan.append((col, what, size))
                written = [c for c, what, _s in plan if what == "set" and not c.collection]
                q, ttl, ts, if_exists, _has_iff = _apply_options(q, op["opt"], cols, tags, exp_if, "queryset", written)
                if ttl is not None:
                    q = q.ttl(ttl)
                ukw, sets, nulls = {}, [], []
                for col, what, size in plan:
                    owner = (col.db, "set")
                    ctx.label("qupdate:%s:%s" % (what, col.kind if col.collection else "scalar"))
                    if what == "none":
                        ukw[col.attr] = None
                        nulls.append(col.db)
                        continue
                    if col.collection and size == 0:
                        empty_collection_clause = True
                    core = V.core(col.tree)
                    if what == "set":
                        p, t = tags.value(col.desc, owner, size) if col.collection else tags.value(col.desc, owner)
                        ukw[col.attr] = p
                        if col.kind == "Map" and t:
                            sets.append(("map-assign", col.db, [[_vkey(core["k"], a), _vkey(core["v"], b)] for a, b in t], _vkey(col.tree, t)))
                        else:
                            sets.append(("one", [col.db, "set", None, _vkey(col.tree, t)]))
                    elif what in ("add", "append", "prepend", "remove"):
                        p, t = tags.value(col.desc, owner, size)
                        ukw["%s__%s" % (col.attr, what)] = p
                        if size:
                            sets.append(("one", [col.db, {"add": "add", "append": "add", "prepend": "prepend", "remove": "sub"}[what], None, _vkey(col.tree, t)]))
                    elif what == "update":
                        p, t = tags.value(col.desc, owner, size)
                        ukw["%s__update" % col.attr] = p
                        for a, b in t:
                            sets.append(("one", [col.db, "setelem", _vkey(core["k"], a), _vkey(core["v"], b)]))
                    elif what == "mremove":
                        items = [tags.scalar(col.desc["k"]["c"], owner) for _ in range(size)]
                        ukw["%s__remove" % col.attr] = set(p for p, _t in items)
                        if size:
                            kt = {"t": "set", "of": core["k"]}
                            sets.append(("one", [col.db, "sub", None, _vkey(kt, [t for _p, t in items])]))
                with ctx.driver(["C37.qupdate.run"]):
                    q.update(**ukw)
                if sets:
                    expected.append({"stmt": "update", "set": sets, "where": where, "if": sorted(exp_if), "if_exists": if_exists, "ttl": ttl, "ts": ts})
                if nulls:
                    expected.append({"stmt": "delete", "targets": sorted([[n, None] for n in nulls], key=json.dumps), "where": where,
                                     "if_subset_of": sorted(exp_if), "if_keep": _conds_kept(exp_if, written), "if_exists": if_exists, "ts": "any"})
                _label_cond_write(ctx, "qupdate", bool(sets), bool(nulls), exp_if, written, in_batch, op is prog[0])
            elif kind == "qdelete":
                fkw, where = _pk_filter(cols, tags, min(op["n_ck"], len(cks)))
                q = M.objects.filter(**fkw)
                if in_batch:
                    q = q.batch(batch)
                exp_if = []
                q, _ttl, ts, if_exists, _h = _apply_options(q, op["opt"], cols, tags, exp_if, "queryset")
                with ctx.driver(["C37.qdelete.run"]):
                    q.delete()
                expected.append({"stmt": "delete", "targets": [], "where": where, "if": sorted(exp_if), "if_exists": if_exists, "ts": ts})
            elif kind in ("iupdate", "idelete"):
                # a stored row, loaded through the mapper's own SELECT path
                row, hm, where = {}, {}, []
                for col in pks + cks:
                    p, t = tags.value(col.desc, (col.db, "where"))
                    row[col.db] = p
                    hm[col.db] = t
                    where.append([col.db, "=", _vkey(col.tree, t)])
                for i, col in enumerate(others):
                    present, size = op["stored"][i % len(op["stored"])]
                    if present:
                        p, t = tags.value(col.desc, (col.db, "stored"), size)
                        row[col.db], hm[col.db] = p, t
                    else:
                        row[col.db], hm[col.db] = None, None
                w.stored_row = row
                inst = None
                with ctx.driver(["C37.load.run"]):
                    inst = M.get(**dict((c.attr, row[c.db]) for c in pks + cks))
                w.stored_row = None
                if inst is None:
                    return
                del session.log[start:]
                if in_batch:
                    inst = inst.batch(batch)
                exp_if = []
                written, seen = [], set()
                if kind == "iupdate":
                    # the scalar columns this save/update gives a new value (first change of a column wins, as below)
                    for idx, what, _size in op["changes"]:
                        if not others:
                            break
                        col = _cond_target(op, others, idx, what, others[idx % len(others)], lambda c: c.db in seen)
                        if col.db in seen or col.collection:
                            continue
                        seen.add(col.db)
                        if not (what in ("none", "clear", "shrink") and hm[col.db] is not None):
                            written.append(col)
                inst, ttl, ts, if_exists, _h = _apply_options(inst, op["opt"], cols, tags, exp_if, "instance", written)
                inst.ttl(ttl if kind == "iupdate" else None)
                if kind == "idelete":
                    with ctx.driver(["C37.idelete.run"]):
                        inst.delete()
                    expected.append({"stmt": "delete", "targets": [], "where": sorted(where), "if": sorted(exp_if), "if_exists": if_exists, "ts": ts})
                else:
                    new, changed, ukw = dict(hm), [], {}
                    for idx, what, size in op["changes"]:
                        if not others:
                            break
                        col = _cond_target(op, others, idx, what, others[idx % len(others)], lambda c: c.db in changed)
                        if col.db in changed:
                            continue
                        owner = (col.db, "set")
                        old = hm[col.db]
                        if not col.collection:
                            if what in ("none", "clear", "shrink") and old is not None:
                                val, new[col.db] = None, None
                            else:
                                val, new[col.db] = tags.value(col.desc, owner)
                        else:
                            oldpy = _cqle.driver_value(col.tree, old) if old else None
                            cur = list(old or [])
                            if what in ("none", "clear"):
                                if not cur:
                                    continue
                                val, tg = (None if what == "none" else {"Set": set(), "List": [], "Map": {}}[col.kind]), None
                                empty_collection_clause = empty_collection_clause or what == "clear"
                            else:
                                extra_py, extra_t = tags.value(col.desc, owner, max(1, size))
                                if what == "grow" or (what == "set" and cur):
                                    tg = cur + extra_t
                                elif what == "grow_front":
                                    tg = extra_t + cur
                                elif what == "grow_both" and cur:
                                    # new elements at both ends in one save (a list is then updated with a prepend AND an append)
                                    front_py, front_t = tags.value(col.desc, owner, 1 + size % 2)
                                    tg = front_t + cur + extra_t
                                    ctx.label("iupdate:grow-both-ends:" + col.kind + (":batched" if in_batch else ""))
                                elif what == "shrink" and len(cur) > 1:
                                    tg = cur[:-1]
                                elif what == "mix" and cur:
                                    tg = cur[1:] + extra_t
                                else:
                                    tg = extra_t
                                val = _py_collection(col, tg, tags)
                            new[col.db] = tg or None
                        changed.append(col.db)
                        ukw[col.attr] = val
                    if not changed:
                        ctx.label("iupdate:no-change")
                    with ctx.driver(["C37.iupdate.run"]):
                        if op["method"] == "update_kw":
                            inst.update(**ukw)
                        else:
                            for a, v in ukw.items():
                                setattr(inst, a, v)
                            if op["method"] == "save":
                                inst.save()
                            else:
                                inst.update()
                    expected.append({"stmt": "instance", "changed": changed, "old": hm, "new": new, "where": sorted(where),
                                     "if": sorted(exp_if), "if_keep": _conds_kept(exp_if, written), "if_exists": if_exists, "ttl": ttl, "ts": ts,
                                     "has_ck": bool(cks)})
                    _label_cond_write(ctx, "iupdate", any(new[c] is not None for c in changed), any(new[c] is None for c in changed),
                                      exp_if, written, in_batch, op is prog[0])
            if ctx._failures:
                return

        if in_batch:
            with ctx.driver(["C37.batch.run"]):
                batch.execute()
            if ctx._failures:
                return

        check(ctx, case, session.log, expected, by_db, pks, tags, batch_ts, empty_collection_clause)


def _cond_target(op, others, idx, what, col, taken):
    """in the conditional set+null shapes a plain assignment that fell on a collection column goes to a scalar column still free, so
    that the operation writes a column a condition can be put on"""
    if op.get("cond") and what == "set" and col.collection:
        free = [c for c in others if not c.collection and not taken(c)]
        if free:
            return free[idx % len(free)]
    return col


def _conds_kept(exp_if, written):
    """the requested conditions the null-column DELETE of a conditional write has to repeat: all but those on columns the UPDATE in
    front of it has just given a new value"""
    names = set(c.db for c in written)
    return sorted(r for r in exp_if if r[0] not in names)


def _label_cond_write(ctx, opname, assigns, nulls, exp_if, written, in_batch, first):
    names = set(c.db for c in written)
    if not exp_if:
        return
    on_written = [r[0] in names for r in exp_if]
    if any(on_written):
        ctx.label("cond-write:condition-on-written-column")
    if assigns and nulls:
        where = ("batch-first" if first else "batch-later") if in_batch else "alone"
        ctx.label("cond-write:set+null:%s" % where)
        if len(exp_if) >= 2 and any(on_written) and not all(on_written):
            # exp_if is in request order here: does a condition the DELETE drops precede one it keeps?
            order = "dropped-before-kept" if on_written.index(True) < len(on_written) - 1 - on_written[::-1].index(False) else "kept-first"
            ctx.label("cond-write:set+null:conds>=2,mixed:%s:%s" % (opname, where), "cond-write:set+null:conds>=2,mixed:%s:%s" % (order, where))


def _py_collection(col, tagged, tags):
    """python collection for a tagged collection value made of scalars this case already created"""
    from checks import _cqle
    v = _cqle.driver_value(col.tree, tagged)
    if v is None:
        return {"Set": set(), "List": [], "Map": {}}[col.kind]
    if col.kind == "Set":
        return set(v)
    if col.kind == "List":
        return list(v)
    return dict(v)


# ---------------------------------------------------------------------------------------------------------
# the oracle
# ---------------------------------------------------------------------------------------------------------
def check(ctx, case, log, expected, by_db, pks, tags, batch_ts, empty_clause):
    in_batch = case["batch"] is not None
    observed = []       # (raw ast, substituted ast)
    n_clauses = 0
    for ex in log:
        try:
            raw = cqlparse.parse_statement(ex.raw, placeholders=True)
        except cqlterm.Unsupported as e:
            raise AssertionError("parser gap on %r: %s" % (ex.raw, e))
        except ValueError as e:
            ctx.fail(["C37.wellformed", "template", _stmt_kind(ex.raw)], "statement %r does not parse: %s" % (ex.raw[:300], e))
            return
        # ---- one bound value per placeholder
        names = cqlparse.placeholders(raw)
        params = ex.params or {}
        kindname = raw["stmt"] if raw["stmt"] != "batch" else "batch"
        dup = sorted(set(n for n in names if names.count(n) > 1))
        if dup:
            ctx.fail(["C37.context", "placeholder-used-twice", kindname], "placeholder(s) %s occur more than once in %r (context %r)" % (
                dup, ex.raw[:300], _short(params)))
        missing = sorted(set(names) - set(map(str, params)))
        extra = sorted(set(map(str, params)) - set(names))
        if missing:
            ctx.fail(["C37.context", "placeholder-without-value", kindname], "no value for placeholder(s) %s of %r (context %r)" % (
                missing, ex.raw[:300], _short(params)))
        if extra:
            ctx.fail(["C37.context", "value-without-placeholder", kindname], "context value(s) %s have no placeholder in %r" % (extra, ex.raw[:300]))
        if missing:
            return
        try:
            sub = cqlparse.parse_statement(ex.text)
        except cqlterm.Unsupported as e:
            raise AssertionError("parser gap on %r: %s" % (ex.text, e))
        except ValueError as e:
            ctx.fail(["C37.wellformed", "substituted", _blame_literal(ex)], "after parameter substitution %r does not parse: %s" % (ex.text[:300], e))
            return
        if raw["stmt"] == "batch":
            if not in_batch:
                ctx.fail(["C37.batch", "unexpected"], "a BATCH was sent for a single operation")
                return
            if sub["type"] != (case["batch"]["type"] or "LOGGED"):
                ctx.fail(["C37.batch", "type"], "batch type %s, requested %s" % (sub["type"], case["batch"]["type"]))
            got_ts = int(sub["timestamp"]["text"]) if sub["timestamp"] is not None and sub["timestamp"]["k"] == "integer" else None
            if got_ts != batch_ts:
                ctx.fail(["C37.batch", "timestamp"], "batch USING TIMESTAMP %r, requested %r" % (got_ts, batch_ts))
            for a in sub["statements"]:
                observed.append(a)
        else:
            if in_batch:
                ctx.fail(["C37.batch", "statement-outside-batch"], "%r was executed outside the batch" % ex.raw[:200])
                return
            observed.append(sub)

    if in_batch and not expected and not log:
        ctx.label("batch:empty")
        return
    if len(observed) != len(_flatten_expected(expected, observed)):
        pass
    # normal forms of everything that was sent
    normed = []
    for a in observed:
        try:
            normed.append(norm_statement(a, by_db, pks))
        except Bad as b:
            ctx.fail(b.key, b.msg + "   [statement: %s]" % _short(a))
            return

    def row_key(n):
        """the row a statement addresses: its WHERE, or the key columns of an INSERT"""
        if n["stmt"] == "insert":
            return sorted([c, "=", v] for c, v in n["assign"].items() if c in key_names)
        return [r for r in n.get("where", []) if r[0] in key_names or r[0].startswith("token:")]

    key_names = set(c.db for c in by_db.values() if c.role in ("pk", "ck"))

    def unrequested(j):
        ctx.fail(["C37.statements", "unrequested", observed[j]["stmt"]] + _set_features(observed[j], by_db),
                 "statement %s was sent but nothing requested it" % _short(observed[j]))

    i = 0
    kinds = set()
    for exp in expected:
        if exp["stmt"] == "instance":
            # statements of other rows in front of the instance's own are somebody's leftovers
            while i < len(observed) and normed[i][0]["stmt"] in ("update", "delete") and not _same_row(normed[i][0], exp, pks) and \
                    any(_same_row(normed[j][0], exp, pks) for j in range(i + 1, len(observed))):
                unrequested(i)
                i += 1
            used = check_instance(ctx, exp, observed[i:], by_db, pks, tags)
            if used is None:
                return
            i += used
            n_clauses += 3
            kinds.update(["set", "where"])
            continue
        want_row = row_key(exp)
        j = None
        for cand in range(i, len(observed)):
            if normed[cand][0]["stmt"] == exp["stmt"] and row_key(normed[cand][0]) == want_row:
                j = cand
                break
        if j is None and i < len(observed) and normed[i][0]["stmt"] == exp["stmt"]:
            j = i           # same kind, another row: the WHERE comparison below names the difference
        if j is None:
            ctx.fail(["C37.statements", "missing", exp["stmt"]], "no %s statement was sent for the request %s" % (exp["stmt"].upper(), _short(exp)))
            continue
        for skipped in range(i, j):
            unrequested(skipped)
        got, own = normed[j]
        i = j + 1
        compare(ctx, exp, got, by_db)
        check_owners(ctx, own, tags)
        n_clauses += len(got.get("where", [])) + len(got.get("set", [])) + len(got.get("if", [])) + len(got.get("assign", {})) + len(got.get("targets", []))
        for part in ("where", "set", "if", "assign", "targets"):
            if got.get(part):
                kinds.add(part)
    for j in range(i, len(observed)):
        unrequested(j)
    ctx.label("statements:%d" % min(len(observed), 6))
    if empty_clause:
        ctx.label("empty-collection-clause")
    ctx.nontrivial((n_clauses >= 3 and len(kinds) >= 2) or (in_batch and len(observed) >= 2) or empty_clause)


def _flatten_expected(expected, observed):
    return expected


def _same_row(n, exp, pks):
    pk_names = [c.db for c in pks]
    return n.get("where") == exp["where"] or n.get("where") == [r for r in exp["where"] if r[0] in pk_names]


def _set_features(ast, by_db):
    """what an unrequested UPDATE assigns: [op, column shape, 'empty' when the value is an empty collection]"""
    if ast["stmt"] != "update" or not ast["set"]:
        return []
    a = ast["set"][0]
    col = by_db.get(a["col"])
    v = a["value"]
    empty = v["k"] in ("set", "list", "map") and not v["items"]
    return [a["op"], col.kind if col is not None else "?"] + (["empty"] if empty else [])


def _stmt_kind(text):
    return (text.split() or ["?"])[0].upper()


def _blame_literal(ex):
    """which context value broke the statement: the python type whose literal does not parse as one term"""
    from cassandra.encoder import Encoder
    for k in sorted((ex.params or {}), key=str):
        v = ex.params[k]
        try:
            lit = Encoder().cql_encode_all_types(v)
            if type(v).__name__ == "InQuoter":
                cqlparse.parse_statement("SELECT * FROM t WHERE k IN %s" % lit)
            else:
                cqlterm.parse_term(lit)
        except ValueError:
            return type(v).__name__
    return "?"


def _short(v):
    s = v if isinstance(v, str) else repr(v)
    return s if len(s) < 300 else s[:300] + "..."


def compare(ctx, exp, got, by_db):
    k = exp["stmt"]
    if got["stmt"] != k:
        ctx.fail(["C37.statements", "kind", k], "expected %s, the statement sent is %s" % (k.upper(), _short(got)))
        return
    if got["table"] != ["ks", "t"]:
        ctx.fail(["C37.table"], "statement addresses %r" % (got["table"],))

    def same(part, key=None):
        if exp[part] != got[part]:
            ctx.fail(["C37.%s.%s" % (k, part)] + (key or []), "%s of the %s statement is %s, requested %s" % (part, k.upper(), _short(got[part]), _short(exp[part])))

    def same_where(part="where"):
        if exp[part] == got[part]:
            return
        if "where_alt" in exp and exp["where_alt"] == got[part]:
            return
        lost = [r for r in exp[part] if r not in got[part]]
        invented = [r for r in got[part] if r not in exp[part]]
        cause = "value" if (lost and invented and len(lost) == len(invented) and sorted(r[:2] for r in lost) == sorted(r[:2] for r in invented)) else "structure"
        ctx.fail(["C37.%s.%s" % (k, part), cause], "%s of the %s statement: requested but not rendered %s; rendered but not requested %s" % (
            part.upper(), k.upper(), _short(lost), _short(invented)))

    if k == "select":
        same("distinct")
        same("count")
        same_where()
        same("order")
        same("limit")
        same("allow_filtering")
        mode, want = exp["columns"]
        cols = got["columns"]
        if not exp["count"] or exp["distinct"]:
            if mode == "exact":
                if cols == "*" or sorted(cols) != sorted(want):
                    ctx.fail(["C37.select.columns", "distinct"], "SELECT DISTINCT lists %s, the partition key columns are %s" % (cols, want))
            elif cols != "*":
                unknown = [c for c in cols if c not in want and c not in exp["pk"]]
                lost = [c for c in want if c not in cols and c not in exp["eq_filtered"]]
                if unknown:
                    ctx.fail(["C37.select.columns", "not-requested"], "SELECT lists %s; requested columns %s" % (unknown, want))
                if lost and sorted(cols) != sorted(exp["pk"]):
                    ctx.fail(["C37.select.columns", "missing"], "SELECT does not list %s (lists %s)" % (lost, cols))
            elif sorted(want) != sorted(set(want) | set(exp["eq_filtered"])) and False:
                pass
    elif k == "insert":
        if exp["assign"] != got["assign"]:
            lost = sorted(set(exp["assign"]) - set(got["assign"]))
            invented = sorted(set(got["assign"]) - set(exp["assign"]))
            wrong = sorted(c for c in exp["assign"] if c in got["assign"] and exp["assign"][c] != got["assign"][c])
            ctx.fail(["C37.insert.values", "structure" if (lost or invented) else "value"],
                     "INSERT: columns not written %s, columns not requested %s, columns with another value %s" % (lost, invented, wrong))
        same("ine")
        same("ttl")
        same("ts")
    elif k == "update":
        want = []
        for s in exp["set"]:
            if s[0] == "one":
                want.append(s[1])
            else:
                _tag, db, pairs, whole = s
                if [db, "set", None, whole] in got["set"]:
                    want.append([db, "set", None, whole])
                else:
                    want.extend([db, "setelem", a, b] for a, b in pairs)
        want = sorted(want, key=json.dumps)
        if want != got["set"]:
            lost = [r for r in want if r not in got["set"]]
            invented = [r for r in got["set"] if r not in want]
            cause = "value" if (lost and invented and sorted(r[:2] for r in lost) == sorted(r[:2] for r in invented)) else "structure"
            feature = []
            if invented and not lost:
                feature = ["unrequested", invented[0][1], by_db[invented[0][0]].kind] + (["empty"] if invented[0][3] in ("[]", "null") else [])
            ctx.fail(["C37.update.set", cause] + feature, "SET of the UPDATE: requested but not rendered %s; rendered but not requested %s" % (
                _short(lost), _short(invented)))
        same_where()
        same_where("if")
        same("if_exists")
        same("ttl")
        same("ts")
    elif k == "delete":
        same("targets")
        same_where()
        if "if_subset_of" in exp:
            if any(r not in exp["if_subset_of"] for r in got["if"]):
                ctx.fail(["C37.delete.if", "structure"], "IF of the DELETE %s is not among the requested conditions %s" % (got["if"], exp["if_subset_of"]))
            elif any(r not in got["if"] for r in exp.get("if_keep", [])):
                ctx.fail(["C37.delete.if", "condition-dropped"], "IF of the DELETE %s lacks requested condition(s) on columns the UPDATE does not write: %s" % (
                    got["if"], [r for r in exp["if_keep"] if r not in got["if"]]))
        else:
            same_where("if")
        same("if_exists")
        if exp["ts"] != "any":
            same("ts")


def check_owners(ctx, own, tags):
    """every scalar literal of a clause was created for that very column (no value leaked in from another clause)"""
    for lhs, where, scal in own:
        for tname, s in scal:
            if tname == "boolean":
                continue
            o = tags.owner.get("%s:%s" % (tname, json.dumps(s, sort_keys=True)))
            if o is None:
                continue        # value mismatch is reported by compare()
            if o[0] != lhs:
                ctx.fail(["C37.ownership", where], "the %s clause on %r carries the value %r that was requested for %r (%s)" % (where, lhs, s, o[0], o[1]))
                return


def _canon_of(col, tagged):
    """comparable python form of a tagged collection value: list -> list, set -> list of json strings, map -> {json key: json value}"""
    if tagged is None:
        return None
    c = json.loads(_vkey(col.tree, tagged))
    return c


def _fold(col, cur, op, keykey, valkey):
    """value of a collection after one SET / DELETE clause (null == empty)"""
    v = json.loads(valkey) if valkey is not None else None
    k = json.loads(keykey) if keykey is not None else None
    cur = list(cur or [])
    kind = col.kind
    if op == "delete":
        return None
    if op == "set":
        return v or None
    if kind == "List":
        if op == "add":
            return (cur + (v or [])) or None
        if op == "prepend":
            return ((v or []) + cur) or None
        if op == "sub":
            return [x for x in cur if x not in (v or [])] or None
    elif kind == "Set":
        if op == "add":
            return (cur + [x for x in (v or []) if x not in cur]) or None
        if op in ("sub",):
            return [x for x in cur if x not in (v or [])] or None
        if op == "delelem":
            return [x for x in cur if x != k] or None
    elif kind == "Map":
        if op == "setelem":
            return ([p for p in cur if p[0] != k] + [[k, v]]) or None
        if op == "sub":
            return [p for p in cur if p[0] not in (v or [])] or None
        if op == "delelem":
            return [p for p in cur if p[0] != k] or None
    return cur or None


def _same_collection(col, a, b):
    a, b = a or [], b or []
    if col.kind == "List":
        return a == b
    key = lambda x: json.dumps(x, sort_keys=True)  # noqa: E731
    return sorted(map(key, a)) == sorted(map(key, b))


def check_instance(ctx, exp, observed, by_db, pks, tags):
    """save()/update() of a loaded instance: an optional UPDATE followed by an optional DELETE -> number of statements consumed"""
    used = 0
    touched = {}
    effect = {}
    changed = exp["changed"]
    pk_names = [c.db for c in pks]
    for want_kind in ("update", "delete"):
        if used >= len(observed) or observed[used]["stmt"] != want_kind:
            continue
        st_ast = observed[used]
        # a DELETE without targets belongs to somebody else
        if want_kind == "delete" and not st_ast["targets"]:
            continue
        try:
            got, own = norm_statement(st_ast, by_db, pks)
        except Bad as b:
            ctx.fail(b.key, b.msg + "   [statement: %s]" % _short(st_ast))
            return None
        # a statement about another row (other key values) was produced by the next operation of the batch
        if got["where"] != exp["where"] and got["where"] != [r for r in exp["where"] if r[0] in pk_names]:
            continue
        used += 1
        # WHERE: the whole primary key (or just the partition key when only static columns are written)
        cols_here = [s[0] for s in got.get("set", [])] + [t[0] for t in got.get("targets", [])]
        static_only = exp["has_ck"] and cols_here and all(by_db[c].role == "static" for c in cols_here)
        want_where = [r for r in exp["where"] if r[0] in pk_names] if static_only else exp["where"]
        if got["where"] != want_where and got["where"] != exp["where"]:
            ctx.fail(["C37.instance.where", want_kind], "WHERE of the %s is %s, the instance's key is %s" % (want_kind.upper(), got["where"], want_where))
        conds = got["if"]
        if want_kind == "update":
            if conds != exp["if"]:
                ctx.fail(["C37.instance.if", "update"], "IF of the UPDATE is %s, requested %s" % (conds, exp["if"]))
            if got["ttl"] != exp["ttl"] or got["ts"] != exp["ts"]:
                ctx.fail(["C37.instance.using", "update"], "USING TTL %r TIMESTAMP %r, requested %r / %r" % (got["ttl"], got["ts"], exp["ttl"], exp["ts"]))
        elif any(r not in exp["if"] for r in conds):
            ctx.fail(["C37.instance.if", "delete"], "IF of the DELETE %s is not among the requested conditions %s" % (conds, exp["if"]))
        elif any(r not in conds for r in exp.get("if_keep", [])):
            ctx.fail(["C37.instance.if", "delete-condition-dropped"], "IF of the DELETE %s lacks requested condition(s) on columns the UPDATE does not write: %s" % (
                conds, [r for r in exp["if_keep"] if r not in conds]))
        if got["if_exists"] != exp["if_exists"]:
            ctx.fail(["C37.instance.if_exists", want_kind], "IF EXISTS %r, requested %r" % (got["if_exists"], exp["if_exists"]))
        for c in cols_here:
            touched[c] = touched.get(c, 0) + 1
        # effect of the collection clauses: what they make of the loaded value (each clause must carry its own operand)
        for colname, opname, keykey, valkey in got.get("set", []):
            col = by_db[colname]
            if col.collection:
                effect[colname] = _fold(col, effect.get(colname, _canon_of(col, exp["old"].get(colname))), opname, keykey, valkey)
        for colname, keykey in got.get("targets", []):
            col = by_db[colname]
            if col.collection:
                effect[colname] = _fold(col, effect.get(colname, _canon_of(col, exp["old"].get(colname))), "delete" if keykey is None else "delelem", keykey, None)
        # values: only scalars of the column's own old/new value
        for lhs, where, scal in own:
            if where in ("set", "delete"):
                col = by_db[lhs]
                legal = set()
                for side in ("old", "new"):
                    for tname, s in _scalars(col.tree, exp[side].get(lhs), []):
                        legal.add("%s:%s" % (tname, json.dumps(s, sort_keys=True)))
                for tname, s in scal:
                    if tname != "boolean" and "%s:%s" % (tname, json.dumps(s, sort_keys=True)) not in legal:
                        ctx.fail(["C37.instance.value", where], "the %s clause on %r carries %r which is neither in the old nor in the new value of that column" % (where, lhs, s))
                        return None
        check_owners(ctx, [o for o in own if o[1] in ("where", "if")], tags)
    for colname, result in sorted(effect.items()):
        col = by_db[colname]
        want = _canon_of(col, exp["new"].get(colname))
        if _same_collection(col, result, want):
            continue
        ctx.fail(["C37.instance.effect", col.kind], "the clauses sent for %r turn the loaded value %s into %s, the instance holds %s" % (
            colname, _short(exp["old"].get(colname)), _short(result), _short(exp["new"].get(colname))))
    really_changed = [c for c in changed if json.dumps(exp["old"].get(c), sort_keys=True) != json.dumps(exp["new"].get(c), sort_keys=True)]
    lost = [c for c in really_changed if c not in touched]
    invented = [c for c in touched if c not in changed]
    if lost:
        ctx.fail(["C37.instance.set", "changed-column-not-written", by_db[lost[0]].kind], "changed column(s) %s appear in no statement (old %s, new %s)" % (
            lost, _short([exp["old"].get(c) for c in lost]), _short([exp["new"].get(c) for c in lost])))
    if invented:
        ctx.fail(["C37.instance.set", "unchanged-column-written"], "column(s) %s were not changed but are written" % (invented,))
    return used


def parts(tier):
    cqlterm.self_test()
    cqlparse.self_test()
    return [hyp_part("programs", s_case, interpret, tier, quick=1200, thorough=8000)]
