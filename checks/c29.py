"""C29 -- simple-statement parameters are injection-safe and value-preserving."""
import datetime
import decimal
import enum
import ipaddress
import uuid
from collections import OrderedDict, namedtuple

from hypothesis import strategies as st

from spec import cqlterm
from spec import values as V
from spec.cqllex import LexError, lex
from vlib.harness import EnumPart, hyp_part

THOROUGH_SCALE = 2.0
PID = "C29"
TITLE = "Simple-statement parameters are injection-safe and value-preserving"
LEVEL = "exploration"
ENGINE = "cql"
TECHNIQUE = ("property-based testing (Hypothesis): the statement text produced by cassandra.query.bind_params is parsed by an "
             "independent CQL lexer/term parser; the literal's denotation for the targeted CQL type is compared with the "
             "prepared-statement encoding of the same Python value decoded by the independent codec spec.values")
RULE = ("Parameter values are built by construction for every type in Encoder.mapping and for subclasses of each (str/bytes/"
        "int/float/Decimal/datetime/date/time/UUID/list/tuple(namedtuple)/set/dict subclasses at inheritance depth 1-3 and as "
        "mixin (multiple-inheritance) classes with the supported type second in the bases, IntEnum, bool), plus util.Date/"
        "Time/Duration, OrderedMap, SortedSet, frozenset, generators, bytearray/memoryview, ipaddress objects, None and "
        "ValueSequence; collections are homogeneous and nested to depth <= 3.  Strings are assembled from quote characters, "
        "$$, ;, --, /* */, backslash, %, NUL, non-BMP text; numbers are boundary weighted (2^k +- 1, 17-digit floats, "
        "sub-normals, NaN, +-inf, -0.0, decimals with up to 40 digits and exponents to +-400).  1-3 parameters are bound "
        "positionally (%s) or by name (%(p0)s) into INSERT / UPDATE / SELECT / SELECT..IN templates.  The substituted "
        "statement must lex and parse to the template's skeleton with exactly one literal term per marker, and each term's "
        "denotation for the CQL type the encoder targets (str->text, bytes->blob, bool->boolean, int->varint, float->double, "
        "Decimal->decimal, datetime->timestamp, date/Date->date, time/Time->time, Duration->duration, UUID->uuid, "
        "ipaddress->inet, list/tuple/generator->list, set->set, dict->map, ValueSequence->tuple) must equal what "
        "cqltypes.<Type>.to_binary(value, 4) sends.  Non-trivial: a string containing ' $ ; -- /* or non-ASCII text, a subclass "
        "instance, a non-finite / >15-significant-digit / |exponent| > 20 number, a datetime with a non-zero sub-second part, "
        "a nested collection, or a value whose magnitude exceeds 2^63.  The enumerated part datetime-ms-grid binds, for the "
        "whole-second bases 0, 1e9, 1091837578, -1e9, 2.2e9, 0001-01-01T00:00:00 and 9999-12-31T23:59:59 (naive and with "
        "UTC offsets +01:00 / -05:30 where the UTC instant stays in range), every one of the 1000 millisecond offsets and 429 "
        "offsets with a non-zero sub-millisecond part, and applies the same oracle (expected value = DateType.to_binary).")
ASSUMPTIONS = [
    "spec/cqllex.py + spec/cqlterm.py stand for Cassandra's lexer, term grammar and literal conversion (Constants.Literal / AbstractType.fromString); server time zone UTC",
    "the prepared path is cqltypes.<Type>.to_binary(value, protocol 4) of the type the encoder targets, decoded by spec.values.decode; cases it refuses (raises) are skipped and counted under 'prepared:refused'",
    "collections are homogeneous (one element kind), as a CQL collection column requires; None is bound only at top level (Cassandra rejects null inside collection literals)",
    "geometry types (Point/LineString/Polygon, DSE only) are not exercised",
]


# ---------------------------------------------------------------------------------------------
# subclasses of the supported types
# ---------------------------------------------------------------------------------------------
class StrSub(str):
    pass


class BytesSub(bytes):
    pass


class IntSub(int):
    pass


class Color(enum.IntEnum):
    RED = 1
    GREEN = 2
    BIG = 2 ** 40
    NEG = -7


class FloatSub(float):
    pass


class DecimalSub(decimal.Decimal):
    pass


class DateTimeSub(datetime.datetime):
    pass


class DateSub(datetime.date):
    pass


class TimeSub(datetime.time):
    pass


class UUIDSub(uuid.UUID):
    pass


class ListSub(list):
    pass


class SetSub(set):
    pass


class DictSub(dict):
    pass


Pair = namedtuple("Pair", "x y")
Triple = namedtuple("Triple", "a b c")


class Mixin(object):
    """a behaviour-free mixin, for the multiple-inheritance variants"""

    def describe(self):
        return "mixin"


def _family(direct, base):
    """[direct subclass, grand-child, great-grand-child, mixin over the direct subclass, mixin directly over the supported type]"""
    n = direct.__name__
    c2 = type(n + "2", (direct,), {})
    c3 = type(n + "3", (c2,), {})
    mx = type(n + "Mixed", (Mixin, direct), {})
    mb = type(n + "MixedBase", (Mixin, base), {}) if base is not None else mx
    return [direct, c2, c3, mx, mb]


_DEEP = {"strsub": _family(StrSub, str), "bytessub": _family(BytesSub, bytes), "intsub": _family(IntSub, int),
         "floatsub": _family(FloatSub, float), "decimalsub": _family(DecimalSub, decimal.Decimal),
         "datetimesub": _family(DateTimeSub, datetime.datetime), "datesub": _family(DateSub, datetime.date),
         "timesub": _family(TimeSub, datetime.time), "uuidsub": _family(UUIDSub, uuid.UUID),
         "listsub": _family(ListSub, list), "setsub": _family(SetSub, set), "dictsub": _family(DictSub, dict),
         "pair": _family(Pair, None), "triple": _family(Triple, None)}


def _cls(kind, d):
    """the class for a subclass kind at inheritance depth d.get('deep', 0)  (0 direct .. 4, see _family)"""
    return _DEEP[kind][d.get("deep", 0) % 5]

_EPOCH_ORD = datetime.date(1970, 1, 1).toordinal()

# ---------------------------------------------------------------------------------------------
# case descriptions -> python objects, target type trees
# ---------------------------------------------------------------------------------------------
_SUBCLASS_KINDS = frozenset(["strsub", "bytessub", "intsub", "intenum", "floatsub", "decimalsub", "datetimesub", "datesub",
                             "timesub", "uuidsub", "listsub", "namedtuple", "setsub", "dictsub"])


def _float(v):
    return {"nan": float("nan"), "inf": float("inf"), "-inf": float("-inf")}[v] if isinstance(v, str) else float(v)


def build(d):
    """-> (object handed to bind_params, object handed to the prepared path, target type tree)"""
    k = d["py"]
    if k in ("str", "strsub"):
        o = d["v"] if k == "str" else _cls("strsub", d)(d["v"])
        return o, o, {"t": "text"}
    if k in ("bytes", "bytearray", "memoryview", "bytessub"):
        b = bytes.fromhex(d["hex"])
        o = {"bytes": b, "bytearray": bytearray(b), "memoryview": memoryview(b), "bytessub": _cls("bytessub", d)(b)}[k]
        return o, o, {"t": "blob"}
    if k == "bool":
        return d["v"], d["v"], {"t": "boolean"}
    if k in ("int", "intsub"):
        o = d["v"] if k == "int" else _cls("intsub", d)(d["v"])
        return o, o, {"t": "varint"}
    if k == "intenum":
        o = list(Color)[d["v"] % len(Color)]
        return o, o, {"t": "varint"}
    if k in ("float", "floatsub"):
        f = _float(d["v"])
        o = f if k == "float" else _cls("floatsub", d)(f)
        return o, o, {"t": "double"}
    if k in ("decimal", "decimalsub"):
        o = decimal.Decimal(d["v"]) if k == "decimal" else _cls("decimalsub", d)(d["v"])
        return o, o, {"t": "decimal"}
    if k in ("uuid", "uuidsub"):
        o = uuid.UUID(d["hex"]) if k == "uuid" else _cls("uuidsub", d)(d["hex"])
        return o, o, {"t": "uuid"}
    if k in ("datetime", "datetimesub"):
        cls = datetime.datetime if k == "datetime" else _cls("datetimesub", d)
        day = datetime.date.fromordinal(d["ord"])
        sod = d["sod"]
        tz = None if d["tz"] is None else datetime.timezone(datetime.timedelta(minutes=d["tz"]))
        o = cls(day.year, day.month, day.day, sod // 3600, sod // 60 % 60, sod % 60, d["us"], tzinfo=tz)
        return o, o, {"t": "timestamp"}
    if k in ("date", "datesub"):
        day = datetime.date.fromordinal(d["ord"])
        o = day if k == "date" else _cls("datesub", d)(day.year, day.month, day.day)
        return o, o, {"t": "date"}
    if k == "Date":
        from cassandra.util import Date
        o = Date(d["days"])
        return o, o, {"t": "date"}
    if k in ("time", "timesub"):
        us = d["ns"] // 1000
        cls = datetime.time if k == "time" else _cls("timesub", d)
        o = cls(us // 3600000000, us // 60000000 % 60, us // 1000000 % 60, us % 1000000)
        return o, o, {"t": "time"}
    if k == "Time":
        from cassandra.util import Time
        o = Time(d["ns"])
        return o, o, {"t": "time"}
    if k == "Duration":
        from cassandra.util import Duration
        o = Duration(d["m"], d["d"], d["n"])
        return o, o, {"t": "duration"}
    if k == "inet":
        o = ipaddress.ip_address(d["v"])
        return o, o, {"t": "inet"}
    if k == "none":
        return None, None, None
    if k in ("list", "tuple", "listsub", "generator", "namedtuple"):
        built = [build(x) for x in d["items"]]
        objs, pobjs = [b[0] for b in built], [b[1] for b in built]
        tree = {"t": "list", "of": built[0][2] if built else {"t": "int"}}
        if k == "list":
            return objs, pobjs, tree
        if k == "tuple":
            return tuple(objs), tuple(pobjs), tree
        if k == "listsub":
            return _cls("listsub", d)(objs), pobjs, tree
        if k == "namedtuple":
            cls = _cls("pair" if len(objs) == 2 else "triple", d)
            return cls(*objs), tuple(pobjs), tree
        return (x for x in objs), pobjs, tree
    if k in ("set", "frozenset", "sortedset", "setsub"):
        built = [build(x) for x in d["items"]]
        objs, pobjs = [b[0] for b in built], [b[1] for b in built]
        tree = {"t": "set", "of": built[0][2] if built else {"t": "int"}}
        if k == "sortedset":
            from cassandra.util import SortedSet
            return SortedSet(objs), SortedSet(pobjs), tree
        cls = {"set": set, "frozenset": frozenset, "setsub": _cls("setsub", d)}[k]
        return cls(objs), set(pobjs), tree
    if k in ("dict", "OrderedDict", "OrderedMap", "dictsub"):
        built = [(build(a), build(b)) for a, b in d["items"]]
        pairs = [(a[0], b[0]) for a, b in built]
        ppairs = [(a[1], b[1]) for a, b in built]
        tree = {"t": "map", "k": built[0][0][2] if built else {"t": "int"}, "v": built[0][1][2] if built else {"t": "int"}}
        if k == "OrderedMap":
            from cassandra.util import OrderedMap
            return OrderedMap(pairs), OrderedMap(ppairs), tree
        cls = {"dict": dict, "OrderedDict": OrderedDict, "dictsub": _cls("dictsub", d)}[k]
        return cls(pairs), OrderedDict(ppairs), tree
    if k == "seq":
        from cassandra.query import ValueSequence
        built = [build(x) for x in d["items"]]
        tree = {"t": "tuple", "of": [b[2] for b in built]}
        return ValueSequence([b[0] for b in built]), tuple(b[1] for b in built), tree
    raise ValueError(k)


def _leaves(d):
    if "items" in d:
        for it in d["items"]:
            if isinstance(it, list):
                for x in it:
                    for y in _leaves(x):
                        yield y
            else:
                for y in _leaves(it):
                    yield y
    else:
        yield d


def _nodes(d):
    yield d
    for it in d.get("items", []):
        for x in (it if isinstance(it, list) else [it]):
            for y in _nodes(x):
                yield y


def _depth(d):
    if "items" not in d:
        return 0
    subs = [x for it in d["items"] for x in (it if isinstance(it, list) else [it])]
    return 1 + max([_depth(x) for x in subs] or [0])


def blame(d):
    """the python kind a structural failure is attributed to: the first subclass instance in the parameter
    (pre-order), else the first leaf kind, else the container kind"""
    for n in _nodes(d):
        if n["py"] in _SUBCLASS_KINDS:
            return n["py"]
    for n in _leaves(d):
        return n["py"] if d is n else "%s[%s]" % (d["py"], n["py"])
    return d["py"]


_TRICKY = ("'", "$", ";", "--", "/*", "\\", "%")


def _nontrivial(d):
    for n in _nodes(d):
        k = n["py"]
        if k in _SUBCLASS_KINDS:
            return True
        if k in ("str",) and (any(t in n["v"] for t in _TRICKY) or not n["v"].isascii()):
            return True
        if k == "float" and (isinstance(n["v"], str) or "e" in repr(n["v"]) or len(repr(n["v"])) > 12):
            return True
        if k == "decimal":
            return True
        if k in ("datetime",) and n["us"] != 0:
            return True
        if k == "int" and abs(n["v"]) >= 2 ** 63:
            return True
    return _depth(d) >= 2


# ---------------------------------------------------------------------------------------------
# generators
# ---------------------------------------------------------------------------------------------
_SPECIAL = ["'", "''", '"', "$$", "$", ";", "--", "/*", "*/", "//", "\\", "\\'", " ", "\n", "\x00", "%s", "%(p0)s", "%", "?", ":x",
            "é", "\U0001f600", "中", " OR k='", "' OR '1'='1", "1; DROP TABLE t", "NULL", "null", "true", "0x00", "[", "}", ")", ","]


def s_text():
    word = st.text(alphabet="abcxyz019_ ", max_size=6)
    pieces = st.lists(st.one_of(st.sampled_from(_SPECIAL), word, st.text(max_size=4)), min_size=0, max_size=5)
    return st.one_of(st.builds("".join, pieces), st.builds("".join, pieces), st.text(max_size=10), word)


def _bounds(bits):
    out = []
    for k in bits:
        out += [2 ** k - 1, 2 ** k, 2 ** k + 1, -2 ** k - 1, -2 ** k, -2 ** k + 1]
    return out


def s_int():
    return st.one_of(st.integers(-100, 100), st.sampled_from(_bounds([7, 15, 31, 32, 53, 63, 64, 100, 300]) + [0, 1, -1]),
                     st.integers(-2 ** 70, 2 ** 70))


def s_float():
    special = st.sampled_from(["nan", "inf", "-inf", 0.0, -0.0, 5e-324, 2.2250738585072014e-308, 1.7976931348623157e+308,
                               0.1, 1e16, 1e-7, 123456789.12345679, 1e22, 1e23, 9007199254740993.0, 0.30000000000000004])
    return st.one_of(special, st.floats(allow_nan=False, allow_infinity=False), st.floats(-1e6, 1e6), st.integers(-1000, 1000).map(float))


def s_decimal():
    digits = st.one_of(st.integers(0, 10 ** 6), st.integers(10 ** 15, 10 ** 18), st.integers(10 ** 25, 10 ** 40),
                       st.sampled_from([1, 10, 100, 11, 110, 1234567890123456789]))
    exp = st.one_of(st.integers(-6, 6), st.integers(-30, 30), st.sampled_from([-400, -325, -20, 0, 20, 308, 309, 400]))
    return st.builds(lambda s, dg, e: "%s%dE%d" % ("-" if s else "", dg, e), st.booleans(), digits, exp)


def s_scalar(kind, key=False):
    """strategy of leaf descriptions of one python kind family (variants mixed in)"""
    if kind == "str":
        return st.builds(lambda v, sub: {"py": "strsub" if sub else "str", "v": v}, s_text(), st.sampled_from([False, False, False, True]))
    if kind == "bytes":
        return st.builds(lambda b, k: {"py": k, "hex": b.hex()}, st.binary(max_size=12),
                         st.sampled_from(["bytes", "bytessub"] if key else ["bytes", "bytes", "bytearray", "memoryview", "bytessub"]))
    if kind == "bool":
        return st.booleans().map(lambda b: {"py": "bool", "v": b})
    if kind == "int":
        return st.one_of(st.builds(lambda v, k: {"py": k, "v": v}, s_int(), st.sampled_from(["int", "int", "int", "intsub"])),
                         st.integers(0, 3).map(lambda i: {"py": "intenum", "v": i}))
    if kind == "float":
        return st.builds(lambda v, k: {"py": k, "v": v}, s_float(), st.sampled_from(["float", "float", "float", "floatsub"]))
    if kind == "decimal":
        return st.builds(lambda v, k: {"py": k, "v": v}, s_decimal(), st.sampled_from(["decimal", "decimal", "decimal", "decimalsub"]))
    if kind == "uuid":
        return st.builds(lambda u, k: {"py": k, "hex": u.hex}, st.uuids(), st.sampled_from(["uuid", "uuid", "uuidsub"]))
    if kind == "datetime":
        ordinal = st.one_of(st.integers(1, 3652059), st.integers(_EPOCH_ORD - 400, _EPOCH_ORD + 25000),
                            st.sampled_from([1, 2, 366, 3652059, 3652058, _EPOCH_ORD, _EPOCH_ORD - 1]))
        us = st.one_of(st.sampled_from([0, 1, 999, 1000, 500, 999999, 123000, 123456]), st.integers(0, 999999))
        return st.builds(lambda o, s, u, tz, k: {"py": k, "ord": o, "sod": s, "us": u, "tz": tz}, ordinal, st.integers(0, 86399), us,
                         st.sampled_from([None, None, 0, 60, -330, 345, 840, -720]), st.sampled_from(["datetime", "datetime", "datetime", "datetimesub"]))
    if kind == "date":
        ordinal = st.one_of(st.integers(1, 3652059), st.integers(_EPOCH_ORD - 400, _EPOCH_ORD + 25000),
                            st.sampled_from([1, 365, 366, 364877, 364878, 3652059, _EPOCH_ORD]))
        pyd = st.builds(lambda o, k: {"py": k, "ord": o}, ordinal, st.sampled_from(["date", "date", "datesub"]))
        ext = st.one_of(st.integers(-2 ** 31, 2 ** 31 - 1), st.integers(-800000, 3000000),
                        st.sampled_from([-2 ** 31, 2 ** 31 - 1, 0, -1, -719162, -719163, 2932896, 2932897])).map(lambda n: {"py": "Date", "days": n})
        return st.one_of(pyd, pyd, ext)
    if kind == "time":
        ns = st.one_of(st.integers(0, 86399999999999), st.sampled_from([0, 1, 999, 1000, 86399999999999, 86399999999000, 3600 * 10 ** 9, 1000000]))
        return st.builds(lambda n, k: {"py": k, "ns": n}, ns, st.sampled_from(["time", "Time", "Time", "timesub"]))
    if kind == "duration":
        comp = st.one_of(st.integers(0, 100), st.sampled_from([0, 1, 2 ** 31 - 1]))
        nanos = st.one_of(st.integers(0, 10 ** 12), st.sampled_from([0, 1, 2 ** 63 - 1]))
        return st.builds(lambda m, d, n, neg: {"py": "Duration", "m": -m if neg else m, "d": -d if neg else d, "n": -n if neg else n},
                         comp, comp, nanos, st.booleans())
    if kind == "inet":
        return st.one_of(st.ip_addresses(v=4), st.ip_addresses(v=6), st.sampled_from(["::", "::1", "0.0.0.0", "255.255.255.255",
                         "::ffff:1.2.3.4", "fe80::1"]).map(ipaddress.ip_address)).map(lambda a: {"py": "inet", "v": str(a)})
    raise ValueError(kind)


_SCALAR_KINDS = ["str", "str", "str", "bytes", "bool", "int", "float", "float", "decimal", "decimal", "uuid", "datetime", "date",
                 "time", "duration", "inet"]
_KEY_KINDS = ["str", "str", "int", "bytes", "uuid", "bool", "date", "inet"]


def _unique(items, key=lambda d: repr(sorted(d.items(), key=repr))):
    seen, out = set(), []
    for it in items:
        k = key(it)
        if k not in seen:
            seen.add(k)
            out.append(it)
    return out


def _hashkey(d):
    """python equality classes for set elements / dict keys (1 == True == 1.0 are one key!)"""
    k = d["py"]
    if k in ("str", "strsub"):
        return ("s", d["v"])
    if k in ("bytes", "bytearray", "memoryview", "bytessub"):
        return ("b", d["hex"])
    if k in ("int", "intsub", "bool"):
        return ("n", int(d["v"]))
    if k == "intenum":
        return ("n", int(list(Color)[d["v"] % len(Color)]))
    if k in ("uuid", "uuidsub"):
        return ("u", d["hex"])
    if k in ("date", "datesub"):
        return ("d", d["ord"] - _EPOCH_ORD)
    if k == "Date":
        return ("d", d["days"])
    if k == "inet":
        return ("i", d["v"])
    return (k, repr(sorted(d.items(), key=repr)))


def _pick(weighted):
    """choice between strategies with fixed weights (hypothesis' one_of favours early/simple branches)"""
    weighted = list(weighted)
    total = sum(w for w, _s in weighted)

    def choose(i):
        for w, strat in weighted:
            if i < w:
                return strat
            i -= w
        return weighted[-1][1]
    return st.integers(0, total - 1).flatmap(choose)


_LEAF_WEIGHTS = [("str", 5), ("bytes", 2), ("bool", 1), ("int", 2), ("float", 4), ("decimal", 3), ("uuid", 1), ("datetime", 3),
                 ("date", 2), ("time", 2), ("duration", 1), ("inet", 1)]


def s_leaf():
    return _pick([(w, s_scalar(k)) for k, w in _LEAF_WEIGHTS])


def s_value(depth):
    """one parameter value description of nesting depth <= depth"""
    if depth <= 0:
        return s_leaf()
    return s_collection(depth)


def _elem_family(depth, key=False):
    """a strategy *of strategies*: pick one element kind, return the strategy of its values (homogeneous collections)"""
    kinds = _KEY_KINDS if key else _SCALAR_KINDS
    fams = [s_scalar(k, key) for k in sorted(set(kinds))]
    if depth > 0 and not key:
        fams.extend([s_collection(depth)] * len(fams))      # half of the time a nested collection
    return fams


_SIG = {"str": "text", "strsub": "text", "bytes": "blob", "bytearray": "blob", "memoryview": "blob", "bytessub": "blob",
        "bool": "boolean", "int": "varint", "intsub": "varint", "intenum": "varint", "float": "double", "floatsub": "double",
        "decimal": "decimal", "decimalsub": "decimal", "uuid": "uuid", "uuidsub": "uuid", "datetime": "timestamp",
        "datetimesub": "timestamp", "date": "date", "datesub": "date", "Date": "date", "time": "time", "timesub": "time",
        "Time": "time", "Duration": "duration", "inet": "inet"}


def _sig(d):
    """target CQL type of a description, as text (same inference as build())"""
    k = d["py"]
    if k in _SIG:
        return _SIG[k]
    if k in ("list", "tuple", "listsub", "generator", "namedtuple"):
        return "list<%s>" % (_sig(d["items"][0]) if d["items"] else "int")
    if k in ("set", "frozenset", "sortedset", "setsub"):
        return "set<%s>" % (_sig(d["items"][0]) if d["items"] else "int")
    if k in ("dict", "OrderedDict", "OrderedMap", "dictsub"):
        return "map<%s,%s>" % ((_sig(d["items"][0][0]), _sig(d["items"][0][1])) if d["items"] else ("int", "int"))
    return k


def _homogeneous(items):
    if not items:
        return items
    first = _sig(items[0])
    return [it for it in items if _sig(it) == first]


def s_collection(depth):
    def lists(fam):
        return st.builds(lambda items, k: {"py": "namedtuple" if k == "namedtuple" and len(items) in (2, 3) else ("tuple" if k == "namedtuple" else k),
                                           "items": items},
                         st.lists(fam, min_size=0, max_size=4).map(_homogeneous),
                         st.sampled_from(["list", "list", "tuple", "listsub", "generator", "namedtuple", "namedtuple"]))

    def sets(fam):
        return st.builds(lambda items, k: {"py": k, "items": _unique(items, _hashkey)}, st.lists(fam, min_size=0, max_size=4),
                         st.sampled_from(["set", "set", "frozenset", "sortedset", "setsub"]))

    def maps(kf, vf):
        return st.builds(lambda ks, vs, k: {"py": k, "items": [[a, b] for a, b in zip(_unique(ks, _hashkey), vs)]},
                         st.lists(kf, min_size=0, max_size=3), st.lists(vf, min_size=3, max_size=3).map(_homogeneous),
                         st.sampled_from(["dict", "dict", "OrderedDict", "OrderedMap", "dictsub"]))

    val_fams = _elem_family(depth - 1)
    key_fams = _elem_family(0, key=True)
    pick_val = st.integers(0, len(val_fams) - 1)
    pick_key = st.integers(0, len(key_fams) - 1)
    return _pick([
        (4, pick_val.flatmap(lambda i: lists(val_fams[i]))),
        (2, pick_key.flatmap(lambda i: sets(key_fams[i]))),
        (3, st.tuples(pick_key, pick_val).flatmap(lambda p: maps(key_fams[p[0]], val_fams[p[1]]))),
    ])


def s_case():
    param = _pick([(8, s_value(0)), (5, s_value(1)), (4, s_value(2)), (2, s_value(3)), (1, st.just({"py": "none"}))])
    seq = st.sampled_from(sorted(set(_KEY_KINDS))).flatmap(lambda k: st.lists(s_scalar(k, True), min_size=1, max_size=4)).map(
        lambda items: {"py": "seq", "items": items})
    n_params = _pick([(5, st.just(1)), (3, st.just(2)), (2, st.just(3))])
    normal = n_params.flatmap(lambda n: st.fixed_dictionaries({
        "params": st.lists(param, min_size=n, max_size=n), "named": st.integers(0, 9).map(lambda i: i < 4),
        "template": st.sampled_from(["insert", "update", "select"])}))
    inlist = st.fixed_dictionaries({"params": st.tuples(seq).map(list), "named": st.booleans(), "template": st.just("in")})
    base = _pick([(12, normal), (1, inlist)])
    return st.builds(_assign_depths, base, st.lists(st.sampled_from([0, 0, 1, 1, 2, 3, 3, 4]), min_size=6, max_size=6))


_DEEP_KINDS = _SUBCLASS_KINDS - frozenset(["intenum"])


def _assign_depths(case, tape):
    """give every subclass instance of the case an inheritance depth (0 direct subclass, 1 grand-child,
    2 great-grand-child, 3 mixin + subclass, 4 mixin + supported type) from the drawn tape, in pre-order"""
    pos = [0]
    for d in case["params"]:
        for n in _nodes(d):
            if n["py"] in _DEEP_KINDS:
                n["deep"] = tape[pos[0] % len(tape)]
                pos[0] += 1
    return case


# ---------------------------------------------------------------------------------------------
# templates
# ---------------------------------------------------------------------------------------------
def _segments(template, n):
    """list of literal segments with n marker slots between them: [seg0, seg1, ..., segn]"""
    cols = ["a", "b", "c"][:n]
    if template == "insert":
        return ["INSERT INTO ks.t (k, %s) VALUES (0, " % ", ".join(cols)] + [", "] * (n - 1) + [") USING TTL 10"]
    if template == "update":
        return ["UPDATE ks.t SET a = "] + [", %s = " % c for c in cols[1:]] + [" WHERE k = 0 IF EXISTS"]
    if template == "select":
        return ["SELECT * FROM ks.t WHERE a = "] + [" AND %s = " % c for c in cols[1:]] + [" LIMIT 5 ALLOW FILTERING"]
    return ["SELECT * FROM ks.t WHERE k IN ", " AND c > 0"]


# ---------------------------------------------------------------------------------------------
# oracle
# ---------------------------------------------------------------------------------------------
def _first_diff(tree, a, b):
    """kind of the first leaf (or the container) where two tagged values differ"""
    t = tree["t"]
    if a is None or b is None or isinstance(a, dict) or isinstance(b, dict):
        return t
    if t == "list" and len(a) == len(b):
        for x, y in zip(a, b):
            if not cqlterm.same_value(tree["of"], x, y):
                return _first_diff(tree["of"], x, y)
    if t == "map" and len(a) == len(b):
        for (ka, va), (kb, vb) in zip(a, b):
            if not cqlterm.same_value(tree["k"], ka, kb):
                return _first_diff(tree["k"], ka, kb)
            if not cqlterm.same_value(tree["v"], va, vb):
                return _first_diff(tree["v"], va, vb)
    if t == "tuple":
        for sub, x, y in zip(tree["of"], a, b):
            if not cqlterm.same_value(sub, x, y):
                return _first_diff(sub, x, y)
    if t == "set" and len(a) == len(b) == 1:
        return _first_diff(tree["of"], a[0], b[0])
    return t


def _children(d):
    out = []
    for it in d.get("items", []):
        out.extend(it if isinstance(it, list) else [it])
    return out


def _bind(descs, named, template):
    """-> (statement text, segments, [(obj, prepared obj, tree)])  -- fresh objects on every call (generators!)"""
    from cassandra.encoder import Encoder
    from cassandra.query import bind_params
    n = len(descs)
    segs = _segments(template, n)
    built = [build(d) for d in descs]
    if named:
        query = "".join(s + ("%%(p%d)s" % i if i < n else "") for i, s in enumerate(segs))
        params = dict(("p%d" % i, built[i][0]) for i in range(n))
    else:
        query = "".join(s + ("%s" if i < n else "") for i, s in enumerate(segs))
        params = [b[0] for b in built]
        if n == 1 and template != "in":
            params = tuple(params)
    return bind_params(query, params, Encoder()), segs, built


def _prepared(d):
    """tagged value the prepared path sends for description d (raises when that path refuses the value)"""
    from checks import _drv
    _obj, pobj, tree = build(d)
    if tree is None:
        return None, None
    wire = _drv.build_type(tree, "direct").to_binary(pobj, 4)
    return tree, V.decode(tree, wire, 4, validate=False)


def _parse_skeleton(text, segs, n):
    """-> list of n term ASTs, or raises ValueError(message) when the statement lost its skeleton"""
    tokens = lex(text)          # LexError is a ValueError
    p = cqlterm.Parser(tokens)
    terms = []
    for i, seg in enumerate(segs):
        for want in lex(seg):
            got = p.peek()
            if got is None or (got.kind, got.text) != (want.kind, want.text):
                raise ValueError("after parameter %d the statement continues with %s instead of %r" % (
                    max(0, i - 1), "end of input" if got is None else "%s %r" % (got.kind, got.text), want.text))
            p.pos += 1
        if i < n:
            terms.append(p.term())      # ParseError is a ValueError
    if not p.at_end():
        raise ValueError("input left after the statement")
    return terms


def check_one(d, named=False, template=None):
    """bind the single parameter d; -> (status, message, extra) with status in
    ok | refused | raises | structure | not-literal | invalid | value"""
    template = template or ("in" if d["py"] == "seq" else "select")
    try:
        text, segs, _built = _bind([d], named, template)
    except Exception as e:  # noqa
        try:
            _prepared(d)
        except Exception:  # noqa -- both paths refuse the value
            return "refused", "", None
        return "raises", "bind_params raised %s: %s" % (type(e).__name__, str(e)[:200]), type(e).__name__
    if not isinstance(text, str):
        return "structure", "bind_params returned %s" % type(text).__name__, None
    try:
        term = _parse_skeleton(text, segs, 1)[0]
    except ValueError as e:
        return "structure", "%s: %r" % (e, text[:300]), None
    if not cqlterm.literal_only(term):
        return "not-literal", "the parameter became the non-literal term %r" % (cqlterm.render(term)[:200],), None
    try:
        tree, want = _prepared(d)
    except Exception:  # noqa
        return "refused", "", None
    if tree is None:
        if term == {"k": "null"}:
            return "ok", "", None
        return "value", "None became %r" % (cqlterm.render(term),), "null"
    try:
        got = cqlterm.denote(term, tree)
    except cqlterm.Invalid as e:
        return "invalid", "Cassandra rejects %r for %s: %s" % (cqlterm.render(term)[:200], cqlterm.type_name(tree), e), None
    if not cqlterm.same_value(tree, got, want):
        return "value", "%s literal %r reads as %s, the prepared path sends %s" % (
            cqlterm.type_name(tree), cqlterm.render(term)[:200], _short(got), _short(want)), _first_diff(tree, want, got)
    return "ok", "", None


def _minimal(d, status, named):
    """smallest sub-description that fails when bound on its own (a failing element explains its container);
    -> (description, its status, its message, its extra)"""
    for c in _children(d):
        st_c, msg_c, extra_c = check_one(c, named)
        if st_c not in ("ok", "refused"):
            deeper = _minimal(c, st_c, named)
            return deeper if deeper[0] is not c else (c, st_c, msg_c, extra_c)
    return (d, status, None, None)


def interpret(case, ctx):
    descs = case["params"]
    named = case["named"]
    n = len(descs)
    for d in descs:
        for nd in _nodes(d):
            ctx.label("py:" + nd["py"])
            if nd.get("deep"):
                ctx.label("deep:%d" % nd["deep"], "deep:" + nd["py"])
    ctx.label("depth:%d" % max(_depth(d) for d in descs), "named" if named else "positional", "params:%d" % n)
    ctx.nontrivial(any(_nontrivial(d) for d in descs))

    # --- every parameter on its own: one literal term, same value as the prepared path
    all_ok = True
    for d in descs:
        status, msg, extra = check_one(d, named, case["template"] if n == 1 else None)
        ctx.label("one:" + status)
        if status in ("ok", "refused"):
            if status == "refused":
                ctx.label("prepared:refused:" + d["py"])
                all_ok = False
            continue
        all_ok = False
        m, m_status, m_msg, m_extra = _minimal(d, status, named)
        if m is not d:
            status, msg, extra = m_status, m_msg + "   [inside %s]" % d["py"], m_extra
        kind = m["py"]
        if kind in _SUBCLASS_KINDS and m.get("deep"):
            # below a direct subclass (grand-children, mixins): a lookup that stops at the direct bases shows here only
            ctx.fail(["C29.subclass", kind, "deep"], "%s: %s  [%s]" % (status, msg, type(build(m)[0]).__mro__[:4]))
        elif kind in _SUBCLASS_KINDS:
            # one root cause whatever the symptom: Encoder dispatches on type(val), a subclass falls through to str()
            ctx.fail(["C29.subclass", kind], "%s: %s" % (status, msg))
        elif status == "raises":
            ctx.fail(["C29.bind_params", kind, "raises", extra], msg)
        elif status == "value" and extra and extra != _SIG.get(kind, extra):
            ctx.fail(["C29.value", kind, extra], msg)
        else:
            ctx.fail(["C29." + status, kind], msg)
    if n == 1 or not all_ok:
        return

    # --- several parameters: the statement is the template with each parameter's own literal in its slot
    try:
        text, segs, _built = _bind(descs, named, case["template"])
    except Exception as e:  # noqa
        ctx.fail(["C29.compose", "raises", type(e).__name__], "binding %d parameters together raised %s" % (n, e))
        return
    try:
        terms = _parse_skeleton(text, segs, n)
    except ValueError as e:
        ctx.fail(["C29.compose", "structure"], "%s: %r" % (e, text[:300]))
        return
    for i, (d, term) in enumerate(zip(descs, terms)):
        alone = _parse_skeleton(_bind([d], named, "in" if d["py"] == "seq" else "select")[0],
                                _segments("in" if d["py"] == "seq" else "select", 1), 1)[0]
        if d["py"] in ("set", "frozenset", "setsub", "sortedset"):
            same = sorted(map(cqlterm.render, term.get("items", []))) == sorted(map(cqlterm.render, alone.get("items", [])))
        else:
            same = term == alone
        ctx.check(same, ["C29.compose", "slot"], "parameter %d reads %r in the statement but %r when bound alone" % (
            i, cqlterm.render(term)[:150], cqlterm.render(alone)[:150]))
    ctx.label("composed")


def _short(v):
    s = repr(v)
    return s if len(s) < 200 else s[:200] + "..."


# ---------------------------------------------------------------------------------------------
# part: datetime millisecond grid (exhaustive over its stated domain)
# ---------------------------------------------------------------------------------------------
_GRID_BASES = [("epoch", 0), ("1e9", 10 ** 9), ("2004-08-07T00:12:58", 1091837578), ("pre-1970", -10 ** 9), ("post-2038", 2200000000),
               ("year-1", (1 - _EPOCH_ORD) * 86400), ("year-9999", (3652059 - _EPOCH_ORD) * 86400 + 86399)]


def _grid_chunks():
    out = []
    for name, base in _GRID_BASES:
        tzs = [None, 60, -330]
        if name == "year-1":
            tzs = [None, -330]          # a positive offset would put the UTC instant before year 1 (both paths refuse)
        if name == "year-9999":
            tzs = [None, 60]
        for tz in tzs:
            out.append({"name": name, "base": base, "tz": tz})
    return out


def _grid_cases(chunk):
    base, tz = chunk["base"], chunk["tz"]
    local = base + (tz or 0) * 60           # wall-clock seconds of the aware datetime whose UTC instant is `base`
    if not (1 - _EPOCH_ORD) * 86400 <= local <= (3652059 - _EPOCH_ORD) * 86400 + 86399:
        local = base
    ordinal, sod = _EPOCH_ORD + local // 86400, local % 86400
    templates = ["insert", "update", "select"]
    for ms in range(1000):
        yield {"params": [{"py": "datetime", "ord": ordinal, "sod": sod, "us": ms * 1000, "tz": tz}],
               "named": ms % 2 == 1, "template": templates[ms % 3]}
    for ms in range(0, 1000, 7):
        for r in (1, 500, 999):
            yield {"params": [{"py": "datetime", "ord": ordinal, "sod": sod, "us": ms * 1000 + r, "tz": tz}],
                   "named": ms % 2 == 1, "template": templates[ms % 3]}


def parts(tier):
    cqlterm.self_test()     # fixed vectors of the reference lexer/parser/denotation: a disagreement is a harness error
    return [hyp_part("params", s_case, interpret, tier, quick=500, thorough=3000, quick_shards=8),
            EnumPart("datetime-ms-grid", _grid_chunks(), _grid_cases, interpret)]
