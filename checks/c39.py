"""C39 -- column encryption is transparent, including for nulls (pure-Python and compiled decoders).

client side                                    fake server                          client side
PreparedStatement.bind(row) with the policy -> stores exactly the bound bytes   ->  RESULT/rows body encoded by hand
                                               (null stays null)                    -> _ProtocolHandler subclass carrying
                                                                                       the policy .decode_message(...)
                                                                                    -> parsed_rows == original rows

Independent parts: the RESULT body encoder and type-code table below, the plaintext reference
(spec.values.encode), AES-256-CBC + PKCS7 decryption with `cryptography` and the case's own key.
The compiled decoders (obj_parser ListParser/LazyParser, checks/_c39_cy.py) are entries of DECODERS.
"""
import struct

from hypothesis import strategies as st

from spec import values as V
from vlib.harness import hyp_part

PID = "C39"
TITLE = "Column encryption is transparent, including for nulls"
LEVEL = "exploration"
ENGINE = "codec"
TECHNIQUE = ("property-based testing (Hypothesis): round trip through bind -> stored bytes -> hand-encoded RESULT -> "
             "decode_message, plus an independent AES-256-CBC/PKCS7 decryption of what was sent")
RULE = ("Hypothesis draws a protocol version (1-6, DSE 0x41/0x42), 1-4 result columns typed from the scalar types the "
        "policy accepts (ascii, bigint, blob, boolean, date, decimal, double, float, inet, int, smallint, text, time, "
        "timestamp, timeuuid, tinyint, uuid, varchar, varint, duration), a subset of them encrypted with "
        "AES256ColumnEncryptionPolicy (per-column 32-byte keys, a 16-byte IV; the decoding side uses a second policy "
        "instance with the same keys and another default IV, as a second client would), 0-5 rows of values with None "
        "allowed everywhere, how the result metadata travels (inline per column, global table spec, or "
        "NO_METADATA + the prepared statement's result metadata), and the history of Sessions created in the process before "
        "the result is decoded (only the case's own; or also a second cluster's session with other keys for the same columns / "
        "a policy for another column / no policy, created before or after): the result is decoded by the protocol handler that "
        "the real Session.__init__ installed for the case's session, and a re-keyed second session must read its own rows back too.  Non-trivial: at least one encrypted column that holds "
        "None in one row and a value in another.")
ASSUMPTIONS = [
    "the server is modelled as a byte store: it returns exactly the bytes it was sent; an encrypted column is a blob column on the server (type code 0x0003 in the result metadata)",
    "plaintext reference is spec.values.encode; decoded values are compared through spec.values.normalise/same (sets sorted, floats by bits)",
    "timestamps are drawn within +-2**41 ms so that the known DateType sub-millisecond drift (C01) does not leak in",
    "independent decryption uses the `cryptography` package primitives (AES-256, CBC, PKCS7) directly with the case's key; the IV is the first 16 bytes of the stored value",
    "Sessions are real cassandra.cluster.Session objects (real __init__) over a stub cluster object, with add_or_renew_pool overridden to report 'connected' (no sockets); the process-wide handler classes' column_encryption_policy attribute is restored after every case",
    "every case is decoded three times: by the pure-Python _ProtocolHandler in this process, and by cython_protocol_handler(ListParser()) "
    "and (LazyParser()) of a .pyx build of the current tree (build/cybuild.py) in a worker process (checks/_c39_cy.py), which rebuilds "
    "the policy and result metadata from the case and returns the rows normalised by spec.values; all three are compared with the original values",
]

PVS = [1, 2, 3, 4, 5, 6, 0x41, 0x42]
KS, TABLE = "ks1", "tbl1"

# native protocol [option] ids (spec section 4.2.5.2) -- written down here, not read from the driver
TYPE_CODES = {"ascii": 0x0001, "bigint": 0x0002, "blob": 0x0003, "boolean": 0x0004, "counter": 0x0005,
              "decimal": 0x0006, "double": 0x0007, "float": 0x0008, "int": 0x0009, "timestamp": 0x000B,
              "uuid": 0x000C, "varchar": 0x000D, "text": 0x000D, "varint": 0x000E, "timeuuid": 0x000F,
              "inet": 0x0010, "date": 0x0011, "time": 0x0012, "smallint": 0x0013, "tinyint": 0x0014,
              "duration": 0x0015}
TYPES = ["ascii", "bigint", "blob", "boolean", "date", "decimal", "double", "float", "inet", "int", "smallint",
         "text", "time", "timestamp", "timeuuid", "tinyint", "uuid", "varchar", "varint", "duration"]


SESSION_HISTORIES = [["self"], ["self"], ["self", "rekey"], ["self", "rekey"], ["rekey", "self"], ["self", "other-column"],
                     ["self", "no-policy"], ["no-policy", "self", "rekey"], ["other-column", "self", "no-policy"]]


# ---------------------------------------------------------------------------------------------
# strategy
# ---------------------------------------------------------------------------------------------

def _value(t):
    if t == "timestamp":
        return st.one_of(st.sampled_from([0, -1, 1, 999, -2 ** 41, 2 ** 41]), st.integers(-2 ** 41, 2 ** 41))
    return V.value_for(V.T(t), nulls=False)


@st.composite
def s_case(draw):
    pv = draw(st.sampled_from(PVS))
    n = draw(st.sampled_from([1, 1, 2, 2, 3, 4]))
    cols = []
    for i in range(n):
        t = draw(st.sampled_from(TYPES))
        enc = draw(st.sampled_from([True, True, False]))
        cols.append({"name": draw(st.sampled_from(["c", "Col", "v", "pay load"])) + str(i), "type": t, "enc": enc,
                     "key": draw(st.binary(min_size=32, max_size=32)).hex() if enc else None})
    if not any(c["enc"] for c in cols):
        cols[0]["enc"] = True
        cols[0]["key"] = draw(st.binary(min_size=32, max_size=32)).hex()
    n_rows = draw(st.sampled_from([0, 1, 2, 2, 3, 3, 4, 5]))
    rows = []
    for _ in range(n_rows):
        row = []
        for c in cols:
            if draw(st.sampled_from([True, False, False, False])):
                row.append(None)
            else:
                row.append(draw(_value(c["type"])))
        rows.append(row)
    return {"pv": pv, "cols": cols, "rows": rows,
            "iv": draw(st.one_of(st.binary(min_size=16, max_size=16), st.just(b"\x00" * 15 + b"\x01"))).hex(),
            "iv2": draw(st.binary(min_size=16, max_size=16)).hex(),
            "meta": draw(st.sampled_from(["inline", "global", "no-metadata"])),
            # Sessions created in this process, in order; results are decoded after the last one exists.
            # "self" carries the case's policy; "rekey": another cluster whose policy has other keys for the same
            # columns; "other-column": a policy for a different column; "no-policy": a cluster without encryption
            "sessions": draw(st.sampled_from(SESSION_HISTORIES))}


# ---------------------------------------------------------------------------------------------
# the fake server: RESULT (kind Rows) body
# ---------------------------------------------------------------------------------------------

def _string(s):
    b = s.encode("utf-8")
    return struct.pack(">H", len(b)) + b


def _wire_type(col):
    return "blob" if col["enc"] else col["type"]


def rows_body(cols, stored_rows, meta):
    out = struct.pack(">i", 2)                              # kind = Rows
    if meta == "no-metadata":
        out += struct.pack(">ii", 0x0004, len(cols))
    else:
        glob = meta == "global"
        out += struct.pack(">ii", 0x0001 if glob else 0, len(cols))
        if glob:
            out += _string(KS) + _string(TABLE)
        for c in cols:
            if not glob:
                out += _string(KS) + _string(TABLE)
            out += _string(c["name"]) + struct.pack(">H", TYPE_CODES[_wire_type(c)])
    out += struct.pack(">i", len(stored_rows))
    for row in stored_rows:
        for cell in row:
            out += struct.pack(">i", -1) if cell is None else struct.pack(">i", len(cell)) + cell
    return out


def reference_decrypt(key, stored):
    from cryptography.hazmat.primitives import padding
    from cryptography.hazmat.primitives.ciphers import Cipher, algorithms, modes
    iv, body = stored[:16], stored[16:]
    d = Cipher(algorithms.AES(key), modes.CBC(iv)).decryptor()
    padded = d.update(body) + d.finalize()
    u = padding.PKCS7(128).unpadder()
    return iv, u.update(padded) + u.finalize()


# ---------------------------------------------------------------------------------------------
# driver side
# ---------------------------------------------------------------------------------------------

def _policy(case, iv_hex):
    from cassandra.column_encryption.policies import AES256ColumnEncryptionPolicy
    from cassandra.policies import ColDesc
    pol = AES256ColumnEncryptionPolicy(iv=bytes.fromhex(iv_hex))
    for c in case["cols"]:
        if c["enc"]:
            pol.add_column(ColDesc(KS, TABLE, c["name"]), bytes.fromhex(c["key"]), c["type"])
    return pol


def _driver_meta(case):
    """column metadata as the driver holds it for the prepared statement: encrypted columns are blobs on the server"""
    from cassandra.protocol import ColumnMetadata
    from checks._drv import build_type
    return [ColumnMetadata(KS, TABLE, c["name"], build_type(V.T(_wire_type(c)))) for c in case["cols"]]


SKIP = object()


class _StubMetadata(object):
    def all_hosts(self):
        return []


class _StubCluster(object):
    """what Session.__init__ reads from its Cluster"""
    profile_manager = None
    metrics = None
    monitor_reporting_enabled = False
    client_id = "c39"

    def __init__(self, pv, policy):
        self.protocol_version = pv
        self.column_encryption_policy = policy
        self.metadata = _StubMetadata()


def _session_class():
    from concurrent.futures import Future
    from cassandra.cluster import Session

    class _Session(Session):
        """a real Session (real __init__) whose pools count as connected at once: no sockets"""

        def add_or_renew_pool(self, host, is_host_addition):
            f = Future()
            f.set_result(True)
            return f

    return _Session


def _other_policy(case, kind):
    from cassandra.column_encryption.policies import AES256ColumnEncryptionPolicy
    from cassandra.policies import ColDesc
    if kind == "no-policy":
        return None
    pol = AES256ColumnEncryptionPolicy(iv=bytes.fromhex(case["iv2"]))
    if kind == "other-column":
        pol.add_column(ColDesc(KS, TABLE, "zz_not_in_this_statement"), b"\x5a" * 32, "int")
        return pol
    for c in case["cols"]:                       # "rekey": same columns, the other cluster's keys
        if c["enc"]:
            pol.add_column(ColDesc(KS, TABLE, c["name"]), bytes(b ^ 0xFF for b in bytes.fromhex(c["key"])), c["type"])
    return pol


class _Sessions(object):
    """Creates the case's sessions in order through the real Session.__init__ (which is where the policy reaches the
    protocol handler) and restores the process-wide handler classes afterwards, so that cases stay independent even
    when a broken tree leaks the policy into shared state."""

    def __init__(self, case, self_policy):
        self.case, self.self_policy = case, self_policy

    def __enter__(self):
        import cassandra.cluster as CL
        import cassandra.protocol as PR
        self._saved = []
        for cls in set([PR._ProtocolHandler, PR.ProtocolHandler, CL.ProtocolHandler, CL.Session.client_protocol_handler]):
            self._saved.append((cls, cls.__dict__.get("column_encryption_policy", SKIP)))
        S = _session_class()
        self.by_kind = {}
        for kind in self.case.get("sessions") or ["self"]:
            pol = self.self_policy if kind == "self" else _other_policy(self.case, kind)
            self.by_kind[kind] = (S(_StubCluster(self.case["pv"], pol), [object()]), pol)
        return self

    def __exit__(self, *exc):
        for cls, val in self._saved:
            if val is SKIP:
                if "column_encryption_policy" in cls.__dict__:
                    delattr(cls, "column_encryption_policy")
            else:
                setattr(cls, "column_encryption_policy", val)
        return False


def decode_pure(case, body, policy, result_metadata):
    """the session configured with the case's policy decodes its result -- after every other session of the case's
    history has been created in the same process"""
    with _Sessions(case, policy) as ss:
        handler = ss.by_kind["self"][0].client_protocol_handler
        msg = handler.decode_message(case["pv"], {}, 0, 0, 0x08, body, None, result_metadata)
        return [tuple(r) for r in msg.parsed_rows]


def decode_pure_other_session(case, body, policy, result_metadata):
    """the re-keyed second cluster's session reads back ITS data (same rows, bound with its own policy)"""
    from cassandra.query import PreparedStatement
    from checks._drv import to_driver
    if "rekey" not in (case.get("sessions") or ()):
        return SKIP
    with _Sessions(case, policy) as ss:
        session, other = ss.by_kind["rekey"]
        meta = _driver_meta(case)
        prepared = PreparedStatement(meta, b"\x03" * 16, None, "INSERT ...", KS, case["pv"], meta, None,
                                     column_encryption_policy=other)
        stored = [list(prepared.bind([None if v is None else to_driver(V.T(c["type"]), v)
                                      for c, v in zip(case["cols"], row)]).values) for row in case["rows"]]
        msg = session.client_protocol_handler.decode_message(
            case["pv"], {}, 0, 0, 0x08, rows_body(case["cols"], stored, case["meta"]), None, result_metadata)
        return [tuple(r) for r in msg.parsed_rows]


from checks import _c39_cy                  # noqa: E402  the compiled half (worker process on a fresh .pyx build)

DECODERS = [("pure", decode_pure), ("pure-other-session", decode_pure_other_session), ("list-parser", _c39_cy.decode_list), ("lazy-parser", _c39_cy.decode_lazy)]


def _null_feature(case, rows):
    enc_null = any(r[i] is None for r in rows for i, c in enumerate(case["cols"]) if c["enc"])
    return "null-in-encrypted-column" if enc_null else "no-null-in-encrypted-column"


def _compare_rows(ctx, key, case, want_rows, got_rows, who):
    from checks._drv import from_driver
    if len(got_rows) != len(want_rows):
        ctx.fail(key + ["row-count"], "%s: %d rows decoded, %d stored" % (who, len(got_rows), len(want_rows)))
        return
    for r, (want, got) in enumerate(zip(want_rows, got_rows)):
        if len(got) != len(want):
            ctx.fail(key + ["row-width"], "%s: row %d has %d cells, expected %d" % (who, r, len(got), len(want)))
            return
        for c, w, g in zip(case["cols"], want, got):
            kind = "encrypted" if c["enc"] else "plain"
            if w is None or g is None:
                ok = w is None and g is None
                norm = g
            elif isinstance(g, _c39_cy.Normalised):
                # decoded in the compiled-tree worker, which already normalised the driver object
                tree = V.T(c["type"])
                norm = g.problem if g.problem else g.value
                ok = (not g.problem) and V.same(tree, w, g.value)
            else:
                tree = V.T(c["type"])
                try:
                    norm = from_driver(tree, g)
                    ok = V.same(tree, w, norm)
                except V.NormaliseError as e:
                    norm, ok = "unnormalisable %r (%s)" % (g, e), False
            if not ok:
                ctx.fail(key + [kind, "null" if w is None else c["type"], "mismatch"],
                         "%s: column %r (%s %s) row %d: stored %r, decoded %r" % (who, c["name"], kind, c["type"], r, w, norm))
                return


def interpret(case, ctx):
    from cassandra.query import PreparedStatement
    from checks._drv import to_driver
    pv, cols, rows = case["pv"], case["cols"], case["rows"]
    meta = _driver_meta(case)
    with ctx.driver(["C39.policy"]):
        policy = _policy(case, case["iv"])
        reader_policy = _policy(case, case["iv2"])
    if ctx._failures:
        return
    ctx.label("pv=%s" % (pv if pv < 0x40 else hex(pv)), "meta:" + case["meta"], "rows=%d" % len(rows),
              "encrypted-cols=%d/%d" % (sum(1 for c in cols if c["enc"]), len(cols)),
              "sessions:" + "+".join(case.get("sessions") or ["self"]))
    if len(case.get("sessions") or ()) > 1:
        ctx.label("several-sessions-in-process")

    # ---- client: bind every row through the prepared statement
    prepared = PreparedStatement(meta, b"\x02" * 16, None, "INSERT ...", KS, pv, meta, None, column_encryption_policy=policy)
    stored = []
    for r, row in enumerate(rows):
        args = [None if v is None else to_driver(V.T(c["type"]), v) for c, v in zip(cols, row)]
        bound = None
        with ctx.driver(["C39.bind"]):
            bound = prepared.bind(args).values
        if bound is None:
            return
        if len(bound) != len(cols):
            ctx.fail(["C39.bind", "width"], "bind produced %d values for %d columns" % (len(bound), len(cols)))
            return
        for c, v, b in zip(cols, row, bound):
            if v is None:
                ctx.label("null:" + ("encrypted" if c["enc"] else "plain"))
                # transparency is judged on the way back; a null is normally sent as a null
                ctx.check(b is None or isinstance(b, bytes), ["C39.bind", "null", "type"], "null bound as %r" % (b,))
                continue
            plain = V.encode(V.T(c["type"]), v, pv)
            if not isinstance(b, bytes):
                ctx.fail(["C39.bind", "not-bytes"], "column %r bound as %r" % (c["name"], b))
                return
            if not c["enc"]:
                ctx.check(b == plain, ["C39.bind", "plain-column", c["type"]],
                          "unencrypted column %r: bound %r, expected %r" % (c["name"], b, plain))
                continue
            ctx.label("enc:" + c["type"])
            if b == plain or (len(plain) >= 8 and plain in b[16:]):
                ctx.fail(["C39.sent-encrypted", "plaintext-on-the-wire"],
                         "encrypted column %r (%s) sent %r which contains the plaintext %r" % (c["name"], c["type"], b, plain))
                continue
            try:
                iv, dec = reference_decrypt(bytes.fromhex(c["key"]), b)
            except ValueError as e:
                ctx.fail(["C39.sent-encrypted", "undecipherable"],
                         "column %r: AES-256-CBC/PKCS7 with the column's key cannot decrypt %r: %s" % (c["name"], b, e))
                continue
            ctx.check(dec == plain, ["C39.sent-encrypted", "wrong-plaintext"],
                      "column %r (%s): independent decryption gives %r, plaintext serialization is %r" % (
                          c["name"], c["type"], dec, plain))
            ctx.check(iv == bytes.fromhex(case["iv"]), ["C39.sent-encrypted", "iv"],
                      "column %r: leading 16 bytes %r are not the policy's IV" % (c["name"], iv))
        stored.append(list(bound))
    if ctx._failures:
        return

    # ---- server returns the stored cells; client decodes with the policy
    result_metadata = [tuple(m) for m in meta] if case["meta"] == "no-metadata" else None
    feat = _null_feature(case, rows)
    for who, decode in DECODERS:
        got = None
        with ctx.driver(["C39.decode", who, feat]):
            got = decode(case, rows_body(cols, stored, case["meta"]), reader_policy, result_metadata)
        if got is SKIP:
            continue
        if got is not None:
            _compare_rows(ctx, ["C39.decode", who], case, rows, got, who)
        elif feat == "null-in-encrypted-column":
            # keep searching behind the failure: the rows without a null in an encrypted column must still decode
            keep = [i for i, r in enumerate(rows) if not any(r[j] is None for j, c in enumerate(cols) if c["enc"])]
            sub = None
            with ctx.driver(["C39.decode", who, "no-null-in-encrypted-column"]):
                sub = decode(case, rows_body(cols, [stored[i] for i in keep], case["meta"]), reader_policy, result_metadata)
            if sub is not None:
                _compare_rows(ctx, ["C39.decode", who], case, [rows[i] for i in keep], sub, who)

    nt = False
    for j, c in enumerate(cols):
        if c["enc"]:
            col = [r[j] for r in rows]
            if any(v is None for v in col) and any(v is not None for v in col):
                nt = True
    if nt:
        ctx.label("encrypted-column-with-null-and-value")
    ctx.nontrivial(nt)


def parts(tier):
    import os
    if os.environ.get("VERIF_TIER") == tier:
        _c39_cy.prepare()        # .pyx build (or cache hit) once, before the shard workers fork
    return [hyp_part("rows", s_case, interpret, tier, quick=250, thorough=4000, quick_shards=8, thorough_shards=16)]
