"""C22 -- token-aware plans put live local replicas first without losing hosts."""
from itertools import product

from hypothesis import strategies as st

from checks import _ring
from spec import murmur3 as mref
from spec import placement as ref
from vlib.harness import EnumPart, HarnessError, hyp_part

THOROUGH_SCALE = 2.0
PID = "C22"
TITLE = "Token-aware plans put live local replicas first without losing hosts"
LEVEL = "exploration"
ENGINE = "models"
TECHNIQUE = ("property-based testing (Hypothesis) plus an exhaustive host-state product against a reference model: replicas from the independent "
             "placement reference (spec.placement), the wrapped plan from a twin child policy driven in lock step")
RULE = ("A case is a ring description (C26 format: hosts with dc/rack/tokens, keyspaces), a per-host state (up: live in the child policy and is_up True; down: "
        "on_down delivered, is_up False; added-unmarked: live in the child policy but is_up still None -- the window between Cluster.on_add and "
        "Host.set_up, permanent when the pool could not be created; upped-unmarked: same after on_up, is_up False), a child policy (RoundRobin, "
        "DCAwareRoundRobin with local_dc in/absent from the ring and used_hosts_per_remote_dc 0..2), the shuffle flag and a list of steps: "
        "queries (SimpleStatement with routing key/keyspace, working keyspace, or no statement at all) interleaved with up/down events and keyspace-level "
        "schema refreshes (Metadata._update_keyspace with new replication options / _drop_keyspace, as an ALTER/CREATE/DROP KEYSPACE event delivers them; the replicas "
        "of a key are those of the keyspace's current replication).  The real "
        "TokenAwarePolicy over the real Metadata is compared with R + rest where R are the reference replicas that are up and LOCAL "
        "and rest is the plan of a twin child policy (same events, same pinned randint/shuffle) minus R.  Part state-product enumerates all 4^h host states "
        "x children x shuffle x strategies for two fixed rings.  Non-trivial: a routed query with >= 2 replicas of which at least one is "
        "down, unmarked or not LOCAL.")
ASSUMPTIONS = [
    "cassandra.policies.randint / shuffle are substituted by functions that are part of the case, identically for the policy under test and its twin",
    "replicas are judged against spec.placement (Cassandra's algorithm; with transient replication its FULL replicas, which is what the driver routes to); "
    "where Metadata.get_replicas itself deviates (C26 findings) the failure key carries the feature metadata-replicas-differ",
    "the order inside R is demanded exactly for SimpleStrategy (ring walk order); for NetworkTopologyStrategy, whose order differs between Cassandra "
    "versions, R must keep the relative order of Metadata.get_replicas",
    "host states are those the cluster produces: Cluster.on_add/on_up notify the policies before Host.set_up() runs (after pool creation)",
]

STATES = ("up", "down", "added-unmarked", "upped-unmarked")


def _model_local(child, dc):
    if child["kind"] == "rr":
        return True
    return dc == child.get("local_dc")


class _World(object):
    def __init__(self, case):
        import cassandra.policies as P
        self.ring = _ring.build(case["ring"])
        self.child_spec = case["child"]
        hosts = self.ring.hosts
        self.ta = P.TokenAwarePolicy(_ring.make_policy(case["child"]), shuffle_replicas=bool(case.get("shuffle")))
        self.twin = _ring.make_policy(case["child"])
        states = [hd.get("state", "up") for hd in case["ring"]["hosts"]]
        for h in hosts:
            h.is_up = True
        # hosts that start as added-unmarked are not known at populate time: they arrive through on_add
        order = [hosts[i] for i in case.get("populate_order", range(len(hosts))) if states[i] != "added-unmarked"]
        self.known = set(id(h) for h in order)
        self.ta.populate(self.ring.cluster, list(order))
        self.twin.populate(self.ring.cluster, list(order))
        for i, s in enumerate(states):
            self.apply_state(i, s)

    def apply_state(self, i, state):
        h = self.ring.hosts[i]
        if state == "up":
            for p in (self.ta, self.twin):
                p.on_up(h)
            h.set_up()
        elif state == "down":
            h.set_down()
            for p in (self.ta, self.twin):
                p.on_down(h)
        elif state == "added-unmarked":
            if id(h) in self.known:             # a known host comes back as a new node: remove, then add
                h.set_down()
                for p in (self.ta, self.twin):
                    p.on_remove(h)
            self.known.add(id(h))
            for p in (self.ta, self.twin):
                p.on_add(h)
            h.is_up = None
        elif state == "upped-unmarked":
            h.set_down()
            for p in (self.ta, self.twin):
                p.on_up(h)
        else:
            raise HarnessError("unknown state %r" % (state,))


def interpret(case, ctx):
    from cassandra.query import SimpleStatement
    with _ring.pinned_random(case.get("randint", 0), case.get("shuffle_seed", 0)):
        w = None
        with ctx.driver(["C22.setup"]):
            w = _World(case)
        if w is None:
            return
        ring = w.ring
        hosts = ring.hosts
        tokens = [t for t, _e in ring.ref_ring]
        child = case["child"]
        shuffle = bool(case.get("shuffle"))
        nontrivial = False
        queried = set()         # keyspaces whose replica map the driver has been asked for (and may have cached)
        altered = {}            # keyspace -> "altered-after-query" | "altered"
        for step in case["steps"]:
            if "alter" in step:
                # a keyspace-level schema refresh (ALTER / CREATE KEYSPACE seen by the control connection)
                name = step["alter"]
                with ctx.driver(["C22.metadata.update_keyspace"]):
                    if step.get("options") is None:
                        ring.drop_keyspace(name)
                    else:
                        ring.alter_keyspace(name, step["options"])
                if step.get("options") is None:
                    queried.discard(name)
                    altered.pop(name, None)
                    ctx.label("schema:drop-keyspace")
                else:
                    altered[name] = "altered-after-query" if name in queried else "altered-before-query"
                    ctx.label("schema:" + altered[name])
                continue
            if "ev" in step:
                if step["host"] < len(hosts):
                    with ctx.driver(["C22.event", step["ev"]]):
                        w.apply_state(step["host"], step["ev"])
                continue
            q = step.get("q")
            wks = step.get("wks")
            query = None
            if q is not None:
                rk = None if q.get("key") is None else bytes.fromhex(q["key"])
                query = SimpleStatement("SELECT v FROM t WHERE k = 0", routing_key=rk, keyspace=q.get("ks"))
            eff_ks = (q.get("ks") if q and q.get("ks") else None) or wks
            routed = q is not None and q.get("key") is not None and eff_ks is not None
            drv_replicas = None
            if routed:
                queried.add(eff_ks)
                with ctx.driver(["C22.metadata.get_replicas"]):
                    drv_replicas = list(ring.metadata.get_replicas(eff_ks, rk))
                if drv_replicas is None:
                    return
            twin_plan = list(w.twin.make_query_plan(eff_ks, query))
            plan = None
            mode = "routed" if routed else ("no-statement" if q is None else ("no-routing-key" if q.get("key") is None else "no-keyspace"))
            with ctx.driver(["C22.plan", mode]):
                plan = list(w.ta.make_query_plan(wks, query))
            if plan is None:
                return
            try:
                pi = [ring.index(h) for h in plan]
                ti = [ring.index(h) for h in twin_plan]
            except KeyError:
                ctx.fail(["C22.foreign-host"], "plan contains an unknown host: %r" % (plan,))
                return
            if not routed or eff_ks not in ring.keyspaces or not tokens:
                sub = mode if not routed else "unknown-keyspace"
                ctx.check(pi == ti, ["C22.passthrough", sub], "%s: token-aware plan %r differs from the wrapped policy's plan %r" % (sub, pi, ti))
                ctx.label("q:" + sub)
                continue

            cls, opts = ring.strategy(eff_ks)
            try:
                refl = ref.full_endpoints(ring.ref_ring, ring.topology, cls, opts, ring.key_token(rk))
            except ref.ReferenceDisagreement as e:
                raise HarnessError("reference self-check failed: %s" % e)
            di = [ring.index(h) for h in drv_replicas]
            md_differs = set(di) != set(refl) or len(set(di)) != len(di)
            mdf = ["metadata-replicas-differ", altered.get(eff_ks, "keyspace-as-built")] if md_differs else []
            if altered.get(eff_ks) == "altered-after-query":
                ctx.label("q:routed-after-alter-of-queried-keyspace")
            simple = cls.endswith("SimpleStrategy")

            def ok_replica(i):
                return bool(hosts[i].is_up) and _model_local(child, ring.topology[i][0])

            R = [i for i in refl if ok_replica(i)]
            Rset = set(R)
            expected = Rset | set(ti)
            descr = "child=%r shuffle=%r ks=%r key=%s states=%r replicas(ref)=%r replicas(driver)=%r wrapped plan=%r token-aware plan=%r" % (
                child, shuffle, opts, rk.hex(), [(i, hosts[i].is_up, ring.topology[i][0]) for i in range(len(hosts))], refl, di, ti, pi)
            failed = False
            if len(set(pi)) != len(pi):
                failed = True
                ctx.fail(["C22.repeat"] + (["metadata-replicas-repeat"] if len(set(di)) != len(di) else mdf or ["policy"]),
                         "a host is repeated: " + descr)
            lost = expected - set(pi)
            for i in sorted(lost):
                failed = True
                if i in ti and (i in refl or i in di) and _model_local(child, ring.topology[i][0]) and not hosts[i].is_up:
                    why = ["local-replica-not-up"]
                elif md_differs:
                    why = mdf
                else:
                    why = ["other"]
                ctx.fail(["C22.lost"] + why, "host %d is left out: %s" % (i, descr))
            for i in sorted(set(pi) - expected):
                failed = True
                ctx.fail(["C22.extra"] + (mdf or ["policy"]), "host %d is neither in the wrapped plan nor a live local replica: %s" % (i, descr))
            if not failed:
                head = pi[:len(R)]
                if set(head) != Rset:
                    failed = True
                    ctx.fail(["C22.replicas-first"] + (mdf or ["shuffle" if shuffle else "ordered"]),
                             "the first %d hosts %r are not the live local replicas %r: %s" % (len(R), head, R, descr))
                elif not shuffle and not md_differs:
                    if simple:
                        want_order = R
                    else:
                        want_order = [i for i in di if i in Rset]
                        want_order = [i for k, i in enumerate(want_order) if i not in want_order[:k]]
                    if head != want_order:
                        failed = True
                        ctx.fail(["C22.replica-order"] + (mdf or ["simple" if simple else "nts"]),
                                 "live local replicas come as %r, ring order is %r: %s" % (head, want_order, descr))
            if not failed:
                rest = pi[len(R):]
                want_rest = [i for i in ti if i not in Rset]
                ctx.check(rest == want_rest, ["C22.rest-order"] + mdf,
                          "after the replicas the plan continues %r, the wrapped policy's order is %r: %s" % (rest, want_rest, descr))
            impaired = [i for i in refl if not ok_replica(i)]
            ctx.label("q:routed", "replicas=%d" % min(len(refl), 4), "R=%d" % min(len(R), 3))
            if impaired:
                ctx.label("replica-impaired")
            if md_differs:
                ctx.label("metadata-replicas-differ")
            if len(refl) >= 2 and impaired:
                nontrivial = True
        ctx.label("child=" + child["kind"], "shuffle" if shuffle else "no-shuffle")
        ctx.nontrivial(nontrivial)


# ---------------------------------------------------------------------------------------------
# exhaustive host-state product on fixed rings
# ---------------------------------------------------------------------------------------------

_FIXED = [
    # 3 hosts, one dc, vnodes
    {"partitioner": "murmur3",
     "hosts": [{"dc": "dc0", "rack": "r0", "tokens": [-6000, 3000]}, {"dc": "dc0", "rack": "r1", "tokens": [-1000, 6000]},
               {"dc": "dc0", "rack": "r0", "tokens": [1000]}],
     "keyspaces": {"s2": {"class": "SimpleStrategy", "replication_factor": "2"}, "s3": {"class": "SimpleStrategy", "replication_factor": "3"},
                   "n2": {"class": "NetworkTopologyStrategy", "dc0": "2"}}},
    # 4 hosts, two dcs interleaved
    {"partitioner": "murmur3",
     "hosts": [{"dc": "dc0", "rack": "r0", "tokens": [-8000]}, {"dc": "dc1", "rack": "r0", "tokens": [-4000]},
               {"dc": "dc0", "rack": "r1", "tokens": [0]}, {"dc": "dc1", "rack": "r0", "tokens": [4000]}],
     "keyspaces": {"s2": {"class": "SimpleStrategy", "replication_factor": "2"}, "s3": {"class": "SimpleStrategy", "replication_factor": "3"},
                   "n2": {"class": "NetworkTopologyStrategy", "dc0": "2", "dc1": "1"}}},
]
_CHILDREN = [{"kind": "rr"}, {"kind": "dcaware", "local_dc": "dc0", "used": 0}, {"kind": "dcaware", "local_dc": "dc0", "used": 1},
             {"kind": "dcaware", "local_dc": "dc1", "used": 2}]
_KEYS = [b"a", b"k1", b"zz9"]
_ALTERED_NTS = [{"class": "NetworkTopologyStrategy", "dc0": "3"}, {"class": "NetworkTopologyStrategy", "dc0": "1", "dc1": "2"}]


def product_chunks(tier):
    return [{"ring": r, "child": c} for r in range(len(_FIXED)) for c in range(len(_CHILDREN))]


def product_cases(chunk):
    base = _FIXED[chunk["ring"]]
    child = _CHILDREN[chunk["child"]]
    h = len(base["hosts"])
    for states in product(STATES, repeat=h):
        for shuffle in (False, True):
            ring = dict(base, hosts=[dict(hd, state=s) for hd, s in zip(base["hosts"], states)])
            steps = []
            for ks in ("s2", "n2", "s3"):
                for k in _KEYS[:2] if ks != "s2" else _KEYS:
                    steps.append({"q": {"key": k.hex(), "ks": ks}, "wks": None})
            # the replication of keyspaces that have been queried is altered, then they are queried again
            steps.append({"alter": "s2", "options": {"class": "SimpleStrategy", "replication_factor": "1"}})
            steps.append({"alter": "n2", "options": _ALTERED_NTS[chunk["ring"]]})
            steps.append({"alter": "s3", "options": {"class": "NetworkTopologyStrategy", "dc0": "1"}})
            for ks in ("s2", "n2", "s3"):
                steps.append({"q": {"key": _KEYS[0].hex(), "ks": ks}, "wks": None})
            yield {"ring": ring, "child": child, "shuffle": shuffle, "shuffle_seed": len(steps) + h, "randint": 1, "steps": steps}


# ---------------------------------------------------------------------------------------------
# random
# ---------------------------------------------------------------------------------------------

def s_case(max_dcs):
    def make():
        @st.composite
        def case(draw):
            h = draw(st.sampled_from([1, 2, 3, 3, 4, 4, 5, 6]))
            ndc = draw(st.integers(1, max_dcs))
            keys = draw(st.lists(st.binary(min_size=1, max_size=5), min_size=1, max_size=3, unique=True))
            near = [mref.murmur3_token(k) + d for k in keys for d in (-1, 0, 1)]
            near = [t for t in near if -2 ** 63 <= t <= 2 ** 63 - 1]
            tok = st.one_of(st.sampled_from(near), st.integers(-2 ** 63, 2 ** 63 - 1), st.sampled_from([-2 ** 63, 0, 2 ** 63 - 1]))
            counts = [draw(st.integers(1, 3)) for _ in range(h)]
            toks = draw(st.lists(tok, min_size=sum(counts), max_size=sum(counts), unique=True))
            hosts, at = [], 0
            state = st.sampled_from(STATES + ("up", "up"))
            for i in range(h):
                dc = draw(st.integers(0, ndc - 1)) if i >= ndc else i
                hosts.append({"dc": "dc%d" % dc, "rack": "r%d" % draw(st.integers(0, 2)), "tokens": toks[at:at + counts[i]],
                              "state": draw(state)})
                at += counts[i]
            dcnames = ["dc%d" % d for d in range(ndc)]
            rfs = st.sampled_from(["0", "1", "2", "2", "3", "3", "4"])
            nts = st.dictionaries(st.sampled_from(dcnames), rfs, min_size=1).map(lambda d: dict(d, **{"class": "NetworkTopologyStrategy"}))
            simple = st.sampled_from(["1", "2", "2", "3", "3", "5"]).map(lambda r: {"class": "SimpleStrategy", "replication_factor": r})
            if draw(st.integers(0, 19)) == 0:
                simple = st.just({"class": "SimpleStrategy", "replication_factor": "3/1"})
            kss = draw(st.lists(st.one_of(nts, simple), min_size=1, max_size=3))
            kss = dict(("ks%d" % j, o) for j, o in enumerate(kss))
            child = draw(st.one_of(
                st.just({"kind": "rr"}),
                st.fixed_dictionaries({"kind": st.just("dcaware"), "local_dc": st.sampled_from(dcnames + ["dc0", "dcZ"]),
                                       "used": st.integers(0, 2)})))
            ksname = st.sampled_from(sorted(kss) + ["ks0", "nope"])
            qstep = st.one_of(
                st.fixed_dictionaries({"q": st.fixed_dictionaries({"key": st.sampled_from(keys).map(bytes.hex), "ks": ksname}),
                                       "wks": st.one_of(st.none(), ksname)}),
                st.fixed_dictionaries({"q": st.fixed_dictionaries({"key": st.sampled_from(keys).map(bytes.hex), "ks": st.none()}),
                                       "wks": st.one_of(ksname, ksname, st.none())}),
                st.fixed_dictionaries({"q": st.fixed_dictionaries({"key": st.none(), "ks": ksname}), "wks": st.none()}),
                st.fixed_dictionaries({"q": st.none(), "wks": st.one_of(st.none(), ksname)}))
            ev = st.fixed_dictionaries({"ev": st.sampled_from(STATES), "host": st.integers(0, h - 1)})
            alter = st.fixed_dictionaries({"alter": st.sampled_from(sorted(kss) + ["nope"]),
                                           "options": st.one_of(nts, simple, nts, simple, st.none())})
            routed = st.fixed_dictionaries({"q": st.fixed_dictionaries({"key": st.sampled_from(keys).map(bytes.hex),
                                                                         "ks": st.sampled_from(sorted(kss))}), "wks": st.none()})
            steps = draw(st.lists(st.one_of(routed, routed, routed, qstep, ev, alter), min_size=1, max_size=6))
            if draw(st.integers(0, 2)) == 0:
                # by construction: query a keyspace, alter its replication, query it again with the same key
                q0 = draw(routed)
                steps = steps + [q0, {"alter": q0["q"]["ks"], "options": draw(st.one_of(nts, simple))}, q0]
            order = draw(st.permutations(list(range(h))))
            return {"ring": {"partitioner": "murmur3", "hosts": hosts, "keyspaces": kss}, "child": child,
                    "shuffle": draw(st.booleans()), "shuffle_seed": draw(st.integers(0, 7)), "randint": draw(st.integers(0, 7)),
                    "populate_order": list(order), "steps": steps}

        return case()
    return make


def parts(tier):
    return [
        EnumPart("state-product", product_chunks(tier), product_cases, interpret),
        hyp_part("random", s_case(2 if tier == "quick" else 3), interpret, tier, quick=700, thorough=8000, quick_shards=2, thorough_shards=16),
    ]
