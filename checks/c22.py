"""C22 -- token-aware plans put live local replicas first without losing hosts."""
from itertools import product

from hypothesis import strategies as st

from checks import _ring
from spec import murmur3 as mref
from spec import placement as ref
from vlib.harness import EnumPart, HarnessError, hyp_part

THOROUGH_SCALE = 2.0
PID = "C22"
TITLE = "Token-aware plans put live local replicas first without losing hosts"
LEVEL = "exploration"
ENGINE = "models"
TECHNIQUE = ("property-based testing (Hypothesis) plus an exhaustive host-state product against a reference model: replicas from the independent "
             "placement reference (spec.placement), the wrapped plan from a twin child policy driven in lock step; plans are also consumed lazily and "
             "interleaved (several generators alive at once), the interleaving being part of the case")
RULE = ("A case is a ring description (C26 format: hosts with dc/rack/tokens, keyspaces), a per-host state (up: live in the child policy and is_up True; down: "
        "on_down delivered, is_up False; added-unmarked: live in the child policy but is_up still None -- the window between Cluster.on_add and "
        "Host.set_up, permanent when the pool could not be created; upped-unmarked: same after on_up, is_up False), a child policy (RoundRobin, "
        "DCAwareRoundRobin with local_dc in/absent from the ring and used_hosts_per_remote_dc 0..2), the shuffle flag and a list of steps: "
        "queries (SimpleStatement with routing key/keyspace, working keyspace, or no statement at all) interleaved with up/down events and keyspace-level "
        "schema refreshes (Metadata._update_keyspace with new replication options / _drop_keyspace, as an ALTER/CREATE/DROP KEYSPACE event delivers them; the replicas "
        "of a key are those of the keyspace's current replication).  The real "
        "TokenAwarePolicy over the real Metadata is compared with R + rest where R are the reference replicas that are up and LOCAL "
        "and rest is the plan of a twin child policy (same events, same pinned randint/shuffle) minus R.  Part state-product enumerates all 4^h host states "
        "x children x shuffle x strategies for two fixed rings.  Overlap steps: 2-3 plans (the same statement again -- a hot partition -- or "
        "independent routed/unrouted statements) are alive at once, as the lazily consumed plans of concurrent requests are; a list of plan indices "
        "advances them one host at a time (the first advance starts a plan, which is when shuffle_replicas shuffles, each start with its own pinned "
        "shuffle seed), then all are drained; host states are constant inside the step.  The twin's plan is taken at the moment the policy under test "
        "asks its child for one, which also splits each plan into replica part and rest: demanded are no repeat, nothing lost, nothing extra, "
        "replica part within R, rest = twin order minus replica part; without shuffle also replica part = R in order (with shuffle a replica moved by a "
        "concurrent in-place shuffle may be deferred to the rest: labelled, not failed).  The state-product part has two such steps per case.  "
        "Non-trivial: a routed query with >= 2 replicas of which at least one is "
        "down, unmarked or not LOCAL; or an overlap step in which a plan with >= 2 live local replicas is part-way through when another plan over the "
        "same keyspace and token range (the same cached replica list) is started.")
ASSUMPTIONS = [
    "cassandra.policies.randint / shuffle are substituted by functions that are part of the case, identically for the policy under test and its twin",
    "replicas are judged against spec.placement (Cassandra's algorithm; with transient replication its FULL replicas, which is what the driver routes to); "
    "where Metadata.get_replicas itself deviates (C26 findings) the failure key carries the feature metadata-replicas-differ",
    "the order inside R is demanded exactly for SimpleStrategy (ring walk order); for NetworkTopologyStrategy, whose order differs between Cassandra "
    "versions, R must keep the relative order of Metadata.get_replicas",
    "host states are those the cluster produces: Cluster.on_add/on_up notify the policies before Host.set_up() runs (after pool creation)",
    "overlapping plans are interleaved at whole next() calls (the policies hold no lock while a plan is suspended, a request advances its plan only "
    "between attempts); during an overlap step the child's make_query_plan is wrapped on the instance only to learn when it is called, the twin "
    "supplies the expected wrapped plan; 'replicas first' is not demanded of a shuffling policy whose plan was overtaken by another plan's shuffle",
]

STATES = ("up", "down", "added-unmarked", "upped-unmarked")


def _model_local(child, dc):
    if child["kind"] == "rr":
        return True
    return dc == child.get("local_dc")


class _World(object):
    def __init__(self, case):
        import cassandra.policies as P
        self.ring = _ring.build(case["ring"])
        self.child_spec = case["child"]
        hosts = self.ring.hosts
        self.ta = P.TokenAwarePolicy(_ring.make_policy(case["child"]), shuffle_replicas=bool(case.get("shuffle")))
        self.twin = _ring.make_policy(case["child"])
        states = [hd.get("state", "up") for hd in case["ring"]["hosts"]]
        for h in hosts:
            h.is_up = True
        # hosts that start as added-unmarked are not known at populate time: they arrive through on_add
        order = [hosts[i] for i in case.get("populate_order", range(len(hosts))) if states[i] != "added-unmarked"]
        self.known = set(id(h) for h in order)
        self.ta.populate(self.ring.cluster, list(order))
        self.twin.populate(self.ring.cluster, list(order))
        for i, s in enumerate(states):
            self.apply_state(i, s)

    def apply_state(self, i, state):
        h = self.ring.hosts[i]
        if state == "up":
            for p in (self.ta, self.twin):
                p.on_up(h)
            h.set_up()
        elif state == "down":
            h.set_down()
            for p in (self.ta, self.twin):
                p.on_down(h)
        elif state == "added-unmarked":
            if id(h) in self.known:             # a known host comes back as a new node: remove, then add
                h.set_down()
                for p in (self.ta, self.twin):
                    p.on_remove(h)
            self.known.add(id(h))
            for p in (self.ta, self.twin):
                p.on_add(h)
            h.is_up = None
        elif state == "upped-unmarked":
            h.set_down()
            for p in (self.ta, self.twin):
                p.on_up(h)
        else:
            raise HarnessError("unknown state %r" % (state,))


def _overlap_step(step, case, w, ctx, queried, altered):
    """Several query plans alive at once: a plan is a lazy generator that the request consumes host by host as it fails over, so
    the plan of one request is part-way through when another request asks for its own.  step["overlap"] lists the plans
    ({"q", "wks", "sseed"}: sseed pins the shuffle this plan's start performs), step["ops"] is the interleaving: each entry advances
    that plan by one host (the first advance starts it); afterwards every plan is drained in index order.  Host states do not change
    inside the step.  The wrapped policy's plan belonging to each token-aware plan is taken from the twin at the very moment
    the policy under test asks its child for one (that moment also splits the plan into its replica part and its rest)."""
    from cassandra.query import SimpleStatement
    ring, hosts = w.ring, w.ring.hosts
    tokens = [t for t, _e in ring.ref_ring]
    child = case["child"]
    shuffle = bool(case.get("shuffle"))
    specs = step["overlap"]
    n = len(specs)
    limit = 3 * len(hosts) + 5
    plans = []
    for spec in specs:
        q, wks = spec.get("q"), spec.get("wks")
        rk, query = None, None
        if q is not None:
            rk = None if q.get("key") is None else bytes.fromhex(q["key"])
            query = SimpleStatement("SELECT v FROM t WHERE k = 0", routing_key=rk, keyspace=q.get("ks"))
        eff_ks = (q.get("ks") if q and q.get("ks") else None) or wks
        routed = rk is not None and eff_ks is not None
        mode = "routed" if routed else ("no-statement" if q is None else ("no-routing-key" if rk is None else "no-keyspace"))
        plans.append({"query": query, "wks": wks, "rk": rk, "ks": eff_ks, "routed": routed, "mode": mode, "sseed": spec.get("sseed", 0),
                      "gen": None, "taken": [], "done": False, "broken": False, "child_calls": [], "di": None,
                      "interrupts": []})
    current = [None]
    real_child = w.ta._child_policy
    inner = real_child.make_query_plan

    def spy(keyspace=None, query=None):
        p = current[0]
        if p is not None:
            p["child_calls"].append((len(p["taken"]), list(w.twin.make_query_plan(keyspace, query))))
        return inner(keyspace, query)

    def advance(p):
        if p["done"] or p["broken"]:
            return
        current[0] = p
        try:
            if p["gen"] is None:
                if p["routed"]:
                    queried.add(p["ks"])
                    with ctx.driver(["C22.metadata.get_replicas"]):
                        p["di"] = list(ring.metadata.get_replicas(p["ks"], p["rk"]))
                    if p["di"] is None:
                        p["broken"] = True
                        return
                p["interrupts"] = [o for o in plans if o is not p and o["taken"] and not o["done"]]
                with ctx.driver(["C22.plan", p["mode"], "overlapping-plans"]):
                    p["gen"] = w.ta.make_query_plan(p["wks"], p["query"])
                if p["gen"] is None:
                    p["broken"] = True
                    return
            got = stop = False
            with _ring.pinned_random(case.get("randint", 0), p["sseed"]):
                with ctx.driver(["C22.plan", p["mode"], "overlapping-plans"]):
                    try:
                        p["taken"].append(next(p["gen"]))
                        got = True
                    except StopIteration:
                        stop = True
            if stop:
                p["done"] = True
            elif not got:
                p["broken"] = True
            elif len(p["taken"]) > limit:
                p["broken"] = True
                ctx.fail(["C22.overlap.unbounded", p["mode"]], "a plan over %d hosts yielded more than %d hosts" % (len(hosts), limit))
        finally:
            current[0] = None

    real_child.make_query_plan = spy
    try:
        for k in step.get("ops", ()):
            advance(plans[k % n])
        for p in plans:
            for _ in range(limit + 2):
                if p["done"] or p["broken"]:
                    break
                advance(p)
    finally:
        try:
            del real_child.make_query_plan
        except AttributeError:
            pass

    def range_of(p):
        import bisect
        at = bisect.bisect_left(tokens, ring.key_token(p["rk"]))
        return (p["ks"], at % len(tokens))

    ctx.label("overlap:step", "overlap:plans=%d" % n)
    nontrivial = False
    shared = {}
    for p in plans:
        if p["routed"] and p["ks"] in ring.keyspaces and tokens:
            shared.setdefault(range_of(p), []).append(p)
    for p in plans:
        if p["broken"] or not p["done"]:
            continue
        try:
            pi = [ring.index(h) for h in p["taken"]]
        except KeyError:
            ctx.fail(["C22.foreign-host"], "plan contains an unknown host: %r" % (p["taken"],))
            continue
        if len(p["child_calls"]) != 1:
            ctx.fail(["C22.overlap.child-plan-calls", p["mode"], str(min(len(p["child_calls"]), 2))],
                     "the wrapped policy was asked for %d plans by one token-aware plan" % len(p["child_calls"]))
            continue
        split, tw = p["child_calls"][0]
        ti = [ring.index(h) for h in tw]
        if not p["routed"] or p["ks"] not in ring.keyspaces or not tokens:
            sub = p["mode"] if not p["routed"] else "unknown-keyspace"
            ctx.check(pi == ti, ["C22.passthrough", sub, "overlapping-plans"],
                      "%s: token-aware plan %r differs from the wrapped policy's plan %r" % (sub, pi, ti))
            ctx.label("overlap:q:" + sub)
            continue
        cls, opts = ring.strategy(p["ks"])
        try:
            refl = ref.full_endpoints(ring.ref_ring, ring.topology, cls, opts, ring.key_token(p["rk"]))
        except ref.ReferenceDisagreement as e:
            raise HarnessError("reference self-check failed: %s" % e)
        di = [ring.index(h) for h in p["di"]]
        md_differs = set(di) != set(refl) or len(set(di)) != len(di)
        mdf = ["metadata-replicas-differ", altered.get(p["ks"], "keyspace-as-built")] if md_differs else []
        tag = ["overlapping-plans"] + mdf
        R = [i for i in refl if bool(hosts[i].is_up) and _model_local(child, ring.topology[i][0])]
        Rset = set(R)
        head, rest = pi[:split], pi[split:]
        descr = "child=%r shuffle=%r ks=%r key=%s interleaving=%r plans=%r states=%r replicas(ref)=%r wrapped plan=%r token-aware plan=%r (first %d before the wrapped plan was asked for)" % (
            child, shuffle, opts, p["rk"].hex(), step.get("ops"), [(o["ks"], o["rk"].hex() if o["rk"] else None) for o in plans],
            [(i, hosts[i].is_up, ring.topology[i][0]) for i in range(len(hosts))], refl, ti, pi, split)
        failed = False
        if len(set(pi)) != len(pi):
            failed = True
            ctx.fail(["C22.repeat"] + tag + ["shuffle" if shuffle else "ordered"], "a host is repeated: " + descr)
        expected = Rset | set(ti)
        for i in sorted(expected - set(pi)):
            failed = True
            ctx.fail(["C22.lost"] + tag, "host %d is left out: %s" % (i, descr))
        for i in sorted(set(pi) - expected):
            failed = True
            ctx.fail(["C22.extra"] + tag, "host %d is neither in the wrapped plan nor a live local replica: %s" % (i, descr))
        if not failed and not set(head) <= Rset:
            failed = True
            ctx.fail(["C22.replicas-first"] + tag + ["non-replica-before-wrapped-plan"],
                     "hosts %r come before the wrapped plan but are not live local replicas %r: %s" % (head, R, descr))
        if not failed:
            want_rest = [i for i in ti if i not in head]
            if rest != want_rest:
                failed = True
                ctx.fail(["C22.rest-order"] + tag, "after the replicas the plan continues %r, the wrapped policy's order is %r: %s" % (rest, want_rest, descr))
        if not failed and not shuffle and not md_differs:
            # without shuffling nothing is mutated: overlapping plans are as good as sequential ones
            if set(head) != Rset:
                ctx.fail(["C22.replicas-first"] + tag + ["ordered"], "the first %d hosts %r are not the live local replicas %r: %s" % (split, head, R, descr))
            elif cls.endswith("SimpleStrategy") and head != R:
                ctx.fail(["C22.replica-order"] + tag + ["simple"], "live local replicas come as %r, ring order is %r: %s" % (head, R, descr))
        elif not failed and set(head) != Rset:
            ctx.label("overlap:live-local-replica-deferred-to-wrapped-plan")
        mates = shared.get(range_of(p), [])
        same_list = len(mates) >= 2
        ctx.label("overlap:q:routed", "overlap:R=%d" % min(len(R), 3))
        if same_list:
            ctx.label("overlap:same-replica-list")
        if len(R) >= 2 and any(o is not p and any(x is p for x in o["interrupts"]) for o in mates):
            # another plan over the same cached replica list was started while this one was part-way through
            nontrivial = True
            ctx.label("overlap:shared-list-restarted-mid-plan", "overlap:shared-list-restarted-mid-plan:" + ("shuffle" if shuffle else "ordered"))
    return nontrivial


def interpret(case, ctx):
    from cassandra.query import SimpleStatement
    with _ring.pinned_random(case.get("randint", 0), case.get("shuffle_seed", 0)):
        w = None
        with ctx.driver(["C22.setup"]):
            w = _World(case)
        if w is None:
            return
        ring = w.ring
        hosts = ring.hosts
        tokens = [t for t, _e in ring.ref_ring]
        child = case["child"]
        shuffle = bool(case.get("shuffle"))
        nontrivial = False
        queried = set()         # keyspaces whose replica map the driver has been asked for (and may have cached)
        altered = {}            # keyspace -> "altered-after-query" | "altered"
        for step in case["steps"]:
            if "alter" in step:
                # a keyspace-level schema refresh (ALTER / CREATE KEYSPACE seen by the control connection)
                name = step["alter"]
                with ctx.driver(["C22.metadata.update_keyspace"]):
                    if step.get("options") is None:
                        ring.drop_keyspace(name)
                    else:
                        ring.alter_keyspace(name, step["options"])
                if step.get("options") is None:
                    queried.discard(name)
                    altered.pop(name, None)
                    ctx.label("schema:drop-keyspace")
                else:
                    altered[name] = "altered-after-query" if name in queried else "altered-before-query"
                    ctx.label("schema:" + altered[name])
                continue
            if "ev" in step:
                if step["host"] < len(hosts):
                    with ctx.driver(["C22.event", step["ev"]]):
                        w.apply_state(step["host"], step["ev"])
                continue
            if "overlap" in step:
                if _overlap_step(step, case, w, ctx, queried, altered):
                    nontrivial = True
                continue
            q = step.get("q")
            wks = step.get("wks")
            query = None
            if q is not None:
                rk = None if q.get("key") is None else bytes.fromhex(q["key"])
                query = SimpleStatement("SELECT v FROM t WHERE k = 0", routing_key=rk, keyspace=q.get("ks"))
            eff_ks = (q.get("ks") if q and q.get("ks") else None) or wks
            routed = q is not None and q.get("key") is not None and eff_ks is not None
            drv_replicas = None
            if routed:
                queried.add(eff_ks)
                with ctx.driver(["C22.metadata.get_replicas"]):
                    drv_replicas = list(ring.metadata.get_replicas(eff_ks, rk))
                if drv_replicas is None:
                    return
            twin_plan = list(w.twin.make_query_plan(eff_ks, query))
            plan = None
            mode = "routed" if routed else ("no-statement" if q is None else ("no-routing-key" if q.get("key") is None else "no-keyspace"))
            with ctx.driver(["C22.plan", mode]):
                plan = list(w.ta.make_query_plan(wks, query))
            if plan is None:
                return
            try:
                pi = [ring.index(h) for h in plan]
                ti = [ring.index(h) for h in twin_plan]
            except KeyError:
                ctx.fail(["C22.foreign-host"], "plan contains an unknown host: %r" % (plan,))
                return
            if not routed or eff_ks not in ring.keyspaces or not tokens:
                sub = mode if not routed else "unknown-keyspace"
                ctx.check(pi == ti, ["C22.passthrough", sub], "%s: token-aware plan %r differs from the wrapped policy's plan %r" % (sub, pi, ti))
                ctx.label("q:" + sub)
                continue

            cls, opts = ring.strategy(eff_ks)
            try:
                refl = ref.full_endpoints(ring.ref_ring, ring.topology, cls, opts, ring.key_token(rk))
            except ref.ReferenceDisagreement as e:
                raise HarnessError("reference self-check failed: %s" % e)
            di = [ring.index(h) for h in drv_replicas]
            md_differs = set(di) != set(refl) or len(set(di)) != len(di)
            mdf = ["metadata-replicas-differ", altered.get(eff_ks, "keyspace-as-built")] if md_differs else []
            if altered.get(eff_ks) == "altered-after-query":
                ctx.label("q:routed-after-alter-of-queried-keyspace")
            simple = cls.endswith("SimpleStrategy")

            def ok_replica(i):
                return bool(hosts[i].is_up) and _model_local(child, ring.topology[i][0])

            R = [i for i in refl if ok_replica(i)]
            Rset = set(R)
            expected = Rset | set(ti)
            descr = "child=%r shuffle=%r ks=%r key=%s states=%r replicas(ref)=%r replicas(driver)=%r wrapped plan=%r token-aware plan=%r" % (
                child, shuffle, opts, rk.hex(), [(i, hosts[i].is_up, ring.topology[i][0]) for i in range(len(hosts))], refl, di, ti, pi)
            failed = False
            if len(set(pi)) != len(pi):
                failed = True
                ctx.fail(["C22.repeat"] + (["metadata-replicas-repeat"] if len(set(di)) != len(di) else mdf or ["policy"]),
                         "a host is repeated: " + descr)
            lost = expected - set(pi)
            for i in sorted(lost):
                failed = True
                if i in ti and (i in refl or i in di) and _model_local(child, ring.topology[i][0]) and not hosts[i].is_up:
                    why = ["local-replica-not-up"]
                elif md_differs:
                    why = mdf
                else:
                    why = ["other"]
                ctx.fail(["C22.lost"] + why, "host %d is left out: %s" % (i, descr))
            for i in sorted(set(pi) - expected):
                failed = True
                ctx.fail(["C22.extra"] + (mdf or ["policy"]), "host %d is neither in the wrapped plan nor a live local replica: %s" % (i, descr))
            if not failed:
                head = pi[:len(R)]
                if set(head) != Rset:
                    failed = True
                    ctx.fail(["C22.replicas-first"] + (mdf or ["shuffle" if shuffle else "ordered"]),
                             "the first %d hosts %r are not the live local replicas %r: %s" % (len(R), head, R, descr))
                elif not shuffle and not md_differs:
                    if simple:
                        want_order = R
                    else:
                        want_order = [i for i in di if i in Rset]
                        want_order = [i for k, i in enumerate(want_order) if i not in want_order[:k]]
                    if head != want_order:
                        failed = True
                        ctx.fail(["C22.replica-order"] + (mdf or ["simple" if simple else "nts"]),
                                 "live local replicas come as %r, ring order is %r: %s" % (head, want_order, descr))
            if not failed:
                rest = pi[len(R):]
                want_rest = [i for i in ti if i not in Rset]
                ctx.check(rest == want_rest, ["C22.rest-order"] + mdf,
                          "after the replicas the plan continues %r, the wrapped policy's order is %r: %s" % (rest, want_rest, descr))
            impaired = [i for i in refl if not ok_replica(i)]
            ctx.label("q:routed", "replicas=%d" % min(len(refl), 4), "R=%d" % min(len(R), 3))
            if impaired:
                ctx.label("replica-impaired")
            if md_differs:
                ctx.label("metadata-replicas-differ")
            if len(refl) >= 2 and impaired:
                nontrivial = True
        ctx.label("child=" + child["kind"], "shuffle" if shuffle else "no-shuffle")
        ctx.nontrivial(nontrivial)


# ---------------------------------------------------------------------------------------------
# exhaustive host-state product on fixed rings
# ---------------------------------------------------------------------------------------------

_FIXED = [
    # 3 hosts, one dc, vnodes
    {"partitioner": "murmur3",
     "hosts": [{"dc": "dc0", "rack": "r0", "tokens": [-6000, 3000]}, {"dc": "dc0", "rack": "r1", "tokens": [-1000, 6000]},
               {"dc": "dc0", "rack": "r0", "tokens": [1000]}],
     "keyspaces": {"s2": {"class": "SimpleStrategy", "replication_factor": "2"}, "s3": {"class": "SimpleStrategy", "replication_factor": "3"},
                   "n2": {"class": "NetworkTopologyStrategy", "dc0": "2"}}},
    # 4 hosts, two dcs interleaved
    {"partitioner": "murmur3",
     "hosts": [{"dc": "dc0", "rack": "r0", "tokens": [-8000]}, {"dc": "dc1", "rack": "r0", "tokens": [-4000]},
               {"dc": "dc0", "rack": "r1", "tokens": [0]}, {"dc": "dc1", "rack": "r0", "tokens": [4000]}],
     "keyspaces": {"s2": {"class": "SimpleStrategy", "replication_factor": "2"}, "s3": {"class": "SimpleStrategy", "replication_factor": "3"},
                   "n2": {"class": "NetworkTopologyStrategy", "dc0": "2", "dc1": "1"}}},
]
_CHILDREN = [{"kind": "rr"}, {"kind": "dcaware", "local_dc": "dc0", "used": 0}, {"kind": "dcaware", "local_dc": "dc0", "used": 1},
             {"kind": "dcaware", "local_dc": "dc1", "used": 2}]
_KEYS = [b"a", b"k1", b"zz9"]
_ALTERED_NTS = [{"class": "NetworkTopologyStrategy", "dc0": "3"}, {"class": "NetworkTopologyStrategy", "dc0": "1", "dc1": "2"}]


def product_chunks(tier):
    return [{"ring": r, "child": c} for r in range(len(_FIXED)) for c in range(len(_CHILDREN))]


def product_cases(chunk):
    base = _FIXED[chunk["ring"]]
    child = _CHILDREN[chunk["child"]]
    h = len(base["hosts"])
    for states in product(STATES, repeat=h):
        for shuffle in (False, True):
            ring = dict(base, hosts=[dict(hd, state=s) for hd, s in zip(base["hosts"], states)])
            steps = []
            for ks in ("s2", "n2", "s3"):
                for k in _KEYS[:2] if ks != "s2" else _KEYS:
                    steps.append({"q": {"key": k.hex(), "ks": ks}, "wks": None})
            # two requests for the same partition alive at once: the second plan starts after the first has yielded one host / two hosts
            for ks, ops in (("s3", [0, 1, 0, 1]), ("n2", [0, 0, 1, 1, 0])):
                steps.append({"overlap": [{"q": {"key": _KEYS[0].hex(), "ks": ks}, "wks": None, "sseed": len(states) + j} for j in (0, 1)],
                              "ops": ops})
            # the replication of keyspaces that have been queried is altered, then they are queried again
            steps.append({"alter": "s2", "options": {"class": "SimpleStrategy", "replication_factor": "1"}})
            steps.append({"alter": "n2", "options": _ALTERED_NTS[chunk["ring"]]})
            steps.append({"alter": "s3", "options": {"class": "NetworkTopologyStrategy", "dc0": "1"}})
            for ks in ("s2", "n2", "s3"):
                steps.append({"q": {"key": _KEYS[0].hex(), "ks": ks}, "wks": None})
            yield {"ring": ring, "child": child, "shuffle": shuffle, "shuffle_seed": len(steps) + h, "randint": 1, "steps": steps}


# ---------------------------------------------------------------------------------------------
# random
# ---------------------------------------------------------------------------------------------

def s_case(max_dcs):
    def make():
        @st.composite
        def case(draw):
            h = draw(st.sampled_from([1, 2, 3, 3, 4, 4, 5, 6]))
            ndc = draw(st.integers(1, max_dcs))
            keys = draw(st.lists(st.binary(min_size=1, max_size=5), min_size=1, max_size=3, unique=True))
            near = [mref.murmur3_token(k) + d for k in keys for d in (-1, 0, 1)]
            near = [t for t in near if -2 ** 63 <= t <= 2 ** 63 - 1]
            tok = st.one_of(st.sampled_from(near), st.integers(-2 ** 63, 2 ** 63 - 1), st.sampled_from([-2 ** 63, 0, 2 ** 63 - 1]))
            counts = [draw(st.integers(1, 3)) for _ in range(h)]
            toks = draw(st.lists(tok, min_size=sum(counts), max_size=sum(counts), unique=True))
            hosts, at = [], 0
            state = st.sampled_from(STATES + ("up", "up"))
            for i in range(h):
                dc = draw(st.integers(0, ndc - 1)) if i >= ndc else i
                hosts.append({"dc": "dc%d" % dc, "rack": "r%d" % draw(st.integers(0, 2)), "tokens": toks[at:at + counts[i]],
                              "state": draw(state)})
                at += counts[i]
            dcnames = ["dc%d" % d for d in range(ndc)]
            rfs = st.sampled_from(["0", "1", "2", "2", "3", "3", "4"])
            nts = st.dictionaries(st.sampled_from(dcnames), rfs, min_size=1).map(lambda d: dict(d, **{"class": "NetworkTopologyStrategy"}))
            simple = st.sampled_from(["1", "2", "2", "3", "3", "5"]).map(lambda r: {"class": "SimpleStrategy", "replication_factor": r})
            if draw(st.integers(0, 19)) == 0:
                simple = st.just({"class": "SimpleStrategy", "replication_factor": "3/1"})
            kss = draw(st.lists(st.one_of(nts, simple), min_size=1, max_size=3))
            kss = dict(("ks%d" % j, o) for j, o in enumerate(kss))
            child = draw(st.one_of(
                st.just({"kind": "rr"}),
                st.fixed_dictionaries({"kind": st.just("dcaware"), "local_dc": st.sampled_from(dcnames + ["dc0", "dcZ"]),
                                       "used": st.integers(0, 2)})))
            ksname = st.sampled_from(sorted(kss) + ["ks0", "nope"])
            qstep = st.one_of(
                st.fixed_dictionaries({"q": st.fixed_dictionaries({"key": st.sampled_from(keys).map(bytes.hex), "ks": ksname}),
                                       "wks": st.one_of(st.none(), ksname)}),
                st.fixed_dictionaries({"q": st.fixed_dictionaries({"key": st.sampled_from(keys).map(bytes.hex), "ks": st.none()}),
                                       "wks": st.one_of(ksname, ksname, st.none())}),
                st.fixed_dictionaries({"q": st.fixed_dictionaries({"key": st.none(), "ks": ksname}), "wks": st.none()}),
                st.fixed_dictionaries({"q": st.none(), "wks": st.one_of(st.none(), ksname)}))
            ev = st.fixed_dictionaries({"ev": st.sampled_from(STATES), "host": st.integers(0, h - 1)})
            alter = st.fixed_dictionaries({"alter": st.sampled_from(sorted(kss) + ["nope"]),
                                           "options": st.one_of(nts, simple, nts, simple, st.none())})
            routed = st.fixed_dictionaries({"q": st.fixed_dictionaries({"key": st.sampled_from(keys).map(bytes.hex),
                                                                         "ks": st.sampled_from(sorted(kss))}), "wks": st.none()})
            # overlapping plans: requests consume their plans lazily, so several plans are alive at once; ops is the interleaving
            sseed = st.integers(0, 7)

            def oplan(qs):
                return st.tuples(qs, sseed).map(lambda t: dict(t[0], sseed=t[1]))

            same = st.tuples(routed, st.lists(sseed, min_size=2, max_size=3)).map(lambda t: [dict(t[0], sseed=x) for x in t[1]])
            mixed = st.lists(oplan(st.one_of(routed, routed, qstep)), min_size=2, max_size=3)
            overlap = st.fixed_dictionaries({"overlap": st.one_of(same, same, mixed), "ops": st.lists(st.integers(0, 2), max_size=8)})
            steps = draw(st.lists(st.one_of(routed, routed, routed, qstep, ev, alter, overlap), min_size=1, max_size=6))
            if draw(st.integers(0, 2)) == 0:
                # by construction: query a keyspace, alter its replication, query it again with the same key
                q0 = draw(routed)
                steps = steps + [q0, {"alter": q0["q"]["ks"], "options": draw(st.one_of(nts, simple))}, q0]
            if draw(st.integers(0, 3)) == 0:
                # by construction: a hot partition -- the same statement planned again while earlier plans are part-way through
                q0 = draw(routed)
                k = draw(st.integers(2, 3))
                first = draw(st.integers(1, 3))
                steps = steps + [{"overlap": [dict(q0, sseed=draw(sseed)) for _ in range(k)],
                                  "ops": [0] * first + draw(st.lists(st.integers(0, k - 1), min_size=1, max_size=6))}]
            order = draw(st.permutations(list(range(h))))
            return {"ring": {"partitioner": "murmur3", "hosts": hosts, "keyspaces": kss}, "child": child,
                    "shuffle": draw(st.booleans()), "shuffle_seed": draw(st.integers(0, 7)), "randint": draw(st.integers(0, 7)),
                    "populate_order": list(order), "steps": steps}

        return case()
    return make


def parts(tier):
    return [
        EnumPart("state-product", product_chunks(tier), product_cases, interpret),
        hyp_part("random", s_case(2 if tier == "quick" else 3), interpret, tier, quick=700, thorough=8000, quick_shards=2, thorough_shards=16),
    ]
