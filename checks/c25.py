"""C25 -- host state changes keep a single reconnector and notify listeners once."""
import itertools
import os

from hypothesis import strategies as st

from checks import _simclu as S
from checks import _simutil as U
from vlib.harness import EnumPart, hyp_part

PID = "C25"
TITLE = "Host state changes keep a single reconnector and notify listeners once"
LEVEL = "exploration"
ENGINE = "sim"
THOROUGH_SCALE = 1.0
SERIAL = os.environ.get("VERIF_TIER") == "quick"   # heavily loaded machine: a forked pool is slower than one process
TECHNIQUE = ("model-based generation of event histories (Hypothesis) over the real Cluster/ControlConnection/Session/pools/"
             "scheduler/reconnection handlers on a deterministic simulated network and virtual clock; history invariants as oracle")
RULE = ("A case is 2-3 fake nodes (optionally one IGNORED by the load-balancing policy), 1-2 sessions, "
        "ConstantReconnectionPolicy with a delay of 1 s, 0.5 s or 0 s (a valid, falsy value) and up to ~20 generated events (free sequences, or an outage / removal-racing-reconnection / rejoin-while-unreachable skeleton with generated events interleaved): a pool connection fails (peer closes it and a request "
        "is routed to that host), a node goes down (refuses connections, its sockets are closed) / comes back / refuses the "
        "next k connection attempts, the control node pushes STATUS_CHANGE UP/DOWN or TOPOLOGY_CHANGE NEW_NODE/REMOVED_NODE "
        "(with or without the system tables agreeing), a node leaves / rejoins the topology, the node list is refreshed, a "
        "request is executed, the virtual clock advances by 0.05-3 s; a schedule tape picks the runnable virtual thread at "
        "every choice point (a 'tape' event re-arms it mid-history); connection attempts after the initial connect take 0 or 0.3 s; the peer's closes are resets or orderly closes (EOF).  An enumerated part plays 'UP announced while the host is "
        "still unreachable' with 1-2 sessions under every schedule tape over {0,1,2} of length <= 4 (thorough: 6).  At the end every node is made reachable and 6 s pass.  Non-trivial: some host went down, "
        "failed at least one reconnection attempt and came back up, or a host was removed while it had a reconnector.  "
        "Distinct by case digest.")
ASSUMPTIONS = ["network, clock, executor and event loop are simulated (sim/); Cluster, ControlConnection, Session, pools, "
               "scheduler and _HostReconnectionHandler are the real classes (the handler class is subclassed only to "
               "record instances, attempts and successes; Cluster.on_remove / on_add / on_down are wrapped only to mark when they "
               "return / start / with which arguments they run)",
               "cassandra.cluster.random (event debouncing) is replaced by the constant 0",
               "the three graph default profiles get load-balancing policy instances of their own (by default Cluster wraps the "
               "default profile's policy into them, so one policy object is notified four times per transition)",
               "invariants are evaluated at quiescent points (no runnable virtual thread at the current virtual time); "
               "pool presence is evaluated right after connect and at the end (all nodes reachable for 6 s), and whenever listeners are told a host is up",
               "connection attempts after the initial connect take 0 s or 0.3 s (generated); 0.05 s when the reconnection "
               "delay is 0 (and then the policy keeps down hosts in its plans, so that a control connection without live hosts "
               "spends connect time instead of spinning)",
               "Cluster.sessions (a WeakSet iterated in memory-address order) is replaced by an insertion-ordered set and executor futures hash by creation number "
               "(the driver keeps them in sets and blocks on whichever the set yields first) so that a case replays identically"]

ADV = [0.05, 0.15, 0.3, 1.0, 1.5, 3.0]


def s_case(gran):
    h = st.integers(0, 2)
    ev = st.one_of(
        st.tuples(st.just("conn_fail"), h, st.integers(0, 1)),
        st.tuples(st.just("node_down"), h, st.booleans()),
        st.tuples(st.just("node_up"), h),
        st.tuples(st.just("refuse"), h, st.integers(1, 3)),
        st.tuples(st.just("status"), st.sampled_from(["UP", "DOWN"]), h),
        st.tuples(st.just("topology"), st.sampled_from(["NEW_NODE", "REMOVED_NODE"]), h),
        st.tuples(st.just("leave"), h, st.booleans()),
        st.tuples(st.just("join"), h, st.booleans()),
        st.tuples(st.just("refresh")),
        st.tuples(st.just("query"), h, st.integers(0, 1)),
        st.tuples(st.just("advance"), st.sampled_from(ADV)),
        st.tuples(st.just("advance"), st.sampled_from(ADV)),
        st.tuples(st.just("tape"), st.lists(st.integers(0, 3), max_size=8)),
    )
    ev = ev.map(list)
    filler = st.lists(ev, max_size=2)
    long_adv = st.sampled_from([1.0, 1.5, 3.0]).map(lambda d: [["advance", d]])
    short_adv = st.sampled_from([0.05, 0.15, 0.3, 1.0]).map(lambda d: [["advance", d]])
    # an outage: the node goes away, at least one reconnection attempt fails, the node comes back
    # (optionally the control node announces the host UP while it is still unreachable)
    outage = st.tuples(h, filler, long_adv, filler, filler, long_adv, st.booleans(), short_adv).map(
        lambda t: [["node_down", t[0], True]] + t[1] + t[2] +
        ([["status", "UP", t[0]]] + t[7] if t[6] else []) + t[3] + [["node_up", t[0]]] + t[4] + t[5])
    # a node leaves, then rejoins the ring while it is still unreachable, then becomes reachable
    rejoin = st.tuples(h, short_adv, filler, short_adv, filler, long_adv).map(
        lambda t: [["leave", t[0], True]] + t[1] + [["node_down", t[0], False]] + t[2] + [["join", t[0], True]] + t[3] +
        t[4] + [["node_up", t[0]]] + t[5])
    # a removal racing a reconnection: the host is down (reconnector scheduled), then it leaves / is announced removed
    kill = st.one_of(st.tuples(st.just("conn_fail"), h, st.just(0)), st.tuples(st.just("node_down"), h, st.just(True)))
    gone = st.one_of(st.tuples(st.just("leave"), st.booleans()), st.tuples(st.just("topology"), st.just("REMOVED_NODE")))
    race = st.tuples(kill, filler, short_adv, gone, filler, short_adv).map(
        lambda t: [list(t[0])] + t[1] + t[2] +
        [[t[3][0], t[0][1], t[3][1]] if t[3][0] == "leave" else ["topology", "REMOVED_NODE", t[0][1]]] + t[4] + t[5])
    free = st.lists(ev, min_size=1, max_size=14)
    tail = st.lists(ev, max_size=6)
    events = st.one_of(free, st.tuples(outage, tail).map(lambda t: t[0] + t[1]), st.tuples(race, tail).map(lambda t: t[0] + t[1]),
                       st.tuples(outage, race).map(lambda t: t[0] + t[1]), st.tuples(rejoin, tail).map(lambda t: t[0] + t[1]))
    return st.fixed_dictionaries({
        "hosts": st.integers(2, 3),
        "sessions": st.sampled_from([1, 1, 2]),
        "ignored": st.sampled_from([None, None, None, 1, 2]),
        "rdelay": st.sampled_from([1.0, 1.0, 1.0, 0.0, 0.5]),
        "cdelay": st.sampled_from([0.0, 0.0, 0.3]),
        "orderly": st.booleans(),
        "events": events,
        "tape": st.lists(st.integers(0, 3), max_size=40 if gran == "locks" else 10),
        "gran": st.just(gran),
    })


def enum_chunks(tier):
    return [{"sessions": n, "maxlen": 4 if tier == "quick" else 6} for n in (1, 2)]


def enum_cases(chunk):
    """the control node announces a host UP while it is still unreachable (two sessions: two failing pool attempts, two
    on_down tasks racing the clean-up of the failed on_up), under every schedule tape of bounded length"""
    for k in range(chunk["maxlen"] + 1):
        for tape in itertools.product((0, 1, 2), repeat=k):
            if tape and tape[-1] == 0:
                continue        # trailing zeros are the default choice: same schedule as the shorter tape
            yield {"hosts": 2, "sessions": chunk["sessions"], "ignored": None, "gran": "blocking", "tape": [],
                   "rdelay": 1.0 if len(tape) % 2 == 0 else 0.0,
                   "events": [["node_down", 0, True], ["advance", 0.3], ["tape", list(tape)], ["status", "UP", 0],
                              ["advance", 0.15], ["advance", 1.0], ["node_up", 0], ["advance", 1.5]]}


def enum_removed_chunks(tier):
    return [{"addition": a} for a in (False, True)]


def enum_removed_cases(chunk):
    """a connection attempt takes 0.3 s; the host (down with an ordinary reconnector, or never successfully added and
    reconnecting with is_host_addition) leaves the ring at every 0.1 s step around the start of an attempt, the
    node being reachable again: at some steps the removal lands while the attempt is connecting"""
    for rdelay in (1.0, 0.5):
        for k in range(2, 24):
            wait = round(0.1 * k, 1)
            if chunk["addition"]:
                ev = [["leave", 1, True], ["advance", 0.15], ["node_down", 1, False], ["join", 1, True], ["advance", 0.5],
                      ["node_up", 1], ["advance", wait], ["leave", 1, True], ["advance", 0.15], ["advance", 1.0]]
            else:
                ev = [["node_down", 1, True], ["node_up", 1], ["advance", wait], ["leave", 1, True], ["advance", 0.15],
                      ["advance", 1.0]]
            yield {"hosts": 2, "sessions": 1, "ignored": None, "gran": "blocking", "tape": [], "rdelay": rdelay,
                   "cdelay": 0.3, "orderly": False, "events": ev}


def interpret(case, ctx):
    sim = S.Sim(tape=case["tape"], granularity=case["gran"], max_steps=40000)
    try:
        with sim:
            _run(case, ctx, sim)
    except S.StepBudgetExceeded:
        ctx.stats.inconclusive += 1
        ctx.label("inconclusive:step-budget")


def check_sequence(seq, observer="listener"):
    """notification sequence of one Host object -> (None, None) or (name of the first broken rule, index of the offending
    notification).  up/add and down must alternate (a removal in between does not count as coming up), nothing marks a
    removed Host object up again, a host is removed once.  on_add and on_up are different announcements: a policy is told
    at the START of Cluster.on_add / on_up, so add next to up is accepted there; a listener is told on completion, where
    on_up after on_add is a second 'came up' (on_add after on_up is the announcement of the addition and accepted)."""
    state, removed, last_u = None, False, None
    for i, kind in enumerate(seq):
        if kind in ("up", "add"):
            if removed:
                return "%s-after-remove" % kind, i
            if state == "U" and (kind == last_u or (observer == "listener" and kind == "up")):
                return "%s-after-%s" % (kind, last_u), i
            state, last_u = "U", kind
        elif kind == "down":
            if state == "D":
                return ("down-after-remove" if removed else "down-after-down"), i
            state = "D"
        elif kind == "remove":
            if removed:
                return "remove-after-remove", i
            removed = True
    return None, None


def _run(case, ctx, sim):
    import cassandra.cluster as C
    from cassandra.cluster import ExecutionProfile
    from cassandra.policies import ConstantReconnectionPolicy, HostDistance
    net = sim.net
    world = sim.world
    n = case["hosts"]
    addrs = [S.addr(i) for i in range(n)]
    ign = case["ignored"]
    ignored_addr = addrs[ign] if ign is not None and ign < n else None
    for a in addrs:
        net.add_node(a)
    lbp_log, lis_log = [], []
    zero_delay = not case.get("rdelay", 1.0)
    policy = S.plan_policy(log=lbp_log, distances={ignored_addr: "ignored"} if ignored_addr else None, keep_down=zero_delay)
    prof = ExecutionProfile(load_balancing_policy=policy, request_timeout=2.0)

    handlers = []
    connecting = []                # handlers whose attempt is inside the connection factory right now
    orderly = bool(case.get("orderly"))
    seq = itertools.count(1)       # global order of reconnection attempts and removals
    removed_seq = {}               # id(Host) -> sequence number at which Cluster.on_remove(host) returned

    Orig = C._HostReconnectionHandler

    class RecHandler(Orig):
        def __init__(self, *a, **k):
            Orig.__init__(self, *a, **k)
            self.rec_attempts = []
            self.rec_failed = 0
            self.rec_succeeded = False
            self.rec_created = world.now
            handlers.append(self)

        def try_reconnect(self):
            self.rec_attempts.append((world.now, next(seq)))
            connecting.append(self)
            try:
                return Orig.try_reconnect(self)
            except Exception:
                self.rec_failed += 1
                raise
            finally:
                connecting.remove(self)

        def on_reconnection(self, connection):
            self.rec_succeeded = True
            return Orig.on_reconnection(self, connection)
    sim.patch.set(C, "_HostReconnectionHandler", RecHandler)
    removed_objs = []   # Host objects whose Cluster.on_remove has returned

    adding_now = []     # Host objects whose Cluster.on_add is on some stack right now
    removed_ctx = {}    # id(Host) -> what the cluster was doing with the host when it was removed

    def on_remove(self, host, _orig=C.Cluster.on_remove):
        removed_ctx[id(host)] = ("removed-during-on_add" if any(x is host for x in adding_now) else
                                 "removed-during-on_up" if host._currently_handling_node_up else "removed-while-idle")
        try:
            return _orig(self, host)
        finally:
            # (the node-list refresh inside on_remove may re-add the address at once: then there is nothing to watch)
            if not self.is_shutdown:
                removed_objs.append(host)
                removed_seq[id(host)] = next(seq)

    def on_add(self, host, refresh_nodes=True, _orig=C.Cluster.on_add):
        adding_now.append(host)
        try:
            return _orig(self, host, refresh_nodes)
        finally:
            adding_now.remove(host)
    expecting = {}      # virtual thread id -> expect_host_to_be_down of the Cluster.on_down body it is running

    def on_down_body(self, host, is_host_addition, expect_host_to_be_down=False, _orig=C.Cluster.on_down.__wrapped__):
        cur = world.current
        k = cur.id if cur is not None else 0
        expecting[k] = (expect_host_to_be_down, host.is_currently_reconnecting(), is_host_addition)     # as seen on entry
        try:
            return _orig(self, host, is_host_addition, expect_host_to_be_down)
        finally:
            expecting.pop(k, None)
    sim.patch.set(C.Cluster, "on_down", C.run_in_executor(on_down_body))
    sim.patch.set(C.Cluster, "on_remove", on_remove)
    sim.patch.set(C.Cluster, "on_add", on_add)
    S.fixed_random(sim, [0.0])

    dist = {ignored_addr: "ignored"} if ignored_addr else None
    cluster = sim.make_cluster(addrs[:1], execution_profiles=S.separate_profiles(prof, lambda: S.plan_policy(distances=dist, keep_down=zero_delay)),
                               reconnection_policy=ConstantReconnectionPolicy(case.get("rdelay", 1.0), max_attempts=None))
    S.deterministic_sessions(cluster)
    S.deterministic_futures(sim)
    cluster.register_listener(S.recording_listener(lis_log, clock=lambda: world.now))
    premature = []      # (kind, address, session index): listeners told "up"/"added" while a session has no live pool

    notes = []          # (kind, Host, was Cluster.on_up handling the host at that moment) per listener notification

    class PoolWatcher(S.recording_listener([]).__class__):
        def _put(self, kind, host):
            cur = world.current
            exp = expecting.get(cur.id if cur is not None else 0, (False, False, False))
            notes.append((kind, host, bool(host._currently_handling_node_up), bool(exp[0]), bool(exp[1]), bool(exp[2])))
            if kind in ("up", "add") and policy.distance(host) != HostDistance.IGNORED:
                for si, s in enumerate(tuple(cluster.sessions)):
                    pool = s._pools.get(host)
                    if not s.is_shutdown and (pool is None or pool.is_shutdown):
                        premature.append((kind, host.endpoint.address, si))
    cluster.register_listener(PoolWatcher())
    sessions = []
    with ctx.driver(["C25.setup", "connect"]):
        for _ in range(case["sessions"]):
            sessions.append(sim.call(cluster.connect, wait_for_all_pools=True))
    if ctx._failures:
        return
    sim.settle()
    for a in addrs:
        net.nodes[a].connect_delay = case.get("cdelay", 0.0)
    if not case.get("rdelay", 1.0) and not case.get("cdelay", 0.0):
        # with a zero reconnection delay a refused connect must take some virtual time, or the reconnection loop
        # (attempt, fail, re-schedule at once) would spin without the clock moving
        for a in addrs:
            net.nodes[a].connect_delay = 0.05
    # the LBP learns the contact point through populate(), the listener through on_add
    lbp_log.insert(0, ("add", addrs[0], S.host_for(cluster, addrs[0])))
    nt = {"failed_then_up": False, "remove_with_reconnector": False}
    qn = [0]

    def active_handlers(h):
        return [hd for hd in handlers if hd.host is h and not hd._cancelled and not hd.rec_succeeded]

    def check_invariants(where, stable):
        for h in cluster.metadata.all_hosts():
            a = h.endpoint.address
            if policy.distance(h) == HostDistance.IGNORED:
                continue
            acts = active_handlers(h)
            if len(acts) > 1:
                ctx.fail(["C25.reconnector", "two-active"],
                         "%s: host %s has %d non-cancelled reconnection handlers (created at %r)" % (
                             where, a, len(acts), [hd.rec_created - t0 for hd in acts]))
                return False
            if h.is_up is True and acts and not h._currently_handling_node_up:
                ups = [rec[0] for rec in lis_log if rec[2] is h and rec[0] in ("up", "add")]
                ctx.fail(["C25.reconnector", "active-after-up", "marked-up-by-on_" + (ups[-1] if ups else "none")],
                         "%s: host %s is marked up but still has a non-cancelled reconnection handler (created at +%.2f s, "
                         "%d attempts)" % (where, a, acts[0].rec_created - t0, len(acts[0].rec_attempts)))
                return False
            # (a connection attempt to the host in progress = an on_add / on_up is still opening pools: judged later)
            dialing = any(c.endpoint.address == a and not c.is_closed and not c.connected_event.is_set() for c in net.conns) \
                or any(not t.done and t.name == "task:run_add_or_renew_pool" for ex in sim.executors for t in ex.tasks)
            if h.is_up is False and not h._currently_handling_node_up and not acts and not dialing:
                ever_up = any(rec[2] is h and rec[0] in ("up", "add") for rec in lis_log)
                ctx.fail(["C25.reconnector", "none-active", "was-up-before" if ever_up else "never-marked-up"],
                         "%s: host %s is marked down, nobody is handling an up event for it, and it has no active "
                         "reconnection handler" % (where, a))
                return False
            if stable and h.is_up is True:
                for si, s in enumerate(sessions):
                    if s.is_shutdown:
                        continue
                    pool = s._pools.get(h)
                    if pool is None or pool.is_shutdown:
                        readded = any(o is not h and o.endpoint == h.endpoint for o in removed_objs)
                        ctx.fail(["C25.pools", "missing" if pool is None else "shut-down", "sessions=%d" % len(sessions)] +
                                 (["host-was-removed-and-readded"] if readded else []),
                                 "%s: host %s is marked up and not ignored but session %d has %s for it" % (
                                     where, a, si, "no pool" if pool is None else "a shut-down pool"))
                        return False
        if premature:
            kind, a, si = premature[0]
            ctx.fail(["C25.pools", "notified-%s-without-pool" % kind],
                     "%s: listeners were told host %s is %s while session %d had no live pool for it" % (
                         where, a, "up" if kind == "up" else "added (and up)", si))
            return False
        for hobj in removed_objs:
            if any(k is hobj for k in cluster.metadata.all_hosts()):
                continue
            acts = active_handlers(hobj)
            if acts:
                ctx.fail(["C25.reconnector", "active-after-remove"],
                         "%s: Cluster.on_remove(%s) has returned but the host still has a non-cancelled reconnection handler" % (
                             where, hobj.endpoint.address))
                return False
        if stable:
            known = cluster.metadata.all_hosts()
            for si, s in enumerate(sessions):
                for h, pool in list(s._pools.items()):
                    # (the dict key may be an older Host object of the same endpoint: Host equality is by endpoint)
                    if not pool.is_shutdown and not any(k == h for k in known):
                        ctx.fail(["C25.removed-has-pool", removed_ctx.get(id(h), "never-removed")],
                                 "%s: host %s is no longer part of the cluster metadata (removed) but session %d still "
                                 "holds a live pool for it (host.is_up=%r)" % (where, h.endpoint.address, si, h.is_up))
                        return False
        for name, log in (("listener", lis_log), ("policy", lbp_log)):
            per, objs = {}, []
            for rec in log:
                kind, a, hobj = rec[0], rec[1], rec[2]
                if not any(o is hobj for o in objs):
                    objs.append(hobj)
                per.setdefault(id(hobj), (a, []))[1].append(kind)
            for hobj in objs:
                a, seq = per[id(hobj)]
                if a == ignored_addr:
                    continue        # an ignored host is added without being marked up; a later UP event marks it up
                bad, at = check_sequence(seq, name)
                if bad:
                    key = ["C25.notify", name, bad]
                    mine = [nt_ for nt_ in notes if nt_[1] is hobj]
                    if name == "listener" and at < len(mine):
                        if bad == "down-after-down" and mine[at][3]:
                            # the duplicate came from Cluster.on_down(expect_host_to_be_down=True)
                            key += ["expected-down", "while-reconnecting" if mine[at][4] else "no-reconnector"]
                            if mine[at][5]:
                                key.append("host-addition")     # from a failed pool of Cluster.on_add
                        elif bad != "down-after-down" and mine[at][2]:
                            key.append("during-on_up")      # delivered while Cluster.on_up was handling that host
                    if name == "policy" and bad == "up-after-remove" and seq[at + 1:at + 2] == ["down"]:
                        key.append("transient")             # taken back at once (an on_up that had passed its entry test)
                    ctx.fail(key, "%s: %s notifications for one Host object of %s: %r" % (where, name, a, seq))
                    return False
        # removed hosts are never reconnected: no reconnection attempt for the Host object starts after
        # Cluster.on_remove(host) has returned
        for hd in handlers:
            rs = removed_seq.get(id(hd.host))
            later = [t for (t, sq) in hd.rec_attempts if rs is not None and sq > rs]
            if later:
                ctx.fail(["C25.removed-reconnected"],
                         "%s: Cluster.on_remove(%s) had returned, yet its reconnection handler (created at +%.2f s) started "
                         "attempts at %r" % (where, hd.host.endpoint.address, hd.rec_created - t0,
                                             [round(t - t0, 2) for t in later]))
                return False
        return True

    def run_query(si, a):
        s = sessions[si % len(sessions)]
        policy.order = [a]
        qn[0] += 1
        try:
            sim.call(s.execute_async, "SELECT k FROM t /*%d*/" % qn[0])
        except S.StepBudgetExceeded:
            raise
        except Exception as e:  # noqa -- execute_async reports through the future
            ctx.fail(["C25.query", "raises", type(e).__name__], "execute_async raised %r" % (e,))
        policy.order = None

    t0 = world.now
    ok = check_invariants("after connect", True)
    for idx, ev in enumerate(case["events"]):
        if not ok:
            break
        kind = ev[0]
        stable = False
        if kind == "tape":
            # re-arm the schedule tape here, so that generated choices apply to the events that follow and are not
            # used up by the initial connect
            world.tape = [int(x) for x in ev[1]]
            world.tpos = 0
        elif kind == "advance":
            sim.advance(ev[1])
            stable = False      # (pool presence is judged at the end: a failed pool renewal is retried after a delay)
        elif kind == "conn_fail":
            a = addrs[ev[1] % n]
            s = sessions[ev[2] % len(sessions)]
            conns = [c for c in S.pool_connections(s, a) if not c.is_closed]
            for c in conns:
                net.server_close(c, eof=orderly)
            sim.settle()
            if conns:
                run_query(ev[2], a)
        elif kind == "node_down":
            a = addrs[ev[1] % n]
            node = net.nodes[a]
            node.up = False
            for c in list(net.conns):
                if c.node is node and not c.is_closed and not c.srv_closed:
                    net.server_close(c, eof=orderly)
            sim.settle()
            if ev[2]:
                for si in range(len(sessions)):
                    run_query(si, a)
        elif kind == "node_up":
            net.nodes[addrs[ev[1] % n]].up = True
        elif kind == "refuse":
            net.nodes[addrs[ev[1] % n]].refuse_next = ev[2]
        elif kind in ("status", "topology"):
            cn = S.control_node(net)
            a = addrs[ev[2] % n]
            if cn is not None and not (kind == "topology" and cn.address == a):
                if kind == "status":
                    cn.push_event({"type": "STATUS_CHANGE", "change": ev[1], "address": a})
                else:
                    cn.push_event({"type": "TOPOLOGY_CHANGE", "change": ev[1], "address": a})
                    h = S.host_for(cluster, a)
                    if ev[1] == "REMOVED_NODE" and h is not None and active_handlers(h):
                        nt["remove_with_reconnector"] = True
        elif kind in ("leave", "join"):
            cn = S.control_node(net)
            a = addrs[ev[1] % n]
            if cn is None or cn.address != a:
                if kind == "leave":
                    net.removed.add(a)
                    h = S.host_for(cluster, a)
                    if h is not None and any(hd.host is h for hd in connecting):
                        ctx.label("cls:leaves-while-reconnection-attempt-is-connecting" +
                                  (":addition" if any(hd.host is h and hd.is_host_addition for hd in connecting) else ""))
                    if h is not None and active_handlers(h):
                        nt["remove_with_reconnector"] = True
                else:
                    net.removed.discard(a)
                if ev[2] and cn is not None:
                    cn.push_event({"type": "TOPOLOGY_CHANGE", "change": "REMOVED_NODE" if kind == "leave" else "NEW_NODE",
                                   "address": a})
        elif kind == "refresh":
            try:
                sim.call(cluster.refresh_nodes)
            except S.StepBudgetExceeded:
                raise
            except Exception as e:  # noqa -- DriverException when the control connection is down: documented
                ctx.label("refresh-failed:" + type(e).__name__)
        elif kind == "query":
            run_query(ev[2], addrs[ev[1] % n])
        sim.settle()
        ctx.label("ev:" + kind)
        ok = check_invariants("after event %d %r" % (idx, ev), stable)

    if ok:
        # ---- heal everything and let time pass: every remaining host comes back
        for a in addrs:
            net.nodes[a].up = True
            net.nodes[a].refuse_next = 0
        sim.advance(6.0)
        sim.settle()
        ok = check_invariants("at the end", True)
    if ok:
        for h in cluster.metadata.all_hosts():
            if policy.distance(h) == HostDistance.IGNORED:
                continue
            a = h.endpoint.address
            if h.is_up is None:
                # never marked down, so the statement promises nothing; seen with two sessions when one session's pool for
                # a newly added host fails and on_down is discounted because the other session is connected: the host
                # stays in the unknown state, without reconnector, without on_add notification (reported as an observation)
                ctx.label("observation:host-stuck-in-unknown-state")
                continue
            if h.is_up is not True:
                ctx.fail(["C25.comes-back", "still-down"],
                         "every node has been reachable for 6 s but host %s is %r (handlers: %r)" % (
                             a, h.is_up, [(hd.rec_created - t0, hd._cancelled, hd.rec_succeeded, len(hd.rec_attempts))
                                          for hd in handlers if hd.host is h]))
                break
            if h._reconnection_handler is not None:
                ctx.fail(["C25.reconnector", "kept-after-up"], "host %s is up but still has a reconnection handler" % a)
                break
    for hd in handlers:
        if hd.rec_failed and hd.rec_succeeded:
            nt["failed_then_up"] = True
    downs = [x for x in lis_log if x[0] == "down"]
    ups = [x for x in lis_log if x[0] == "up"]
    ctx.label("hosts=%d" % n, "sessions=%d" % len(sessions), "handlers=%d" % min(len(handlers), 4),
              "downs=%d" % min(len(downs), 3), "ups=%d" % min(len(ups), 3))
    if any(x[0] == "remove" for x in lis_log):
        ctx.label("removed")
    if nt["failed_then_up"]:
        ctx.label("nt:failed-then-up")
    if nt["remove_with_reconnector"]:
        ctx.label("nt:remove-with-reconnector")
    ctx.nontrivial(nt["failed_then_up"] or nt["remove_with_reconnector"])
    for name, e in sim.task_errors:
        if isinstance(e, (RecursionError, AttributeError, TypeError, NameError)):
            ctx.fail(["C25.task-error", type(e).__name__], "executor task %s died with %r" % (name, e))
            break
    for name, e in world.actor_errors:
        ctx.fail(["C25.thread-error", type(e).__name__], "virtual thread %s died with %r" % (name, e))
        break
    try:
        sim.call(cluster.shutdown)
    except S.Deadlock:
        pass


def parts(tier):
    return [
        EnumPart("premature-up", enum_chunks(tier), enum_cases, interpret),
        EnumPart("removed-while-connecting", enum_removed_chunks(tier), enum_removed_cases, interpret),
        hyp_part("blocking", lambda: s_case("blocking"), interpret, tier, quick=300, thorough=1200,
                 quick_shards=6, thorough_shards=12),
        hyp_part("locks", lambda: s_case("locks"), interpret, tier, quick=120, thorough=400,
                 quick_shards=2, thorough_shards=4),
    ]
