"""C26 -- replica sets match Cassandra's replica placement."""
from hypothesis import strategies as st

from checks import _ring
from spec import murmur3 as mref
from spec import placement as ref
from vlib.harness import EnumPart, HarnessError, hyp_part

PID = "C26"
TITLE = "Replica sets match Cassandra's replica placement"
LEVEL = "exploration"
ENGINE = "models"
TECHNIQUE = ("exhaustive enumeration of small token rings (fresh, and followed through sequences of single-host dc/rack relocations on one "
             "Metadata object) plus property-based testing (Hypothesis) of random rings and random topology-refresh sequences against two independent "
             "transcriptions of Cassandra's calculateNaturalEndpoints (4.x DatacenterEndpoints and 2.x skipped-endpoints formulations)")
RULE = ("A case is a ring description (hosts with dc/rack/tokens, partitioner), a list of keyspace replication settings and probe keys; "
        "the real Metadata/TokenMap/KeyspaceMetadata/Host objects are built from it the way the control connection does. "
        "Part small-rings enumerates, in every ring order (up to host relabelling) x every dc assignment over <=2 DCs x every rack assignment "
        "per DC, the rings with (quick) <=4 hosts x 1-2 tokens per host, <=6 tokens in all, <=2 racks per DC; (thorough) <=3 hosts x 1-4 tokens "
        "(<=9 in all) x <=3 racks, 4 hosts x 1-2 tokens x <=3 racks, 4 hosts x 1-3 tokens (<=7 in all) x <=2 racks, 5 hosts x 1-2 tokens "
        "(<=7 in all) x <=2 racks with murmur3 tokens, plus <=3 (thorough <=4) hosts x 1-2 tokens for the Random and ByteOrdered partitioners; each ring carries "
        "SimpleStrategy RF 1..hosts+1 and NetworkTopologyStrategy with every per-DC RF in 0..4 (not all zero), an absent DC and one transient "
        "setting (judged against Cassandra's FULL replicas); ring tokens are the tokens of fixed probe keys so that keys fall before the first, between, exactly on and after the last "
        "ring token.  Part nts-cross-dc enumerates every ring order (one token per host) of two-DC clusters built so that one DC's walk passes hosts "
        "over for rack diversity and ends before all its racks are seen while the other DC has RF above its rack count: dc0 with racks "
        "r0 r0 r1 r2 (thorough also r0 r0 r1 r1 r2) and dc1 with 1-2 (thorough 3) hosts in one or two racks, under NTS (dc0,dc1) RF in "
        "{(2,2),(2,3),(2,1),(1,2),(3,2),(2,-),(-,3)} and SimpleStrategy 3.  Part random-rings draws rings of <=6 hosts x <=3 racks x <=2 DCs (thorough <=3 DCs) x 1-4 tokens per host with boundary "
        "tokens (Long.MIN_VALUE, Long.MAX_VALUE, 0, 2**127, empty/ff.. byte tokens) and tokens derived from the drawn keys (+-1).  For every keyspace the reference "
        "replica set is computed for every ring position; the driver is asked through TokenMap.get_replicas for every ring token and its "
        "+-1 neighbours and through Metadata.get_replicas for the probe keys (all of them on the first two keyspaces, every third on the others).  Non-trivial: a NetworkTopologyStrategy keyspace where rack "
        "awareness changes the result (the replica set differs from the first-RF-hosts-of-the-DC walk at some position) or RF exceeds "
        "the number of racks of a DC with more hosts than racks, or a SimpleStrategy walk that has to skip a repeated host.  "
        "Topology refreshes (round 4): a case may carry a list 'refreshes'; after the full probe of the freshly built ring (which fills the "
        "per-keyspace replica maps) every step is applied to the SAME Metadata the way ControlConnection._refresh_node_list_and_token_map does "
        "(new peers -> add_or_return_host, changed data_center/rack -> Host.set_location_info, changed token rows, vanished peers -> remove_host, "
        "then Metadata.rebuild_token_map with the fresh host->tokens map) and the full probe is repeated against the reference for the NEW "
        "layout (finding keys carry 'after-refresh:<kind>').  Part relocations enumerates (quick) 3 hosts x 1-2 tokens (<=4 in all) and 4 hosts x "
        "1 token, (thorough) 3 hosts x 1-2 tokens, 4 hosts x 1-2 tokens (<=5 in all), 5 hosts x 1 token, in every ring order x every dc assignment x "
        "every <=2-rack layout x every host: that host is moved through each of the other (dc0|dc1, r0|r1|r2) locations in turn and back home, "
        "tokens and owners untouched, under 8 NetworkTopologyStrategy settings and SimpleStrategy 2.  Part topology-refreshes draws random rings as "
        "random-rings does (>=2 hosts) followed by 1-3 steps out of: relocate 1-3 hosts (any DC, racks r0-r3), rebuild with nothing changed, "
        "token assignment change (a host gains a token / a token moves to another host / two hosts exchange a token), a host removed, a host "
        "added.  A case with refreshes is non-trivial iff at least one step changes the reference replica set of an already probed keyspace at "
        "some ring token (a stale answer would be wrong); labels refresh:<kind>, refresh:changes-replicas / refresh:replicas-unchanged, "
        "refresh:ring-unchanged-location-changes-replicas (tokens and owners identical, only dc/rack moved, placement differs), "
        "refresh:nothing-changed, refresh-steps=N count them.")
ASSUMPTIONS = [
    "spec/placement.py transcribes SimpleStrategy/NetworkTopologyStrategy.calculateNaturalEndpoints of Cassandra 2.x and 4.x; both are run on every "
    "case and must agree as sets (a disagreement is a harness error, never a violation)",
    "with transient replication 'N/T' the driver deliberately reports the FULL replicas only (ReplicationFactor.full_replicas, like the Java driver): the "
    "reference is Cassandra 4's placement with its full/transient mark -- per DC for NetworkTopologyStrategy, overall for SimpleStrategy, the last T replicas "
    "chosen are transient -- restricted to the full ones",
    "every host has a non-empty datacenter and rack and tokens are distinct across hosts (what system.local/system.peers deliver)",
    "key tokens come from spec/murmur3.py (C08)",
    "a topology refresh is modelled by the Metadata/Host calls the control connection makes (add_or_return_host, Host.set_location_info only when "
    "dc/rack differ, remove_host, rebuild_token_map with the fresh host->tokens dict in host order); load-balancing-policy notifications and the "
    "control connection's own decision whether to rebuild are outside this property -- every step here ends in rebuild_token_map, which is what "
    "the driver does whenever membership, a location or a token assignment changed or a rebuild is forced; after a refresh the property is "
    "demanded for the current ring only (the statement quantifies over rings, not over the history that led to them)",
]

MIN_LONG, MAX_LONG = -2 ** 63, 2 ** 63 - 1


# ---------------------------------------------------------------------------------------------
# interpret
# ---------------------------------------------------------------------------------------------

def _rf_features(opts):
    return "transient-rf" if any("/" in str(v) for k, v in opts.items() if k != "class") else "plain-rf"


def _dc_features(ring, dc, opts):
    """structural features of one datacenter of the ring for finding keys"""
    if "/" in str(opts.get(dc, "")):
        return ["transient-rf"]
    hosts = set(ep for _t, ep in ring.ref_ring if ring.topology[ep][0] == dc)
    ntok = sum(1 for _t, ep in ring.ref_ring if ep in hosts)
    return ["plain-rf", "dc-vnodes" if ntok > len(hosts) else "dc-single-token"]


def _dc_walk(ref_ring, topology, dc, rf, start):
    """first `rf` distinct hosts of `dc` from ring index `start` -- rack-unaware walk (for the non-trivial rule)"""
    out = []
    n = len(ref_ring)
    if rf <= 0:
        return out
    for k in range(n):
        ep = ref_ring[(start + k) % n][1]
        if topology[ep][0] == dc and ep not in out:
            out.append(ep)
            if len(out) >= rf:
                break
    return out


def _nontrivial(ring, short, opts, want):
    n = len(ring.ref_ring)
    topo = ring.topology
    if short == "SimpleStrategy":
        rf = ref.parse_rf(opts["replication_factor"])[0]
        for i in range(n):
            first = []
            for k in range(n):
                if len(first) >= rf:
                    break
                ep = ring.ref_ring[(i + k) % n][1]
                if ep in first:
                    return "simple:repeated-host-skipped"      # a repeated host had to be skipped before RF was reached
                first.append(ep)
        return None
    for dc in set(d for d, _r in topo.values()):
        if dc not in opts:
            continue
        rf = ref.parse_rf(opts[dc])[0]
        hosts_dc = set(ep for _t, ep in ring.ref_ring if topo[ep][0] == dc)
        racks_dc = set(topo[ep][1] for ep in hosts_dc)
        for i in range(n):
            if set(_dc_walk(ring.ref_ring, topo, dc, rf, i)) != set(ep for ep in want[i] if topo[ep][0] == dc):
                return "nts:rack-awareness-changes-the-set"
        if rf > len(racks_dc) and len(hosts_dc) > len(racks_dc):
            return "nts:rf>racks"
    return None


def interpret(case, ctx):
    ring = None
    with ctx.driver(["C26.build"]):
        ring = _ring.build({"partitioner": case["partitioner"], "hosts": case["hosts"], "keyspaces": case["keyspaces"]})
    if ring is None:
        return
    steps = case.get("refreshes") or []
    out = _probe_stage(ring, case, ctx, [])
    if out is None:
        return
    nontrivial, refmap = out
    if not steps:
        ctx.nontrivial(nontrivial)
        return
    # topology refreshes on the SAME Metadata object: every step is what ControlConnection._refresh_node_list_and_token_map
    # does with fresh system.local/system.peers rows, followed by the full probe against the reference for the NEW layout
    state = dict((i, list(hd.get("tokens") or [])) for i, hd in enumerate(case["hosts"]))
    changed_any = False
    ctx.label("refresh-steps=%d" % len(steps))
    for step in steps:
        kind = step["kind"]
        before_ring, before_topo = list(ring.ref_ring), dict(ring.topology)
        done = False
        with ctx.driver(["C26.refresh", kind]):
            _apply_refresh(ring, state, step)
            done = True
        if not done:
            return
        out = _probe_stage(ring, case, ctx, ["after-refresh:" + kind])
        if out is None:
            return
        _nt, newmap = out
        ring_same = before_ring == ring.ref_ring
        changed = sorted(set(_strategy_short(ring, name) for name in newmap if name in refmap and newmap[name] != refmap[name]))
        ctx.label("refresh:" + kind)
        if before_topo == ring.topology and ring_same:
            ctx.label("refresh:nothing-changed")
        if changed:
            changed_any = True
            ctx.label("refresh:changes-replicas")
            if ring_same:
                # tokens and owners identical, only dc/rack moved, and a cached keyspace's placement is different now
                ctx.label("refresh:ring-unchanged-location-changes-replicas", *["refresh:ring-unchanged-changes:" + c for c in changed])
        else:
            ctx.label("refresh:replicas-unchanged")
        refmap = newmap
    ctx.nontrivial(changed_any)


def _strategy_short(ring, name):
    return ring.strategy(name)[0].rsplit(".", 1)[-1]


def _apply_refresh(ring, state, step):
    """one topology refresh the way the control connection applies it: new peers are added to the Metadata, known hosts whose
    data_center/rack differ get Host.set_location_info, vanished peers are removed, then Metadata.rebuild_token_map(partitioner,
    {host: [token strings]}) with the tokens of the fresh rows.  The reference-side description (ref_ring, topology) follows."""
    md = ring.metadata
    part = ring.partitioner
    for hd in step.get("add", ()):
        i = len(ring.hosts)
        h = _ring.make_host(i, hd["dc"], hd["rack"])
        h, _new = md.add_or_return_host(h)
        ring.hosts.append(h)
        ring._by_id[id(h)] = i
        ring.topology[i] = (hd["dc"], hd["rack"])
        state[i] = list(hd["tokens"])
    for i, dc, rack in step.get("locations", ()):
        if (dc, rack) != ring.topology[i]:          # ControlConnection._update_location_info only acts on a difference
            ring.hosts[i].set_location_info(dc, rack)
            ring.topology[i] = (dc, rack)
    for i, toks in step.get("tokens", ()):
        state[i] = list(toks)
    for i in step.get("remove", ()):
        md.remove_host(ring.hosts[i])
        state.pop(i, None)
        ring.topology.pop(i, None)
    token_map = {}
    ref_ring = []
    for i in sorted(state):
        if state[i]:
            token_map[ring.hosts[i]] = [_ring.token_string(part, t) for t in state[i]]
            ref_ring.extend((_ring.token_value(part, t), i) for t in state[i])
    ref_ring.sort(key=lambda p: p[0])
    ring.ref_ring = ref_ring
    md.rebuild_token_map(_ring.PARTITIONERS[part], token_map)


def _probe_stage(ring, case, ctx, sfx):
    """probe every keyspace of the ring in its current state against the reference; `sfx` is appended to every finding key
    (empty for the freshly built ring).  Returns (non-trivial by the static rule, {keyspace: {token: frozenset(want)}}) or None
    when the stage could not be judged."""
    from cassandra.pool import Host
    md = ring.metadata
    n = len(ring.ref_ring)
    tokens = [t for t, _ep in ring.ref_ring]
    part = ring.partitioner
    if md.token_map is None or [t.value for t in md.token_map.ring] != tokens:
        ctx.fail(["C26.ring.order"] + sfx, "driver ring %r differs from the sorted token list %r" % (
            md.token_map and md.token_map.ring, tokens))
        return None

    # probes: (argument, ring index the reference selects)
    tprobes, kprobes = [], []
    for i, t in enumerate(tokens):
        tprobes.append((t, i))
        if part != "bytes":
            lo = MIN_LONG if part == "murmur3" else 0
            hi = MAX_LONG if part == "murmur3" else 2 ** 127
            for d in (-1, 1):
                if lo <= t + d <= hi:
                    tprobes.append((t + d, ref.first_token_index(tokens, t + d)))
        else:
            for tv in (t + b"\x00", t[:-1] if t else b""):
                tprobes.append((tv, ref.first_token_index(tokens, tv)))
    tprobes = [(ring.driver_token(a), a, i) for a, i in tprobes]
    pos_classes = set()
    for kh in case.get("keys", []):
        key = bytes.fromhex(kh)
        kt = ring.key_token(key)
        kprobes.append((key, key, ref.first_token_index(tokens, kt)))
        if kt in tokens:
            pos_classes.add("key:on-ring-token")
        elif kt < tokens[0]:
            pos_classes.add("key:before-first")
        elif kt > tokens[-1]:
            pos_classes.add("key:after-last(wraps)")
        else:
            pos_classes.add("key:between")

    pre = ref._dc_endpoints(ring.ref_ring, ring.topology)
    idmap = ring._by_id
    nontrivial = False
    refmap = {}
    for ksi, name in enumerate(ring.keyspaces):
        cls, opts = ring.strategy(name)
        short = cls.rsplit(".", 1)[-1]
        sub = "C26.simple" if short == "SimpleStrategy" else "C26.nts"
        rff = _rf_features(opts)
        try:
            nat = [ref.natural_replicas_at(ring.ref_ring, ring.topology, cls, opts, i, pre) for i in range(n)]
        except ref.ReferenceDisagreement as e:
            raise HarnessError("reference self-check failed: %s" % e)
        # token-aware routing targets the FULL replicas: without transient replication that is every natural replica
        want = [[ep for ep, is_full in r if is_full] for r in nat]
        refmap[name] = dict((tokens[i], frozenset(want[i])) for i in range(n))
        why = _nontrivial(ring, short, opts, [[ep for ep, _f in r] for r in nat])
        if why:
            nontrivial = True
            if not sfx:
                ctx.label(why)

        results = []
        with ctx.driver([sub + ".get_replicas", "by-token", rff] + sfx):
            get = md.token_map.get_replicas
            for tok, arg, idx in tprobes:
                results.append(("token", arg, idx, get(name, tok)))
        # every probe key on the first two keyspaces, every third key (rotating) on the others: the key -> token -> range
        # step does not depend on the keyspace
        with ctx.driver([sub + ".get_replicas", "by-key", rff] + sfx):
            get = md.get_replicas
            for key, arg, idx in (kprobes if ksi < 2 else kprobes[ksi % 3::3]):
                results.append(("key", arg, idx, get(name, key)))

        verdicts = {}
        seen_fail = set()
        for how, arg, idx, got in results:
            vk = (id(got), idx)
            if vk in verdicts:
                if verdicts[vk]:
                    continue
            if not isinstance(got, list) or not all(isinstance(h, Host) for h in got):
                ctx.fail([sub + ".type"] + sfx, "get_replicas returned %r" % (got,))
                break
            try:
                got_idx = [idmap[id(h)] for h in got]
            except KeyError:
                ctx.fail([sub + ".foreign-host"] + sfx, "get_replicas returned a Host object that is not the ring's: %r" % (got,))
                break
            exp = want[idx]
            sgot = set(got_idx)
            ok = len(sgot) == len(got_idx) and sgot == set(exp)
            verdicts[vk] = ok
            if ok:
                continue
            repeats = len(sgot) != len(got_idx)
            if short == "SimpleStrategy":
                vn = "vnodes" if n > len(set(ep for _t, ep in ring.ref_ring)) else "single-token"
                feats = [[rff] if rff == "transient-rf" else [rff, vn]]
            else:
                bad_dcs = sorted(set(ring.topology[e][0] for e in sgot ^ set(exp)) |
                                 set(ring.topology[e][0] for e in got_idx if got_idx.count(e) > 1))
                feats = [_dc_features(ring, dc, opts) for dc in bad_dcs]
            shown = arg.hex() if isinstance(arg, bytes) else arg
            if repeats:
                for f in feats:
                    k = tuple([sub + ".repeat"] + f + sfx)
                    if k not in seen_fail:
                        seen_fail.add(k)
                        ctx.fail(list(k), "%s %r %s=%r (ring index %d): replica list %r repeats a host (Cassandra places %r); ring=%r topology=%r" % (
                            short, opts, how, shown, idx, got_idx, exp, ring.ref_ring, ring.topology))
            if sgot != set(exp):
                lost = "missing" if set(exp) - sgot else "extra"
                for f in feats:
                    k = tuple([sub + ".set", lost] + f + (["list-repeats-host"] if repeats else ["list-distinct"]) + sfx)
                    if k not in seen_fail:
                        seen_fail.add(k)
                        ctx.fail(list(k), "%s %r %s=%r (ring index %d): driver replicas %r, Cassandra's %s replicas %r (placement order, full?) %r; ring=%r topology=%r" % (
                            short, opts, how, shown, idx, got_idx, "full" if rff == "transient-rf" else "natural", sorted(exp), nat[idx],
                            ring.ref_ring, ring.topology))
        if not sfx:
            ctx.label(short, "%s:%s" % (short, rff))
    if not sfx:
        ctx.label("partitioner=" + part, "hosts=%d" % len(ring.hosts), "tokens=%d" % n, *sorted(pos_classes))
        if n > len(set(ep for _t, ep in ring.ref_ring)):
            ctx.label("vnodes")
    return nontrivial, refmap


# ---------------------------------------------------------------------------------------------
# exhaustive small rings
# ---------------------------------------------------------------------------------------------

def _owner_seqs(h, max_tok, max_total):
    """ring orders: sequences over hosts 0..h-1, every host 1..max_tok times, first appearances in increasing order"""
    out = []

    def rec(seq, counts, nxt):
        if nxt == h and all(c >= 1 for c in counts):
            out.append(tuple(seq))
        if len(seq) >= max_total:
            return
        for host in range(min(nxt + 1, h)):
            if host < nxt:
                if counts[host] >= max_tok:
                    continue
                counts[host] += 1
                seq.append(host)
                rec(seq, counts, nxt)
                seq.pop()
                counts[host] -= 1
            else:
                counts[host] += 1
                seq.append(host)
                rec(seq, counts, nxt + 1)
                seq.pop()
                counts[host] -= 1

    rec([], [0] * h, 0)
    return out


def _growth_strings(n, k):
    """restricted growth strings of length n over <=k symbols (set partitions into <=k labelled-by-first-appearance blocks)"""
    out = []

    def rec(s, mx):
        if len(s) == n:
            out.append(tuple(s))
            return
        for v in range(min(mx + 1, k - 1) + 1):
            s.append(v)
            rec(s, max(mx, v))
            s.pop()

    rec([], -1)
    return out


def _rack_assignments(dcs, max_racks):
    """per-host rack index, canonical (first appearance) inside every dc"""
    ndc = max(dcs) + 1
    members = [[i for i, d in enumerate(dcs) if d == dc] for dc in range(ndc)]
    per_dc = [_growth_strings(len(m), max_racks) for m in members]
    out = []

    def rec(dc, acc):
        if dc == ndc:
            racks = [0] * len(dcs)
            for d, assign in enumerate(acc):
                for pos, i in enumerate(members[d]):
                    racks[i] = assign[pos]
            out.append(tuple(racks))
            return
        for a in per_dc[dc]:
            rec(dc + 1, acc + [a])

    rec(0, [])
    return out


_PROBE_CACHE = {}


def _probe_keys(partitioner, count):
    """`count` fixed keys sorted by their reference token"""
    ck = (partitioner, count)
    if ck not in _PROBE_CACHE:
        keys = [b"k%03d" % j for j in range(count)]
        fn = {"murmur3": mref.murmur3_token, "random": mref.random_token, "bytes": mref.byte_ordered_token}[partitioner]
        _PROBE_CACHE[ck] = sorted(keys, key=fn), fn
    return _PROBE_CACHE[ck]


def _keyspaces_for(h, ndc):
    ks = [{"class": "SimpleStrategy", "replication_factor": str(r)} for r in range(1, h + 2)]
    if ndc == 1:
        ks += [{"class": "NetworkTopologyStrategy", "dc0": str(r)} for r in range(1, h + 2)]
        ks.append({"class": "NetworkTopologyStrategy", "dc0": "2", "dcX": "3"})
        ks.append({"class": "NetworkTopologyStrategy", "dc0": "3/1"})
    else:
        for a in range(0, 5):
            for b in range(0, 5):
                if a or b:
                    ks.append({"class": "NetworkTopologyStrategy", "dc0": str(a), "dc1": str(b)})
        ks.append({"class": "NetworkTopologyStrategy", "dc0": "3/1", "dc1": "2"})
    ks.append({"class": "SimpleStrategy", "replication_factor": "3/1"})
    return ks


def small_chunks(tier):
    # (partitioner, hosts, max tokens per host, max tokens in the ring, max racks per dc)
    if tier == "quick":
        dom = [("murmur3", h, 2, min(2 * h, 6), 2) for h in (1, 2, 3, 4)] + [(p, h, 2, 2 * h, 2) for p in ("random", "bytes") for h in (2, 3)]
    else:
        dom = [("murmur3", 1, 4, 4, 3), ("murmur3", 2, 4, 8, 3), ("murmur3", 3, 4, 9, 3), ("murmur3", 4, 2, 8, 3),
               ("murmur3", 4, 3, 7, 2), ("murmur3", 5, 2, 7, 2)] + [(p, h, 2, 2 * h, 2) for p in ("random", "bytes") for h in (2, 3, 4)]
    chunks = []
    for p, h, max_tok, max_total, max_racks in dom:
        nseq = len(_owner_seqs(h, max_tok, max_total))
        for dcs in _growth_strings(h, 2):
            per_seq = len(_rack_assignments(dcs, max_racks))
            m = max(1, min(nseq, (nseq * per_seq + 1499) // 1500))      # slices of about 1500 rings
            for k in range(m):
                chunks.append({"partitioner": p, "hosts": h, "max_tok": max_tok, "max_total": max_total,
                               "max_racks": max_racks, "dcs": list(dcs), "slice": [k, m]})
    return chunks


def small_cases(chunk):
    p, h = chunk["partitioner"], chunk["hosts"]
    dcs = chunk["dcs"]
    k, m = chunk.get("slice", [0, 1])
    seqs = _owner_seqs(h, chunk["max_tok"], chunk["max_total"])[k::m]
    racks_list = _rack_assignments(dcs, chunk["max_racks"])
    keyspaces = _keyspaces_for(h, max(dcs) + 1)
    for owners in seqs:
        T = len(owners)
        keys, fn = _probe_keys(p, 2 * T + 1)
        toks = [fn(keys[2 * pos + 1]) for pos in range(T)]
        if p == "bytes":
            toks = [t.hex() for t in toks]
        for racks in racks_list:
            hosts = [{"dc": "dc%d" % dcs[i], "rack": "r%d" % racks[i],
                      "tokens": [toks[pos] for pos in range(T) if owners[pos] == i]} for i in range(h)]
            yield {"partitioner": p, "hosts": hosts, "keyspaces": keyspaces, "keys": [k_.hex() for k_ in keys]}


# ---------------------------------------------------------------------------------------------
# two DCs, by construction: one DC with more racks than RF and a same-rack pair (hosts are passed over for rack
# diversity and the walk ends before every rack is seen), one DC with RF above its rack count (passed-over hosts are
# taken back as soon as its racks are complete) -- state of one DC's walk must not reach another DC or token range
# ---------------------------------------------------------------------------------------------

_CROSS_FAMILIES = {
    # name: (racks of the dc0 hosts, racks of the dc1 hosts)
    "A0012-B0": ((0, 0, 1, 2), (0,)),
    "A0012-B00": ((0, 0, 1, 2), (0, 0)),
    "A0012-B01": ((0, 0, 1, 2), (0, 1)),
    "A00112-B0": ((0, 0, 1, 1, 2), (0,)),
    "A0012-B000": ((0, 0, 1, 2), (0, 0, 0)),
}
_CROSS_KEYSPACES = [
    {"class": "NetworkTopologyStrategy", "dc0": "2", "dc1": "2"},
    {"class": "NetworkTopologyStrategy", "dc0": "2", "dc1": "3"},
    {"class": "NetworkTopologyStrategy", "dc0": "2", "dc1": "1"},
    {"class": "NetworkTopologyStrategy", "dc0": "1", "dc1": "2"},
    {"class": "NetworkTopologyStrategy", "dc0": "3", "dc1": "2"},
    {"class": "NetworkTopologyStrategy", "dc0": "2"},
    {"class": "NetworkTopologyStrategy", "dc1": "3"},
    {"class": "SimpleStrategy", "replication_factor": "3"},
]


def cross_chunks(tier):
    fams = ["A0012-B0", "A0012-B00", "A0012-B01"] if tier == "quick" else sorted(_CROSS_FAMILIES)
    chunks = []
    for f in fams:
        n = sum(len(x) for x in _CROSS_FAMILIES[f])
        for first in range(n if n > 5 else 1):      # split the 720+ permutation families by the first ring owner
            chunks.append({"family": f, "first": first if n > 5 else None})
    return chunks


def cross_cases(chunk):
    from itertools import permutations
    ra, rb = _CROSS_FAMILIES[chunk["family"]]
    n = len(ra) + len(rb)
    keys, fn = _probe_keys("murmur3", 2 * n + 1)
    toks = [fn(keys[2 * pos + 1]) for pos in range(n)]
    probe = [keys[0].hex(), keys[n].hex(), keys[n + 1].hex(), keys[2 * n].hex()]      # before, between, on, after
    for order in permutations(range(n)):            # order[pos] = host owning ring position pos (one token per host)
        if chunk["first"] is not None and order[0] != chunk["first"]:
            continue
        hosts = []
        for i in range(n):
            dc, rack = ("dc0", ra[i]) if i < len(ra) else ("dc1", rb[i - len(ra)])
            hosts.append({"dc": dc, "rack": "r%d" % rack, "tokens": [toks[order.index(i)]]})
        yield {"partitioner": "murmur3", "hosts": hosts, "keyspaces": _CROSS_KEYSPACES, "keys": probe}


# ---------------------------------------------------------------------------------------------
# relocations: a host's datacenter / rack changes while endpoints, tokens and owners stay what they were; the control
# connection answers with Host.set_location_info + Metadata.rebuild_token_map on the SAME Metadata, whose per-keyspace replica
# maps were filled by the probes before -- the answers must follow the new layout
# ---------------------------------------------------------------------------------------------

_RELOC_KEYSPACES = [
    {"class": "NetworkTopologyStrategy", "dc0": "1"},
    {"class": "NetworkTopologyStrategy", "dc0": "2"},
    {"class": "NetworkTopologyStrategy", "dc0": "3"},
    {"class": "NetworkTopologyStrategy", "dc0": "1", "dc1": "1"},
    {"class": "NetworkTopologyStrategy", "dc0": "2", "dc1": "1"},
    {"class": "NetworkTopologyStrategy", "dc0": "2", "dc1": "2"},
    {"class": "NetworkTopologyStrategy", "dc0": "3", "dc1": "2"},
    {"class": "NetworkTopologyStrategy", "dc1": "3"},
    {"class": "SimpleStrategy", "replication_factor": "2"},
]
_RELOC_TARGETS = [("dc0", "r0"), ("dc0", "r1"), ("dc0", "r2"), ("dc1", "r0"), ("dc1", "r1"), ("dc1", "r2")]


def reloc_chunks(tier):
    # (hosts, max tokens per host, max tokens in the ring)
    dom = [(3, 2, 4), (4, 1, 4)] if tier == "quick" else [(3, 2, 6), (4, 2, 5), (5, 1, 5)]
    return [{"hosts": h, "max_tok": mt, "max_total": tot, "dcs": list(dcs)} for h, mt, tot in dom for dcs in _growth_strings(h, 2)]


def reloc_cases(chunk):
    """every ring order x every rack layout (<=2 racks per DC) x every host: that host is moved through every other
    (dc0|dc1, r0|r1|r2) location in turn and finally back, one topology refresh per move"""
    h, dcs = chunk["hosts"], chunk["dcs"]
    for owners in _owner_seqs(h, chunk["max_tok"], chunk["max_total"]):
        T = len(owners)
        keys, fn = _probe_keys("murmur3", 2 * T + 1)
        toks = [fn(keys[2 * pos + 1]) for pos in range(T)]
        probe = [keys[0].hex(), keys[T].hex(), keys[T + 1 if T > 1 else 1].hex(), keys[2 * T].hex()]
        for racks in _rack_assignments(dcs, 2):
            hosts = [{"dc": "dc%d" % dcs[i], "rack": "r%d" % racks[i],
                      "tokens": [toks[pos] for pos in range(T) if owners[pos] == i]} for i in range(h)]
            for who in range(h):
                home = (hosts[who]["dc"], hosts[who]["rack"])
                steps = [{"kind": "relocate", "locations": [[who, dc, rack]]} for dc, rack in _RELOC_TARGETS if (dc, rack) != home]
                steps.append({"kind": "relocate", "locations": [[who, home[0], home[1]]]})
                yield {"partitioner": "murmur3", "hosts": hosts, "keyspaces": _RELOC_KEYSPACES, "keys": probe, "refreshes": steps}


# ---------------------------------------------------------------------------------------------
# random larger rings
# ---------------------------------------------------------------------------------------------

def _draw_refreshes(draw, hosts, ndc, spare):
    """1-3 topology refreshes, each what one pass of ControlConnection._refresh_node_list_and_token_map can find: hosts whose
    dc/rack changed (tokens untouched), nothing changed (forced rebuild), a changed token assignment (a host gains a token, a
    token moves to another host, two hosts exchange a token), a peer that vanished, a new peer.  Tokens stay distinct by
    construction (new tokens come from a spare list drawn with the ring)."""
    cur = dict((i, list(hd["tokens"])) for i, hd in enumerate(hosts))
    total = len(hosts)
    spare = list(spare)
    steps = []
    for _ in range(draw(st.integers(1, 3))):
        alive = sorted(cur)
        kind = draw(st.sampled_from(["relocate", "relocate", "relocate", "relocate", "same", "tokens", "remove", "add"]))
        if kind == "relocate":
            k = draw(st.integers(1, min(3, len(alive))))
            who = draw(st.lists(st.sampled_from(alive), min_size=k, max_size=k, unique=True))
            steps.append({"kind": "relocate", "locations": [
                [i, "dc%d" % draw(st.integers(0, ndc - 1)), "r%d" % draw(st.integers(0, 3))] for i in who]})
        elif kind == "tokens" and len(alive) >= 2:
            op = draw(st.sampled_from(["gain", "move", "swap"]))
            a, b = draw(st.lists(st.sampled_from(alive), min_size=2, max_size=2, unique=True))
            if op == "gain" and spare:
                cur[a] = cur[a] + [spare.pop()]
                steps.append({"kind": "tokens", "tokens": [[a, list(cur[a])]]})
            elif op == "move" and len(cur[a]) >= 2:
                j = draw(st.integers(0, len(cur[a]) - 1))
                t = cur[a][j]
                cur[a] = cur[a][:j] + cur[a][j + 1:]
                cur[b] = cur[b] + [t]
                steps.append({"kind": "tokens", "tokens": [[a, list(cur[a])], [b, list(cur[b])]]})
            else:
                ja, jb = draw(st.integers(0, len(cur[a]) - 1)), draw(st.integers(0, len(cur[b]) - 1))
                ta, tb = cur[a][ja], cur[b][jb]
                cur[a] = [tb if x == ta else x for x in cur[a]]
                cur[b] = [ta if x == tb else x for x in cur[b]]
                steps.append({"kind": "tokens", "tokens": [[a, list(cur[a])], [b, list(cur[b])]]})
        elif kind == "remove" and len(alive) >= 2:
            i = draw(st.sampled_from(alive))
            del cur[i]
            steps.append({"kind": "remove", "remove": [i]})
        elif kind == "add" and spare:
            cur[total] = [spare.pop()]
            steps.append({"kind": "add", "add": [{"dc": "dc%d" % draw(st.integers(0, ndc - 1)), "rack": "r%d" % draw(st.integers(0, 3)),
                                                  "tokens": list(cur[total])}]})
            total += 1
        else:
            steps.append({"kind": "same"})
    return steps


def s_random(max_dcs, refreshes=False):
    def make():
        @st.composite
        def ring(draw):
            p = draw(st.sampled_from(["murmur3", "murmur3", "murmur3", "random", "bytes"]))
            h = draw(st.integers(2 if refreshes else 1, 6))
            ndc = draw(st.integers(1, max_dcs))
            keys = draw(st.lists(st.binary(min_size=1, max_size=6), min_size=1, max_size=4, unique=True))
            fn = {"murmur3": mref.murmur3_token, "random": mref.random_token, "bytes": mref.byte_ordered_token}[p]
            if p == "murmur3":
                pool = [MIN_LONG, MIN_LONG + 1, -1, 0, 1, MAX_LONG - 1, MAX_LONG]
                rnd = st.integers(MIN_LONG, MAX_LONG)
                near = [fn(k) + d for k in keys for d in (-1, 0, 1) if MIN_LONG <= fn(k) + d <= MAX_LONG]
            elif p == "random":
                pool = [0, 1, 2 ** 126, 2 ** 127 - 1, 2 ** 127]
                rnd = st.integers(0, 2 ** 127)
                near = [fn(k) + d for k in keys for d in (-1, 0, 1) if 0 <= fn(k) + d <= 2 ** 127]
            else:
                pool = [b"", b"\x00", b"\x7f", b"\x80", b"\xff", b"\xff\xff"]
                rnd = st.binary(max_size=4)
                near = [k for k in keys] + [k + b"\x00" for k in keys] + [k[:-1] for k in keys]
            tok = st.one_of(st.sampled_from(pool), st.sampled_from(near), rnd)
            counts = [draw(st.integers(1, 4)) for _ in range(h)]
            nspare = 4 if refreshes else 0
            toks = draw(st.lists(tok, min_size=sum(counts) + nspare, max_size=sum(counts) + nspare, unique=True))
            spare = [t.hex() if p == "bytes" else t for t in toks[sum(counts):]]
            hosts = []
            at = 0
            for i in range(h):
                dc = draw(st.integers(0, ndc - 1)) if i >= ndc else i       # every dc populated when h >= ndc
                mine = toks[at:at + counts[i]]
                at += counts[i]
                hosts.append({"dc": "dc%d" % dc, "rack": "r%d" % draw(st.integers(0, 2)),
                              "tokens": [t.hex() if p == "bytes" else t for t in mine]})
            dcnames = ["dc%d" % d for d in range(ndc)] + ["dcX"]
            rfs = st.one_of(st.integers(0, 4).map(str), st.sampled_from(["2/1", "3/1", "3/2", "5", "7"]))
            nts = st.dictionaries(st.sampled_from(dcnames), rfs, min_size=1, max_size=len(dcnames)).map(
                lambda d: dict(d, **{"class": "NetworkTopologyStrategy"}))
            simple = st.one_of(st.integers(1, 7).map(str), st.sampled_from(["3/1", "2/1"])).map(
                lambda r: {"class": "SimpleStrategy", "replication_factor": r})
            kss = draw(st.lists(st.one_of(nts, nts, simple), min_size=1, max_size=3))
            case = {"partitioner": p, "hosts": hosts, "keyspaces": kss, "keys": [k.hex() for k in keys]}
            if refreshes:
                case["refreshes"] = _draw_refreshes(draw, hosts, ndc, spare)
            return case

        return ring()
    return make


def parts(tier):
    return [
        EnumPart("small-rings", small_chunks(tier), small_cases, interpret),
        EnumPart("nts-cross-dc", cross_chunks(tier), cross_cases, interpret),
        hyp_part("random-rings", s_random(2 if tier == "quick" else 3), interpret, tier, quick=180, thorough=3000,
                 quick_shards=2, thorough_shards=16),
        EnumPart("relocations", reloc_chunks(tier), reloc_cases, interpret),
        hyp_part("topology-refreshes", s_random(2 if tier == "quick" else 3, refreshes=True), interpret, tier, quick=90, thorough=1500,
                 quick_shards=2, thorough_shards=16),
    ]
